#!/usr/bin/env python3
"""Writes /verif/MANIFEST.json from the table below (kept in one place so it stays valid)."""
import json, os, subprocess
ROOT = os.path.dirname(os.path.dirname(os.path.abspath(__file__)))

def hook_commits():
    try:
        out = subprocess.run(["git", "-C", "/repo", "log", "--format=%H %s"], capture_output=True, text=True).stdout
        return [l.split()[0] for l in out.splitlines() if "verif hook" in l]
    except Exception:
        return []

# id -> (technique, level text, level note, design ref)
CHECKS = {
 "C08": ("exhaustive boundary grids + proptest-driven random operands against an i128/IEEE oracle, four evaluation routes (differential)",
         "Every pair of a 45-value i64 boundary grid and a 30-value f64 grid for every scalar operator, plus seeded random operands, evaluated folded, through the host API, through an in-language call, with one operand constant, under a prefix operator (`!(a < b)`, `-(a - b)`), with both operands one and the same variable (`x == x`, `x - x`, `x / x`), with an operand that fails (the failing operand's error is the outcome; only && and || may skip their right operand) and as compound assignment, each compared with an independent i128 / IEEE oracle. Exploration: complete on the grids, sampled elsewhere.",
         "Trusts the harness oracle (i128 arithmetic, Rust f64 = IEEE-754, platform pow for float **) and that the grid covers the boundary classes listed in the evidence labels.",
         "DESIGN.md section 3, C08"),
 "C09": ("exhaustive small-scope enumeration + proptest random sequences/bounds against a re-implementation of Python's slice.indices (reference model), folded and run-time routes",
         "All arrays and strings (ASCII and 2/3/4-byte scalars, plus 14 scalars with boundary UTF-8 lead/continuation bytes) up to length 4 (quick) / 6 (thorough) x all indices and all (start, stop, step) triples in a range exceeding the length on both sides plus MIN/MAX, compared with Python slice semantics on i128; the constant-folded route, the run-time (host API call) route, partially constant routes and routes inside closures where the sequence, the index and the bounds are names captured from the enclosing scope; static type of the slice must admit the value.",
         "Trusts the harness's re-implementation of slice.indices and that literal sequences evaluate to themselves.",
         "DESIGN.md section 3, C09"),
 "C10": ("proptest-generated type triples (derived by widening / near-miss perturbation) + exhaustive triples over a 34-type basis, algebraic laws and semantic-witness value soundness as oracles",
         "Reflexivity, bounds, transitivity, variance congruences as equivalences, struct width, mut invariance, union upper/least bound (unions built with the implementation's `|` in several insertion orders), meet lower bound and value soundness (a concrete witness value of A outside B whenever A matches B) on ~60k generated triples per quick run plus ~14k basis triples; ~12k in-language membership programs: if-set, type arms of match and while-set of catalogue values (plus look-alike values differing in one component) against every catalogue type under every declared parameter type, the same test called repeatedly on members and non-members, must answer what the harness's membership test answers.",
         "Trusts the harness's membership semantics for witnesses (sem.rs); witness search is incomplete, so value soundness is only refuted, never proven.",
         "DESIGN.md section 3, C10"),
 "C15": ("proptest-generated types, several instances per type (different source orders, rebuilt with |), print/re-parse round trip + full-consumption parse of the printed text + run-time type-filter route",
         "Round trip Type -> text -> Type on ~40k generated types x 4-5 instances each (quick): printed text must be exactly one type under the grammar, re-parse to the same structure and be == to the instance; instances must be == to each other; `it ? T` must run for types with a default.",
         "Print orders of unions/structs come from std's per-instance hash keys; several instances per type sample them, the orders are not enumerated.",
         "DESIGN.md section 3, C15"),
 "C20": ("proptest-generated nested values + exhaustive boundary scalars / 1-2 character strings, print -> Variable::from_str / Code::parse round trip; integer literal texts against their mathematical value (reference model)",
         "Values up to depth 4 over boundary ints, finite floats, adversarial strings, (), arrays and tuples are built through public constructors, rendered and parsed back both as value literal and as program; content, ==, and type must be preserved. Integer literals in four radixes with underscores up to 2^65 must denote their value or be rejected as too big. Arrays and tuples over look-alike families (signed zeros, 1 vs 1.0, `[]` vs `[[]]`, "" vs " ") are enumerated. About 6000 of the values also go, as lines, through the REPL executable (src/main.rs, built by ./check from /repo's working tree): each line must be answered with the same text.",
         "Trusts the harness's JSON model of values and Rust's float formatting being shortest-round-trip.",
         "DESIGN.md section 3, C20"),
 "C14": ("exhaustive enumeration of operator pairs/triples and hand-written templates; metamorphic oracle: unparenthesised text == table-prescribed fully parenthesised text, with operand search for distinguishing values",
         "All 361 ordered pairs and 6859 triples of the 19 infix operators plus ~330 templates (prefix/postfix/iterator-level/assignment/tokenisation); for each, operands are searched so that the table's grouping is distinguished from the other groupings, then the bare text (spaced and unspaced) must agree with the table's grouping, and with the grouping computed one operator at a time; right-to-left assignment chains of all 12 assignment operators must also have the value the documented meaning gives (an assignment yields what it stored), written as a literal.",
         "Both sides are evaluated by the implementation (parentheses are trusted to group); chains whose groupings cannot be distinguished are counted, not claimed.",
         "DESIGN.md section 3, C14"),
 "C03": ("exhaustive short token sequences + proptest-driven random token sequences, grammar derivations (pest_meta on the project's own grammar), token-level mutation of the documentation corpus, an operator x operand-type matrix, constant-failure and import fault catalogues; oracle: no panic (crash oracle on a total function)",
         "About 2.4M calls per quick run of Code::parse (two environments), Code::return_type, Error::to_string, Variable::from_str and Type::from_str on generated text; every construct of the grammar is reached through derivations and the operand-type matrix (60 operand types incl. `!`, `any`, unions of every compound kind x ~150 unary and ~70 binary templates), the same matrix over constant operands of union static type, tape-generated typed programs with token edits, a catalogue of names rebound from their own old value, and string literals of every spelling (well-formed and malformed escapes) in every position that takes a string, import paths included.",
         "Inputs nested deeper than 40 brackets and imports outside the scratch directory are skipped (stack exhaustion and device reads are outside the claim); a panic hook + catch_unwind is the observation.",
         "DESIGN.md section 3, C03"),
 "C16": ("seeded workload generation + repeated execution on real oversubscribed threads (schedule sampling); oracles: orbit multiset of returned values, per-update bit ownership, brute-force linearizability against the i128 model, sequential-result differential",
         "Lost, duplicated or torn updates of every assignment operator are made visible by construction (injective orbits, one bit per update, identity updates racing with increments, linearizability of small histories, appends of distinct tokens to shared array / string / float cells); unshared executions of shared Code/Function values (incl. the lazy iterator helpers, a cell made from a constant in each of 26 syntactic positions, embedders importing one file) must equal what a fresh parse and a single run give; iterator adapters (`?`, `? T`, `@`, chains) over an atomic ticket source pulled by several threads hand out exactly the elements a single puller gets. Hundreds of workloads x repetitions per quick run, ~4M shared operations.",
         "The harness does not own the scheduler: interleavings are sampled by repetition on 16 cores; a race needing one rare interleaving, or a deadlock (reported as inconclusive by the watchdog), can be missed.",
         "DESIGN.md section 3 C16 and section 7"),
 "C19": ("proptest-generated value pairs x provenance paths + exhaustive basis x path pairs; oracle: structural equality of the harness's value model (reference model), symmetry/negation/reflexivity laws",
         "Equal and nearly-equal first-order values are built along 24 provenance paths (every array-producing operator, any/union-typed positions, cells, closures, loops) and compared with ==, !=, match value arms, bound/unbound, folded/run-time and nested inside arrays, tuples and structs; ~880k comparisons per quick run, 24 basis values x 26 x 26 path pairs swept completely (two paths label the array with a wider declared element type than a literal gets); a value compared with itself through one name at top level and inside function bodies is equal exactly when it holds no NaN; function values, cells and iterators (8 constructors x 10 alias paths x 6 comparison forms, 38 hand-written programs) are equal exactly when they stem from one creation, also across the inputs of an embedding session (the value a declaration statement yields vs the declared name); the negation law is also checked written as unparenthesised chains (`l == r != false`).",
         "Trusts the JSON value model's equality (IEEE for floats) and that each provenance expression evaluates to the intended value (checked first).",
         "DESIGN.md section 3, C19"),
 "C18": ("export discovery + exhaustive products of boundary argument pools + proptest random arguments; oracles: declared result type (harness membership), documented results by naive independent implementations (reference model), differential std::fs on a twin directory for fault states",
         "Every function reachable from `std` (90 exports discovered at run time) is called through the host API and in-language on boundary/random arguments (incl. strings and byte arrays around the UTF-8 encoding boundaries, overlong forms, the replacement character as content); results must inhabit the declared type, never raise, and match naive re-implementations of the documented behaviour; file-system functions are compared with std::fs on twin trees across 14 path states (all pairs for copy/rename); cgetline is fed generated stdin; the text print and print_array write is captured (stdout redirected to a file) and compared with the documented rendering.",
         "Transcendental float functions are only compared with the platform libm; fs differential assumes the twin tree is in the same state (rebuilt before every case).",
         "DESIGN.md section 3, C18"),
 "C01": ("exhaustive operator x operand-type matrix with subsumption calls, executed under the verif monitor; oracle: harness-side membership of every observed value in the static type the checker computed (tag and contents)",
         "Every unary/postfix/statement template on 60 operand types and every infix/assignment operator and two-operand template on all pairs; each accepted function is called through the host API and in-language with every catalogue value of its parameter types and, for one-parameter functions, with every catalogue value the host API admits (subsumption); the monitor reports each instruction result, argument, return, final result and reachable cell with its static type, and every array's element-type label must admit its elements (~700k executions per quick run); std.fs calls on a scratch tree (14 path states incl. a NUL byte in the path and non-UTF-8 content) are followed by a match with one arm per member of the declared result type.",
         "Instructions inside the placeholder-typed helper closures of @ ? ~ are not judged (hook H4); the known finding C01:void-for-never (filler of an exhausted empty-typed iterator) is listed in KNOWN_FINDINGS.txt and excluded from the catalogue.",
         "DESIGN.md section 3, C01"),
 "C02": ("exhaustive operator x operand-type matrix and documentation corpus executed under a panic-capturing guard; crash oracle restricted to the six documented run-time errors",
         "The same population as C01 (all accepted matrix functions x all catalogue values, host API and in-language); the run must end in a value or one of the six documented errors; budgets (fuel, depth, length) make runaway programs inconclusive, not violations.",
         "Generated programs run against std without fs/io (hand-written std.fs programs use a scratch directory only); a panic hook + catch_unwind is the observation.",
         "DESIGN.md section 3, C02"),
 "C04": ("proptest-generated typed programs printed as literal / fully hidden / partly hidden twins; differential oracle between the twins with the reference interpreter as referee and a constness analysis for the one permitted difference",
         "80k generated programs per quick run (constants profile) x 3 printings; values incl. the effect log and all top-level names, and run-time error kinds must agree; a parse-time error of the literal version must be justified by a constant (or unclassifiable) failing operand. A partial-constant catalogue (~56k twins: every infix operator with one operand, or two of three in a chain of one level, constant - literal / in a cell / bound to a name - over boundary ints, floats, bools, strings and arrays) is enumerated completely.",
         "The hiding wrapper `*(mut T c)` is assumed opaque to the folding pass (Mut::recreate and indirection never fold); twins differing in type-check acceptance are discarded.",
         "DESIGN.md section 3, C04"),
 "C06": ("proptest-generated typed programs (scoping profile) against the reference interpreter (model-based oracle) on all top-level names, the effect log and errors",
         "80k programs per quick run with a 4-name identifier pool plus the implementation's own helper names: shadowing in every body kind, binders deliberately spelled like visible variables, a differential over 19 binding constructs between a declaration and a typed use, closures capturing names redeclared later, shared cells, named recursion, parameters spelled like their function, user-written iterators with locals consumed by every operator; compared with an independent big-step evaluator written from the documentation; a generated (well-typed) program that the checker rejects is a violation.",
         "Trusts the reference interpreter (genr/refi.rs); unspecified values (fillers of exhausted array iterators) discard a case when observable.",
         "DESIGN.md section 3, C06"),
 "C07": ("proptest-generated typed programs (effects profile) with tick calls in operand positions; oracle: the reference interpreter's effect log (exactly-once, left-to-right, short-circuit)",
         "80k programs per quick run; subexpressions in operand positions of binary operators, calls, array/tuple/struct elements, slice bounds, [v; n], reduce, assignments, short-circuit operators, branches and match candidates are wrapped in tkN(k, e); the log sequence and all values must equal the reference's, in literal, hidden and partly hidden printings.",
         "Trusts the reference interpreter's order of evaluation, which follows the property text.",
         "DESIGN.md section 3, C07"),
 "C11": ("proptest-generated typed programs (iterator profile) against the reference interpreter's sequence semantics, laziness and pull order observed through the effect log",
         "80k programs per quick run: array and user-written iterators over ints, floats and strings, pipelines of @ ? `? T`, reducers (incl. float / string sums with typed empty sources), partition, for loops, manual pulls (flag only after exhaustion), shared stateful iterators, effectful callbacks.",
         "Fillers of exhausted array iterators are unspecified and discard a case when observable; user-written iterators carry explicit fillers.",
         "DESIGN.md section 3, C11"),
 "C12": ("proptest-generated typed programs (control profile) against the reference interpreter",
         "80k programs per quick run nesting if / match (value, disjoint and overlapping type arms, default arms; the same match executed on values of different types) / if-set (member, union and any tests) / while-set / loop / while / for / run-once loops inside functions with break, continue and return at every depth.",
         "Run-time type dispatch is only generated on scalars and on tuples, structs and cells of scalars, where the run-time type is unambiguous.",
         "DESIGN.md section 3, C12"),
 "C13": ("proptest-generated assignment histories over aliasing graphs against the reference heap, state inspection through the host API after run-time errors, plus the assignment part of the operand-type matrix under the verif monitor (cell typing under subsumption)",
         "80k programs per quick run (cells profile): cells in bindings, aliases, closures, arrays; all 12 assignment operators incl. failing ones; every read, every yielded value, the aliasing structure of results and the cells still reachable after an error are compared; ~9k matrix and near-miss cases (cell widening, compound assignments with wider operands) check that every reachable cell - incl. the cells handed to a host call - holds a value of its declared type.",
         "Trusts the reference heap model; matrix part trusts hook H1/H2 observations.",
         "DESIGN.md section 3, C13"),
 "C05": ("repeated parse/run of generated and enumerated programs on fresh threads (fresh hash keys) with an all-repetitions-agree oracle (metamorphic: same input, different hash seeds), the same programs in fresh child processes and after unrelated work on one thread, plus type-level determinism laws across instances",
         "All unary matrix cells, order-sensitive hand-written programs, the documentation corpus, generated typed programs and random matrix cells are parsed and run 6 (quick) / 24 (thorough) times on fresh threads; acceptance, static type, value and error must coincide; generated type pairs must be ==, hash-equal and answer matches/|/conjoin identically across instances, and whatever the checker derives from a union of partially subsuming members (field, element, result, parameter types ...) must be the same structure on every parse. About 11k programs are also run in 6 (quick) / 16 (thorough) child processes of the harness and compared with the parent's outcomes, and sequences of programs are run several times round on one thread and compared with their outcomes on fresh threads.",
         "Hash keys come from the OS, not from VERIF_SEED: detection of an order-dependent defect is probabilistic per repetition; the check itself is deterministic on a correct tree.",
         "DESIGN.md section 3 C05 and section 7"),
 "C17": ("proptest-generated statement sequences split into REPL inputs (differential batch vs incremental route), double execution of one Code, and exhaustive create_call vs in-language call acceptance/result differential over the operand-type matrix",
         "20k generated programs per quick run split into inputs of 1-3 statements and compared after every input on last result and all top-level variables; each program executed twice (equal results, disjoint cells, untouched interpreter); 72 fresh-state programs (fillers that are cells, cells made from constants in 26 positions, iterators over literals) executed four times from one Code against a fresh parse; ~390k host-vs-language call comparisons incl. ill-typed and wrong-arity argument lists (19 functions of arity 0-3: native iterators, std functions, parameters spelled like the function, recursion, captured cells).",
         "Acceptance differences between batch and incremental routes are allowed by the property and end the comparison of a case.",
         "DESIGN.md section 3, C17"),
}
# additions of the later seeded rounds (8-12), appended to the level texts above
EXTRA = {
 "C01": "Also: duplicate-name programs (one name declared twice in a struct literal, parameter list, destructuring, module, used at the type of either declaration), sessions that go on after a run-time error, a type filter for every catalogue type pulled past its end, destructuring and union-of-function calls with the results used. Round 12: bodies that can end under `-> !`.",
 "C02": "Also: the C01 additions under the panic guard (duplicate names and bare returns used as promised, sessions continued after a failed compound assignment, filter-to family, folds used at the function's type). Round 12: declarations in conditionally executed positions (with and without braces) used afterwards; a probe keeps the recorded finding about the re-typed sum of a pruned empty array visible.",
 "C03": "Also: every blank of the structured catalogues written as tab, line end, comment; duplicate-name programs; a hook change lets negative lengths cast to usize reach the code under test. Round 12: operands re-typed by the folding pass (sums of pruned empty arrays under every template), conditional declarations.",
 "C04": "Also: a probe keeps the recorded finding about pruned branches narrowing empty-array labels visible; generated programs contain parameters spelled like visible constants, discarded statements of every literal kind, equal-branch ifs with and without braces, swap destructuring. Round 12: compound literals whose parts are all constants (repeated field names) in the twins.",
 "C05": "Also: every set of three of 18 partially subsuming component types inside 9 kinds of type (7.3k unions) queried on fresh threads; two parses of a rejected program must give equal errors; programs writing to filler cells and testing wide struct types in the histories. Round 12: fillers that are functions returning cells in the history / process comparisons.",
 "C06": "Also: 42 host calls (create_call + exec_unscoped into the function's own interpreter: no name of the body appears, none changes), 32 programs where the non-binding part of a binding construct uses the outer name, 6 struct-literal field-scope programs, all with documented values.",
 "C07": "Also: computed callees, discarded array / tuple / struct / index statements, identically spelled effectful elements, assignments from the cell's own content and an update of it, equal-branch ifs. Round 12: 252 sessions calling callees left by an earlier input with effectful arguments.",
 "C08": "Also: nested prefix operators, bare negative literals, the operation as a discarded statement, `a op b op b` against the oracle applied twice. Round 12: the operation and the compound assignment as an element not taken out of a compound written in place.",
 "C09": "Also: index as a discarded statement, as the tested expression of if-set / while-set, inside a collected map stage (gather); sequences reached through binders that shadow constants; slices compared with the selected elements by == in both orders. Round 12: histories of run-time strings with equal byte length; the slice of an array has the array's type.",
 "C10": "Membership forms: if-set, match, while-set, type filter, two filters in a row, cells made from the tested value, host-call admission; default values of every catalogue type inside 9 constructors belong to their type. Round 12: values made at run time from operands narrower than their position's declared type, judged by the type monitor.",
 "C11": "Also: failing callbacks, type filters for tuple and array types over look-alike elements, sums over `[]~` behind typed parameters, sources that end and resume under every adapter (documented results and pull counts). Round 12: 10 function values x 10 function types through type filters.",
 "C12": "Also: loop values (12 shapes, tested by if-set, match and through a cell), arrays of compound elements of two types against narrow and wide arms, tuples matched by value among prefix tuples, struct types over other field names. Round 12: function values dispatched by type arms and if-set (single and paired arms).",
 "C13": "Also: concatenation of arrays of cells, array labels that do not admit a cell they hold, duplicate names holding cells, discarded cell creations with effects.",
 "C14": "Also: negative later operands (`x % -10 % 3`), equality / MIN_INT boundaries before comparisons, prefix minus on float zeros with documented values. Round 12: iterator chains with documented values (partial / counting predicates, chains executed again).",
 "C15": "Also: unions built from two halves joined with `|` both ways round. Round 12: struct field names spelled like words of the language.",
 "C16": "Also: first use of 22 operators by 16 threads in fresh child processes, nested values rendered by 8 threads at once, functions whose calls alternate between arms, fillers that are functions returning cells. Round 12: 8 threads printing their own lines with stdout captured; isolated programs measuring their own run-time strings.",
 "C17": "Also: binder-value sessions (11 binding constructs x 5 outer declarations), sessions over union-declared values, 77 fresh-state programs executed four times from one Code. Round 12: constructs whose callee / source has a local spelled like an outer run-time variable.",
 "C18": "Also: reducer pools around zeros / NaN / infinities, context-sensitive case mapping, a partial model of parse_float, documented rendering of cells and of plain nested strings.",
 "C19": "Also: 18 binding constructs between two uses of an object, std objects reached from two threads, a function called by the host with itself, prefix tuples and far slice bounds among the provenance paths, operands typed by different overlapping unions.",
 "C20": "Also: decimal literals with leading zeros, literals nested in tuples and arrays (program and value literal), texts holding MIN_INT used as programs. Round 12: values of 100-3000 leaves, strings up to 60 000 scalars.",
}
# session 4 (round 13 and the work around it), appended after EXTRA
EXTRA13 = {
 "C03": "Round 13: cyclic imports (self, 2- and 3-cycles, several spellings of the path, next to diamonds) in a child process whose death is the verdict; files that use names of their importer under importers that declare them differently or not at all.",
 "C04": "Round 13: 480 constant-exit loop twins (a jump inside a match arm / if-set / if / block of a loop whose exit is decided by a constant, inside another loop).",
 "C05": "Round 13: histories of programs that fail many calls deep (every run-time error, inside helpers, loops, cell updates, modules) interleaved with programs that succeed along the same paths, 12 rounds per thread.",
 "C06": "Round 13: 52 identifiers that begin with a word of the language (or are underscores) in 15 syntactic forms with documented values, and in the generator's name pools.",
 "C09": "Round 13: the slice indexed and sliced again inside the same expression; bounds computed by slicing and measuring another sequence.",
 "C10": "Round 13: type values with a history (asked every public question, then widened with | and |=, compared with the union built in one go up to equivalence); products of sums against sums of products over every pair of six component types; partial-overlap compound types in the membership forms.",
 "C11": "Round 13: identifiers that begin with a type name or keyword as predicate, mapper, source and reducer of the iterator operators.",
 "C12": "Round 13: 344 jump-round programs (8 loop shapes x 1-4 rounds x every set of rounds in which continue / break is taken); 1 805 run-time type tests over partly overlapping compound types.",
 "C14": "Round 13: split readings forbidden (`**` / `**=` in front of a cell never has the value of the product).",
 "C15": "Round 13: unions printed, then widened with | or |=, then printed again.",
 "C16": "Round 13: cells that contain themselves rendered while others assign to them (deadlock watch), expressions that read one cell several times racing with assignments, executions that stay ~100 calls deep at the same time.",
 "C17": "Round 13: one generated session in six and every enumerated session also through the REPL executable (src/main.rs), answer by answer against the embedding route; the binder-value sessions again with `_` as the name, destructuring from constant, computed and bound tuples.",
 "C18": "Round 13: the print functions in child processes whose stdout refuses writes (full device, pipe without a reader, read-only descriptor).",
 "C19": "Round 13: the candidate among four to six arms led by scalar literals, the same match called repeatedly.",
 "C20": "Round 13: values generated to depth 9, towers to depth 16 over every kind of leaf; a string spelled like the rendering of its neighbour; a probe keeps the recorded finding about typed empty arrays visible.",
}
EXTRA14 = {
 "C01": "Round 14: 210 sequences of programs importing one set of files that use names of their importer (other types, cells, parameters, nested imports); cells made without a declared type from union- and any-typed values and then tested as cells.",
 "C02": "Round 14: the same import sequences and undeclared-cell programs under the panic guard.",
 "C03": "Round 14: one fresh process per text for 13 operators with lazily built helpers inside 30-140 levels of harmless nesting.",
 "C04": "Round 14: partial constants across levels (+ - * with a constant inside a comparison / & / >> with a constant, boundary ints, 54k twins).",
 "C05": "Round 14: histories of imports that fail followed by imports of the same files that succeed; the orbit / bits / append workloads of C16 as an atomicity probe.",
 "C06": "Round 14: nested-capture probes (a literal whose captures occur only in a literal nested in it, evaluated several times); sessions through the REPL executable (a failing statement after a redeclaration on one line).",
 "C07": "Round 14: nested-capture probes with effect logs.",
 "C08": "Round 14: a fourth route - the operands are variables of the embedding interpreter, the same program text for every pair.",
 "C09": "Round 14: sequences of 63-1000 elements; one slicing operation executed repeatedly with changing bounds.",
 "C11": "Round 14: the reducers are the documented folds where the running result leaves the int range and where every float step rounds.",
 "C12": "Round 14: selection by == among many literal arms with signed zeros and NaN; conditions comparing a variable with itself.",
 "C13": "Round 14: nested-capture probes over cells.",
 "C14": "Round 14: the unparenthesised text compared with every grouping inside one expression; chains of 33-70 operands with the left-to-right value computed by the harness.",
 "C15": "Round 14: 50 types computed by the checker (literals over union-typed elements, concatenations with [], joins of branches) printed, read back, compared.",
 "C16": "Round 14: threads writing, reading back, copying, renaming, removing files of their own in one directory.",
 "C17": "Round 14: no name that no input declares is bound on one route only; sessions repeating one input, sessions with a failing statement after a redeclaration, console-like variable names.",
 "C18": "Round 14: the harness's reference model gives no answer for arguments outside its domain (the call is still made and judged).",
 "C19": "Round 14: compounds holding a cell compared again after the cell was assigned; closures made by executing one named declaration several times.",
 "C20": "Round 14: the type of what was read back is == to the original's in the implementation's own eyes; long renderings whose strings contain the separators of the rendering.",
}
EXTRA15 = {
 "C02": "Round 15: callees known only as unions of function types over structs of different widths, tuples, arrays, cells, functions; programs that print while stdout refuses writes.",
 "C04": "Round 15: the twins compared on the third execution of one parsed program; comparisons under `!` among the partial constants (NaN, infinities, boundary ints).",
 "C05": "Round 15: struct types over the same field names with different field types (meets, joins, derived queries on fresh threads).",
 "C07": "Round 15: effectful operands of `==` / `!=` between values of different kinds, repeated field names, discarded operations, with documented effect logs.",
 "C12": "Round 15: match coverage after ten binding constructs that re-use the scrutinee's name at another type.",
 "C14": "Round 15: comments between tokens that would otherwise form a longer operator.",
 "C16": "Round 15: compound values in a shared cell taken apart by readers while others assign whole values.",
 "C17": "Round 15: arrays with a wider label produced by one input and sliced by a later one, the slice's kind tested.",
}
for _k, _v in EXTRA15.items():
    EXTRA14[_k] = (EXTRA14.get(_k, "") + " " + _v).strip()
for _k, _v in EXTRA14.items():
    EXTRA13[_k] = (EXTRA13.get(_k, "") + " " + _v).strip()
for _k, _v in EXTRA13.items():
    EXTRA[_k] = (EXTRA.get(_k, "") + " " + _v).strip()
PENDING = {}
props = [json.loads(l) for l in open(os.path.join(ROOT, "properties.jsonl"))]
checks, na = [], []
for p in props:
    pid = p["id"]
    if pid in CHECKS:
        tech, text, note, ref = CHECKS[pid]
        if pid in EXTRA:
            text = text + " " + EXTRA[pid]
        checks.append({
            "property_id": pid,
            "quick_cmd": f"./check {pid} quick",
            "thorough_cmd": f"./check {pid} thorough",
            "evidence_file": f"/verif/evidence/{pid}.json",
            "replay_cmd_template": f"./check {pid} replay {{path}}",
            "engine": "vharness",
            "level_claimed": {"category": "exploration", "text": text, "design_ref": ref},
            "level_note": note,
            "technique": tech,
        })
    else:
        na.append({"property_id": pid, "reason": PENDING.get(pid, "check not built yet in this round (planned in DESIGN.md section 3); not claimed until it exists")})
manifest = {
    "version": 1,
    "setup_cmd": "./setup.sh",
    "hooks": {
        "guard": "cargo feature `verif` of the simplesl crate (off by default)",
        "enable": "the harness crate depends on simplesl = { path = \"/repo\", features = [\"verif\"] }, so every ./check run rebuilds /repo's working tree with the hooks on",
        "baseline_off_cmd": "cd /repo && cargo test --workspace --no-fail-fast --offline",
        "source_commits": hook_commits(),
        "add_only": True,
    },
    "engines": [
        {"name": "vharness", "path": "/verif/harness", "serves_properties": [c["property_id"] for c in checks],
         "kind_free_text": "Rust binary `vcheck`: tape-driven generators decoded from proptest-generated u32 vectors (fixed seed from VERIF_SEED, sharded over 16 threads, shrinking on the tape), complete enumeration of small scopes, explicit oracles (reference models, round trips, differential routes), replay files that bypass the generator"},
        {"name": "libfuzzer", "path": "/verif/fuzz", "serves_properties": [c["property_id"] for c in checks if c["property_id"] not in ("C05", "C14", "C16")],
         "kind_free_text": "cargo-fuzz / libFuzzer targets (thorough tier only, after the proptest/enumeration run): `tape_prop` feeds libFuzzer's bytes into the same tape decoder, generator and oracle as the vharness check of the property named by VERIF_FUZZ_PROP (coverage-guided search over the generator's choices); `text_parse` feeds raw text (token dictionary, documentation corpus as seeds) to the C03 totality oracle. Fresh corpus per run, -seed from VERIF_SEED, wall-clock bounded (VERIF_FUZZ_SECS, default 240 s, 8 jobs); a failing input is written as a replay file for `./check <id> replay`. Not used for C05, C14 and C16 (repetition / enumeration / schedule sampling, no generator for the fuzzer to steer)."},
    ],
    "checks": checks,
    "not_applicable": na,
    "notes": "All checks: exit 0 held / 1 VIOLATION line / 2 inconclusive (build failure, watchdog, harness error). KNOWN_FINDINGS.txt lists recorded findings (printed as KNOWN-FINDING) and fixed defects (suppress nothing).",
}
json.dump(manifest, open(os.path.join(ROOT, "MANIFEST.json"), "w"), indent=1)
print("checks:", [c["property_id"] for c in checks], "not_applicable:", len(na))
