#!/bin/bash
# tools/seeded.sh validate <id>        confirm a seeded change in a scratch worktree of /repo HEAD
# tools/seeded.sh detect <id> [Cxx..]  apply it to /repo, run the quick checks (default: its own property), undo it
set -u
ROOT="$(cd "$(dirname "$0")/.." && pwd)"
MODE="$1"; ID="$2"; shift 2
DIR="$ROOT/seeded/$ID"
export CARGO_NET_OFFLINE=true RUST_BACKTRACE=0
case "$MODE" in
validate)
  T="${SEEDCHECK_TAG:-}"; WT=/tmp/seedcheck-wt$T; TGT=/tmp/seedcheck-target$T
  git -C /repo worktree remove --force "$WT" 2>/dev/null; rm -rf "$WT"
  git -C /repo worktree add -q --detach "$WT" HEAD || exit 2
  cd "$WT"
  DEMO=""
  if [ -f "$DIR/demo.rs" ]; then cp "$DIR/demo.rs" tests/seeded_demo.rs; DEMO=rs; fi
  run_demo() { CARGO_TARGET_DIR=$TGT cargo test --offline --test seeded_demo >/tmp/seedcheck-demo$T.log 2>&1; }
  if [ "$DEMO" = rs ]; then
    run_demo; BASE=$?
  else BASE=skip; fi
  if ! git apply --whitespace=nowarn "$DIR/patch.diff" 2>/tmp/seedcheck-apply$T.log; then
    if ! git apply --3way --whitespace=nowarn "$DIR/patch.diff" 2>>/tmp/seedcheck-apply$T.log; then
      echo "$ID: PATCH DOES NOT APPLY to current HEAD"; cat /tmp/seedcheck-apply$T.log | head -5
      cd /; git -C /repo worktree remove --force "$WT"; exit 3
    fi
  fi
  mv tests/seeded_demo.rs /tmp/seeded_demo$T.rs.keep 2>/dev/null
  CARGO_TARGET_DIR=$TGT cargo test --workspace --no-fail-fast --offline >/tmp/seedcheck-suite$T.log 2>&1; SUITE=$?
  PASSED=$(grep -E "^test result" /tmp/seedcheck-suite$T.log | awk '{s+=$4} END {print s}')
  mv /tmp/seeded_demo$T.rs.keep tests/seeded_demo.rs 2>/dev/null
  if [ "$DEMO" = rs ]; then run_demo; WITH=$?; else WITH=skip; fi
  echo "$ID: demo_on_head=$BASE (0 expected) suite_with_change=$SUITE passed=$PASSED (0/52 expected) demo_with_change=$WITH (non-zero expected)"
  cd /; git -C /repo worktree remove --force "$WT"
  ;;
detect)
  PROPS="$*"
  [ -z "$PROPS" ] && PROPS="$(python3 -c "import json;print(json.load(open('$DIR/meta.json'))['property'])")"
  if [ -n "$(git -C /repo status --porcelain)" ]; then echo "/repo is not clean"; exit 2; fi
  if ! git -C /repo apply --whitespace=nowarn "$DIR/patch.diff" 2>/dev/null; then
    git -C /repo apply --3way --whitespace=nowarn "$DIR/patch.diff" 2>/dev/null || { echo "$ID: patch does not apply"; git -C /repo checkout -- . ; exit 3; }
    git -C /repo reset -q
  fi
  for P in $PROPS; do
    OUT="$("$ROOT/check" "$P" quick 2>&1)"; RC=$?
    echo "$ID vs $P: exit=$RC $(echo "$OUT" | grep -E '^sig:' | head -1) $(echo "$OUT" | grep -E '^(VIOLATION|INCONCLUSIVE)' | head -1)"
  done
  git -C /repo checkout -- . ; git -C /repo clean -fdq -e target
  ;;
esac
