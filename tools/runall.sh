#!/bin/bash
# runs every registered quick (or $1) check on the current tree and prints one line each
cd "$(dirname "$0")/.."
TIER="${1:-quick}"
for p in $(python3 -c "import json;print(' '.join(c['property_id'] for c in json.load(open('MANIFEST.json'))['checks']))"); do
  S=$(date +%s)
  OUT="$(./check $p $TIER 2>&1)"; RC=$?
  echo "$p rc=$RC $(( $(date +%s) - S ))s $(echo "$OUT" | grep -E '^(OK|VIOLATION|INCONCLUSIVE)' | tail -1) known=$(echo "$OUT" | grep -c '^KNOWN-FINDING')"
done
