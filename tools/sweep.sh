#!/bin/bash
# tools/sweep.sh [ids...]  — runs every seeded change (default: all) against the quick check of
# its own property (or VERIF_SWEEP_PROPS) in a scratch copy: /tmp/sweep/repo is a worktree of
# /repo HEAD, /tmp/sweep/harness a copy of the harness pointed at it. /repo itself is not touched,
# so this can run while other work goes on. Results: /tmp/sweep/results.txt
set -u
ROOT="$(cd "$(dirname "$0")/.." && pwd)"
S=${SWEEP_DIR:-/tmp/sweep}
export CARGO_NET_OFFLINE=true RUST_BACKTRACE=0
mkdir -p $S/out
git -C /repo worktree remove --force $S/repo 2>/dev/null; rm -rf $S/repo
git -C /repo worktree add -q --detach $S/repo HEAD || exit 2
rsync -a --delete --exclude target "$ROOT/harness/" $S/harness/
sed -i "s#path = \"/repo\"#path = \"$S/repo\"#; s#path = \"/repo/parser\"#path = \"$S/repo/parser\"#" $S/harness/Cargo.toml
cp "$ROOT/KNOWN_FINDINGS.txt" $S/out/
rsync -a "$ROOT/regress" $S/out/
SEEDED="${SEEDED_DIR:-$ROOT/seeded}"
IDS="$*"; [ -z "$IDS" ] && IDS="$(ls "$SEEDED")"
: > $S/results.txt
for ID in $IDS; do
  DIR="$SEEDED/$ID"
  PROPS="${VERIF_SWEEP_PROPS:-$(python3 -c "import json;print(json.load(open('$DIR/meta.json'))['property'])")}"
  # (a three-way apply that ends in conflicts leaves unmerged paths: only a hard reset gets rid of them)
  git -C $S/repo reset -q --hard HEAD; git -C $S/repo clean -fdq
  if ! git -C $S/repo apply --whitespace=nowarn "$DIR/patch.diff" 2>/dev/null; then
    if ! git -C $S/repo apply --3way --whitespace=nowarn "$DIR/patch.diff" 2>/dev/null; then
      git -C $S/repo reset -q --hard HEAD
      echo "$ID: PATCH-DOES-NOT-APPLY" | tee -a $S/results.txt; continue
    fi
  fi
  if ! ( cd $S/harness && cargo build --profile vcheck --offline >$S/build.log 2>&1 ); then
    echo "$ID: BUILD-FAILED" | tee -a $S/results.txt; continue
  fi
  BIN=""
  case " $PROPS " in *" C20 "*|*" C17 "*|*" C06 "*)
    ( cd $S/repo && cargo build --offline --bin simplesl --target-dir $S/repo-bin >>$S/build.log 2>&1 ) && BIN=$S/repo-bin/debug/simplesl ;;
  esac
  for P in $PROPS; do
    OUT="$(VERIF_SIMPLESL_BIN=$BIN VERIF_REPO=$S/repo VERIF_ROOT=$S/out VERIF_SEED=${VERIF_SEED:-20260924} $S/harness/target/vcheck/vcheck $P quick 2>&1)"; RC=$?
    echo "$ID vs $P: exit=$RC $(echo "$OUT" | grep -E '^sig:' | head -1)" | tee -a $S/results.txt
  done
done
git -C $S/repo checkout -q -- . 
git -C /repo worktree remove --force $S/repo
