#!/bin/bash
# validates every seeded change (or the given ids) in a scratch worktree; appends to /tmp/validate.txt
cd "$(dirname "$0")/.."
IDS="$*"; [ -z "$IDS" ] && IDS="$(ls seeded | grep -v RESULTS)"
for id in $IDS; do tools/seeded.sh validate $id 2>&1 | tail -1; done | tee -a /tmp/validate.txt
