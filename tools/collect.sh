#!/bin/bash
# tools/collect.sh <dir>  — copies finished seeded changes <dir>/Cxx/out/Cxx_k into /verif/seeded (new ones only)
ROOT="$(cd "$(dirname "$0")/.." && pwd)"
for d in "$1"/C*/out/C*_*/; do
  id=$(basename "$d")
  [ -f "$d/patch.diff" ] && [ -f "$d/meta.json" ] || continue
  [ -d "$ROOT/seeded/$id" ] && continue
  mkdir -p "$ROOT/seeded/$id"; cp "$d"/patch.diff "$d"/meta.json "$ROOT/seeded/$id/"; cp "$d"/demo.* "$ROOT/seeded/$id/" 2>/dev/null
  echo "collected $id"
done
