#!/bin/bash
# offline build of the harness (and of /repo with the verif feature) from files on disk only
set -e
cd "$(dirname "$0")"
export CARGO_NET_OFFLINE=true
mkdir -p evidence replays
cd harness && cargo build --profile vcheck --offline
