//! The harness's own representation of SimpleSL types, its own subtype relation and its own
//! membership test. Nothing here calls `Type::matches` or `Type::eq`.
use simplesl::variable::{Type, Typed, Variable};
use std::collections::BTreeMap;

#[derive(Clone, Debug, PartialEq, Eq, PartialOrd, Ord, Hash)]
pub enum Ty {
    Bool,
    Int,
    Float,
    Str,
    Void,
    Any,
    Never,
    Arr(Box<Ty>),
    Tup(Vec<Ty>),
    Fun(Vec<Ty>, Box<Ty>),
    Mut(Box<Ty>),
    Struct(BTreeMap<String, Ty>),
    /// normalised: flat, sorted, deduplicated, >= 2 members, no Any/Never members
    Union(Vec<Ty>),
}

impl Ty {
    pub fn arr(t: Ty) -> Ty {
        Ty::Arr(Box::new(t))
    }
    pub fn cell(t: Ty) -> Ty {
        Ty::Mut(Box::new(t))
    }
    pub fn fun(params: Vec<Ty>, ret: Ty) -> Ty {
        Ty::Fun(params, Box::new(ret))
    }
    pub fn iter_of(t: Ty) -> Ty {
        Ty::fun(vec![], Ty::Tup(vec![Ty::Bool, t]))
    }
    pub fn strukt(fields: &[(&str, Ty)]) -> Ty {
        Ty::Struct(fields.iter().map(|(k, v)| (k.to_string(), v.clone())).collect())
    }

    /// union constructor mirroring the documented behaviour of `|` on types
    /// (`!` is the unit, `any` absorbs, duplicates collapse)
    pub fn union(members: impl IntoIterator<Item = Ty>) -> Ty {
        let mut flat = vec![];
        for m in members {
            match m {
                Ty::Union(ms) => flat.extend(ms),
                Ty::Never => {}
                other => flat.push(other),
            }
        }
        if flat.iter().any(|t| *t == Ty::Any) {
            return Ty::Any;
        }
        flat.sort();
        flat.dedup();
        match flat.len() {
            0 => Ty::Never,
            1 => flat.pop().unwrap(),
            _ => Ty::Union(flat),
        }
    }

    pub fn or(self, other: Ty) -> Ty {
        Ty::union([self, other])
    }

    pub fn members(&self) -> Vec<&Ty> {
        match self {
            Ty::Union(ms) => ms.iter().collect(),
            other => vec![other],
        }
    }

    pub fn is_union(&self) -> bool {
        matches!(self, Ty::Union(_))
    }

    /// converts the implementation's type (structure only, no relation is consulted)
    pub fn from_real(t: &Type) -> Ty {
        match t {
            Type::Bool => Ty::Bool,
            Type::Int => Ty::Int,
            Type::Float => Ty::Float,
            Type::String => Ty::Str,
            Type::Void => Ty::Void,
            Type::Any => Ty::Any,
            Type::Never => Ty::Never,
            Type::Array(e) => Ty::arr(Ty::from_real(e)),
            Type::Tuple(ts) => Ty::Tup(ts.iter().map(Ty::from_real).collect()),
            Type::Function(f) => Ty::fun(
                f.params.iter().map(Ty::from_real).collect(),
                Ty::from_real(&f.return_type),
            ),
            Type::Mut(e) => Ty::cell(Ty::from_real(e)),
            Type::Struct(s) => Ty::Struct(
                s.0.iter()
                    .map(|(k, v)| (k.to_string(), Ty::from_real(v)))
                    .collect(),
            ),
            Type::Multi(m) => {
                // keep the structure as it is (a union of the converted members);
                // normalisation is the same flattening the documentation describes
                Ty::union(m.iter().map(Ty::from_real))
            }
        }
    }

    /// SimpleSL type syntax (unions parenthesised where the grammar needs it)
    pub fn print(&self) -> String {
        match self {
            Ty::Bool => "bool".into(),
            Ty::Int => "int".into(),
            Ty::Float => "float".into(),
            Ty::Str => "string".into(),
            Ty::Void => "()".into(),
            Ty::Any => "any".into(),
            Ty::Never => "!".into(),
            Ty::Arr(e) => {
                if **e == Ty::Never {
                    "[]".into()
                } else {
                    format!("[{}]", e.print())
                }
            }
            Ty::Tup(ts) => format!("({})", ts.iter().map(Ty::print).collect::<Vec<_>>().join(", ")),
            Ty::Fun(ps, r) => format!(
                "({})->{}",
                ps.iter().map(Ty::print).collect::<Vec<_>>().join(", "),
                r.print_paren()
            ),
            Ty::Mut(e) => format!("mut {}", e.print_paren()),
            Ty::Struct(fs) => format!(
                "struct{{{}}}",
                fs.iter()
                    .map(|(k, v)| format!("{k}: {}", v.print()))
                    .collect::<Vec<_>>()
                    .join(", ")
            ),
            Ty::Union(ms) => ms.iter().map(Ty::print).collect::<Vec<_>>().join("|"),
        }
    }

    /// like print, but a union is wrapped in parentheses (function results, mut contents)
    pub fn print_paren(&self) -> String {
        if self.is_union() {
            format!("({})", self.print())
        } else {
            self.print()
        }
    }

    /// the implementation's type built through its public constructors (no text involved)
    pub fn construct(&self) -> Type {
        use std::sync::Arc;
        match self {
            Ty::Bool => Type::Bool,
            Ty::Int => Type::Int,
            Ty::Float => Type::Float,
            Ty::Str => Type::String,
            Ty::Void => Type::Void,
            Ty::Any => Type::Any,
            Ty::Never => Type::Never,
            Ty::Arr(e) => Type::Array(Arc::new(e.construct())),
            Ty::Tup(ts) => Type::Tuple(ts.iter().map(Ty::construct).collect()),
            Ty::Fun(ps, r) => simplesl::variable::FunctionType { params: ps.iter().map(Ty::construct).collect(), return_type: r.construct() }.into(),
            Ty::Mut(e) => Type::Mut(Arc::new(e.construct())),
            Ty::Struct(fs) => Type::Struct(simplesl::variable::StructType::from(
                fs.iter().map(|(k, v)| (Arc::<str>::from(k.as_str()), v.construct())).collect::<std::collections::HashMap<_, _>>(),
            )),
            Ty::Union(ms) => ms.iter().map(Ty::construct).reduce(|a, b| a | b).expect("a union has members"),
        }
    }

    /// reads the text `print` produces (the harness's own reader, independent of the implementation's)
    pub fn parse(text: &str) -> Option<Ty> {
        struct P<'a> {
            s: &'a [u8],
            i: usize,
        }
        impl P<'_> {
            fn ws(&mut self) {
                while self.i < self.s.len() && self.s[self.i] == b' ' {
                    self.i += 1;
                }
            }
            fn eat(&mut self, t: &str) -> bool {
                self.ws();
                if self.s[self.i..].starts_with(t.as_bytes()) {
                    self.i += t.len();
                    true
                } else {
                    false
                }
            }
            fn word(&mut self) -> String {
                self.ws();
                let st = self.i;
                while self.i < self.s.len() && (self.s[self.i].is_ascii_alphanumeric() || self.s[self.i] == b'_') {
                    self.i += 1;
                }
                String::from_utf8_lossy(&self.s[st..self.i]).to_string()
            }
            fn union(&mut self) -> Option<Ty> {
                let mut ms = vec![self.single()?];
                while self.eat("|") {
                    ms.push(self.single()?);
                }
                Some(if ms.len() == 1 { ms.pop().unwrap() } else { Ty::union(ms) })
            }
            fn single(&mut self) -> Option<Ty> {
                self.ws();
                if self.eat("!") {
                    return Some(Ty::Never);
                }
                if self.eat("[") {
                    if self.eat("]") {
                        return Some(Ty::arr(Ty::Never));
                    }
                    let e = self.union()?;
                    return self.eat("]").then(|| Ty::arr(e));
                }
                if self.eat("(") {
                    // (), a tuple, a parenthesised union, or the parameter list of a function
                    let mut items = vec![];
                    if !self.eat(")") {
                        loop {
                            items.push(self.union()?);
                            if self.eat(",") {
                                continue;
                            }
                            if !self.eat(")") {
                                return None;
                            }
                            break;
                        }
                    }
                    if self.eat("->") {
                        let r = self.result()?;
                        return Some(Ty::fun(items, r));
                    }
                    return Some(match items.len() {
                        0 => Ty::Void,
                        1 => items.pop().unwrap(),
                        _ => Ty::Tup(items),
                    });
                }
                let save = self.i;
                let w = self.word();
                match w.as_str() {
                    "int" => Some(Ty::Int),
                    "float" => Some(Ty::Float),
                    "string" => Some(Ty::Str),
                    "bool" => Some(Ty::Bool),
                    "any" => Some(Ty::Any),
                    "mut" => Some(Ty::cell(self.result()?)),
                    "struct" => {
                        if !self.eat("{") {
                            return None;
                        }
                        let mut fs = BTreeMap::new();
                        if !self.eat("}") {
                            loop {
                                let k = self.word();
                                if k.is_empty() || !self.eat(":") {
                                    return None;
                                }
                                fs.insert(k, self.union()?);
                                if self.eat(",") {
                                    continue;
                                }
                                if !self.eat("}") {
                                    return None;
                                }
                                break;
                            }
                        }
                        Some(Ty::Struct(fs))
                    }
                    _ => {
                        self.i = save;
                        None
                    }
                }
            }
            /// a function result / cell content: one type, a union only in parentheses
            fn result(&mut self) -> Option<Ty> {
                self.single()
            }
        }
        let mut p = P { s: text.as_bytes(), i: 0 };
        let t = p.union()?;
        p.ws();
        (p.i == p.s.len()).then_some(t)
    }

    pub fn to_real(&self) -> Type {
        use std::str::FromStr;
        Type::from_str(&self.print()).expect("harness type prints to valid syntax")
    }

    pub fn depth(&self) -> usize {
        match self {
            Ty::Arr(e) | Ty::Mut(e) => 1 + e.depth(),
            Ty::Tup(ts) | Ty::Union(ts) => 1 + ts.iter().map(Ty::depth).max().unwrap_or(0),
            Ty::Fun(ps, r) => 1 + ps.iter().map(Ty::depth).max().unwrap_or(0).max(r.depth()),
            Ty::Struct(fs) => 1 + fs.values().map(Ty::depth).max().unwrap_or(0),
            _ => 0,
        }
    }

    /// does the type mention a union / array / function / mut / struct anywhere
    pub fn is_compound(&self) -> bool {
        !matches!(
            self,
            Ty::Bool | Ty::Int | Ty::Float | Ty::Str | Ty::Void | Ty::Any | Ty::Never
        )
    }

    pub fn shape(&self) -> &'static str {
        match self {
            Ty::Bool | Ty::Int | Ty::Float | Ty::Str | Ty::Void => "scalar",
            Ty::Any => "any",
            Ty::Never => "never",
            Ty::Arr(e) if e.is_union() => "array-of-union",
            Ty::Arr(_) => "array",
            Ty::Tup(_) => "tuple",
            Ty::Fun(..) => "function",
            Ty::Mut(_) => "mut",
            Ty::Struct(_) => "struct",
            Ty::Union(ms) => {
                if ms.iter().all(|m| !m.is_compound()) {
                    "union-of-scalars"
                } else {
                    "union-of-compound"
                }
            }
        }
    }
}

thread_local! {
    /// when set, `()` is admitted where `!` is required: used only to recognise the known
    /// finding "the filler of an exhausted iterator over an empty-typed array is ()"
    static VOID_FOR_NEVER: std::cell::Cell<bool> = const { std::cell::Cell::new(false) };
}

/// runs `f` with `()` admitted as a value of `!`
pub fn relaxed<T>(f: impl FnOnce() -> T) -> T {
    VOID_FOR_NEVER.with(|v| v.set(true));
    let r = f();
    VOID_FOR_NEVER.with(|v| v.set(false));
    r
}

fn relax() -> bool {
    VOID_FOR_NEVER.with(|v| v.get())
}

/// The intended subtype relation (documentation + property C10), written independently.
pub fn sub(a: &Ty, b: &Ty) -> bool {
    match (a, b) {
        (Ty::Never, _) => true,
        (Ty::Void, Ty::Never) if relax() => true,
        (Ty::Union(ms), _) => ms.iter().all(|m| sub(m, b)),
        (_, Ty::Any) => true,
        (_, Ty::Union(ms)) => ms.iter().any(|m| sub(a, m)),
        (Ty::Arr(x), Ty::Arr(y)) => sub(x, y),
        (Ty::Tup(xs), Ty::Tup(ys)) => xs.len() == ys.len() && xs.iter().zip(ys).all(|(x, y)| sub(x, y)),
        (Ty::Fun(ps, r), Ty::Fun(qs, s)) => {
            ps.len() == qs.len() && ps.iter().zip(qs).all(|(p, q)| sub(q, p)) && sub(r, s)
        }
        (Ty::Mut(x), Ty::Mut(y)) => equiv(x, y),
        (Ty::Struct(xs), Ty::Struct(ys)) => ys
            .iter()
            .all(|(k, y)| xs.get(k).is_some_and(|x| sub(x, y))),
        (x, y) => x == y,
    }
}

pub fn equiv(a: &Ty, b: &Ty) -> bool {
    sub(a, b) && sub(b, a)
}

/// Why a value does not belong to a type (None = it does).
pub fn not_inhabits(v: &Variable, t: &Ty, depth: usize) -> Option<String> {
    if depth > 40 {
        return None; // cyclic cell graphs: stop descending
    }
    let no = |what: &str| Some(format!("{} is not a {} ({what})", show(v), t.print()));
    match t {
        Ty::Any => None,
        Ty::Never if relax() && matches!(v, Variable::Void) => None,
        Ty::Never => no("no value belongs to !"),
        Ty::Union(ms) => {
            if ms.iter().any(|m| not_inhabits(v, m, depth + 1).is_none()) {
                None
            } else {
                no("no member admits it")
            }
        }
        Ty::Bool => matches!(v, Variable::Bool(_)).then_some(()).map_or_else(|| no("kind"), |_| None),
        Ty::Int => matches!(v, Variable::Int(_)).then_some(()).map_or_else(|| no("kind"), |_| None),
        Ty::Float => matches!(v, Variable::Float(_)).then_some(()).map_or_else(|| no("kind"), |_| None),
        Ty::Str => matches!(v, Variable::String(_)).then_some(()).map_or_else(|| no("kind"), |_| None),
        Ty::Void => matches!(v, Variable::Void).then_some(()).map_or_else(|| no("kind"), |_| None),
        Ty::Arr(e) => match v {
            Variable::Array(a) => {
                for (i, x) in a.iter().enumerate() {
                    if let Some(why) = not_inhabits(x, e, depth + 1) {
                        return Some(format!("element {i}: {why}"));
                    }
                }
                None
            }
            _ => no("kind"),
        },
        Ty::Tup(ts) => match v {
            Variable::Tuple(xs) if xs.len() == ts.len() => {
                for (i, (x, t)) in xs.iter().zip(ts).enumerate() {
                    if let Some(why) = not_inhabits(x, t, depth + 1) {
                        return Some(format!("component {i}: {why}"));
                    }
                }
                None
            }
            _ => no("kind/length"),
        },
        Ty::Struct(fs) => match v {
            Variable::Struct(m) => {
                for (k, t) in fs {
                    match m.get(k.as_str()) {
                        None => return Some(format!("field {k} missing in {}", show(v))),
                        Some(x) => {
                            if let Some(why) = not_inhabits(x, t, depth + 1) {
                                return Some(format!("field {k}: {why}"));
                            }
                        }
                    }
                }
                None
            }
            _ => no("kind"),
        },
        Ty::Mut(e) => match v {
            Variable::Mut(m) => {
                let declared = Ty::from_real(&m.var_type);
                if !equiv(&declared, e) {
                    return Some(format!(
                        "cell declared mut {} where mut {} is required",
                        declared.print(),
                        e.print()
                    ));
                }
                let Ok(content) = m.variable.read() else {
                    return Some("poisoned cell".into());
                };
                not_inhabits(&content, &declared, depth + 1).map(|why| format!("cell content: {why}"))
            }
            _ => no("kind"),
        },
        Ty::Fun(..) => match v {
            Variable::Function(f) => {
                let declared = Ty::from_real(&f.as_type());
                if sub(&declared, t) {
                    None
                } else {
                    Some(format!("function of type {} is not a {}", declared.print(), t.print()))
                }
            }
            _ => no("kind"),
        },
    }
}

/// Tag check: the value's own run-time type must be a subtype of `t`.
pub fn tag_not_sub(v: &Variable, t: &Ty) -> Option<String> {
    let tag = Ty::from_real(&v.as_type());
    if sub(&tag, t) {
        None
    } else {
        Some(format!("run-time type {} of {} is not a subtype of {}", tag.print(), show(v), t.print()))
    }
}

/// Every reachable cell holds a value of its declared type.
pub fn cells_ok(v: &Variable, depth: usize) -> Option<String> {
    if depth > 40 {
        return None;
    }
    match v {
        Variable::Array(a) => a.iter().find_map(|x| cells_ok(x, depth + 1)),
        Variable::Tuple(xs) => xs.iter().find_map(|x| cells_ok(x, depth + 1)),
        Variable::Struct(m) => m.values().find_map(|x| cells_ok(x, depth + 1)),
        Variable::Mut(m) => {
            let declared = Ty::from_real(&m.var_type);
            let Ok(content) = m.variable.read() else {
                return Some("poisoned cell".into());
            };
            let content = content.clone();
            if let Some(why) = not_inhabits(&content, &declared, depth + 1) {
                return Some(format!("cell mut {}: {why}", declared.print()));
            }
            cells_ok(&content, depth + 1)
        }
        _ => None,
    }
}

/// The type tags a value carries tell the truth: every element of an array belongs to the
/// element type the array is labelled with (run-time type tests and `$+`-style dispatch trust
/// the label), recursively and through cells.
pub fn labels_ok(v: &Variable, depth: usize) -> Option<String> {
    if depth > 40 {
        return None;
    }
    match v {
        Variable::Array(a) => {
            let label = Ty::from_real(a.element_type());
            for x in a.iter() {
                if let Some(why) = not_inhabits(x, &label, depth + 1) {
                    return Some(format!("array labelled [{}] holds {}: {why}", label.print(), show(x)));
                }
                if let Some(why) = labels_ok(x, depth + 1) {
                    return Some(why);
                }
            }
            None
        }
        Variable::Tuple(xs) => xs.iter().find_map(|x| labels_ok(x, depth + 1)),
        Variable::Struct(m) => m.values().find_map(|x| labels_ok(x, depth + 1)),
        Variable::Mut(m) => m.variable.read().ok().and_then(|c| labels_ok(&c, depth + 1)),
        _ => None,
    }
}

pub fn show(v: &Variable) -> String {
    let s = format!("{v:?}");
    if s.len() > 200 {
        format!("{}…", s.chars().take(200).collect::<String>())
    } else {
        s
    }
}
