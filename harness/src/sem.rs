//! Semantic witnesses: `witness_not_sub(A, B)` is true only if some value belongs to A and
//! not to B. It is deliberately incomplete (a false answer decides nothing) but sound, so it
//! can be held against any implementation of the subtype relation, however complete.
use crate::ty::Ty;
use std::collections::BTreeMap;

#[derive(Clone, Debug)]
pub enum AVal {
    Bool(bool),
    Int(i64),
    Float(f64),
    Str(String),
    Void,
    Arr(Vec<AVal>),
    Tup(Vec<AVal>),
    Struct(BTreeMap<String, AVal>),
    /// a function value with this declared type
    Fun(Ty),
    /// a cell declared `mut T` holding a value
    Cell(Ty, Box<AVal>),
}

impl AVal {
    /// program text of an expression producing such a value
    pub fn text(&self) -> String {
        match self {
            AVal::Bool(b) => b.to_string(),
            AVal::Int(i) => i.to_string(),
            AVal::Float(f) => format!("{f:?}"),
            AVal::Str(s) => format!("{s:?}"),
            AVal::Void => "()".into(),
            AVal::Arr(xs) => format!("[{}]", xs.iter().map(AVal::text).collect::<Vec<_>>().join(", ")),
            AVal::Tup(xs) => format!("({})", xs.iter().map(AVal::text).collect::<Vec<_>>().join(", ")),
            AVal::Struct(fs) => format!(
                "struct{{{}}}",
                fs.iter().map(|(k, v)| format!("{k} := {}", v.text())).collect::<Vec<_>>().join(", ")
            ),
            AVal::Fun(t) => format!("<function of type {}>", t.print()),
            AVal::Cell(t, v) => format!("mut {} {}", t.print(), v.text()),
        }
    }
}

const CAP: usize = 6;

/// a few values of the type (empty for uninhabited types), covering every union member
pub fn pool(t: &Ty, depth: usize) -> Vec<AVal> {
    if depth > 6 {
        return vec![];
    }
    match t {
        Ty::Bool => vec![AVal::Bool(true)],
        Ty::Int => vec![AVal::Int(7)],
        Ty::Float => vec![AVal::Float(1.5)],
        Ty::Str => vec![AVal::Str("s".into())],
        Ty::Void => vec![AVal::Void],
        Ty::Never => vec![],
        Ty::Any => vec![
            AVal::Int(7),
            AVal::Str("s".into()),
            AVal::Void,
            AVal::Float(1.5),
            AVal::Bool(true),
            AVal::Arr(vec![]),
            AVal::Arr(vec![AVal::Int(7)]),
            AVal::Tup(vec![AVal::Int(7), AVal::Int(7)]),
            AVal::Struct(BTreeMap::new()),
            AVal::Fun(Ty::fun(vec![], Ty::Void)),
            AVal::Cell(Ty::Int, Box::new(AVal::Int(7))),
        ],
        Ty::Arr(e) => {
            let mut out = vec![AVal::Arr(vec![])];
            for v in pool(e, depth + 1).into_iter().take(CAP) {
                out.push(AVal::Arr(vec![v]));
            }
            out
        }
        Ty::Tup(ts) => {
            let pools: Vec<Vec<AVal>> = ts.iter().map(|t| pool(t, depth + 1)).collect();
            if pools.iter().any(Vec::is_empty) {
                return vec![];
            }
            // vary one component at a time around the first choice
            let base: Vec<AVal> = pools.iter().map(|p| p[0].clone()).collect();
            let mut out = vec![AVal::Tup(base.clone())];
            for (i, p) in pools.iter().enumerate() {
                for v in p.iter().skip(1).take(CAP) {
                    let mut t = base.clone();
                    t[i] = v.clone();
                    out.push(AVal::Tup(t));
                }
            }
            out
        }
        Ty::Struct(fs) => {
            let pools: Vec<(String, Vec<AVal>)> = fs.iter().map(|(k, t)| (k.clone(), pool(t, depth + 1))).collect();
            if pools.iter().any(|(_, p)| p.is_empty()) {
                return vec![];
            }
            let base: BTreeMap<String, AVal> = pools.iter().map(|(k, p)| (k.clone(), p[0].clone())).collect();
            let mut out = vec![AVal::Struct(base.clone())];
            for (k, p) in &pools {
                for v in p.iter().skip(1).take(CAP) {
                    let mut s = base.clone();
                    s.insert(k.clone(), v.clone());
                    out.push(AVal::Struct(s));
                }
            }
            out
        }
        Ty::Fun(..) => vec![AVal::Fun(t.clone())],
        Ty::Mut(e) => pool(e, depth + 1)
            .into_iter()
            .take(1)
            .map(|v| AVal::Cell((**e).clone(), Box::new(v)))
            .collect(),
        Ty::Union(ms) => ms.iter().flat_map(|m| pool(m, depth + 1)).collect(),
    }
}

/// does the value certainly NOT belong to the type (false = belongs or undecided)
pub fn certainly_not_member(v: &AVal, t: &Ty) -> bool {
    match t {
        Ty::Any => false,
        Ty::Never => true,
        Ty::Union(ms) => ms.iter().all(|m| certainly_not_member(v, m)),
        Ty::Bool => !matches!(v, AVal::Bool(_)),
        Ty::Int => !matches!(v, AVal::Int(_)),
        Ty::Float => !matches!(v, AVal::Float(_)),
        Ty::Str => !matches!(v, AVal::Str(_)),
        Ty::Void => !matches!(v, AVal::Void),
        Ty::Arr(e) => match v {
            AVal::Arr(xs) => xs.iter().any(|x| certainly_not_member(x, e)),
            _ => true,
        },
        Ty::Tup(ts) => match v {
            AVal::Tup(xs) if xs.len() == ts.len() => xs.iter().zip(ts).any(|(x, t)| certainly_not_member(x, t)),
            _ => true,
        },
        Ty::Struct(fs) => match v {
            AVal::Struct(m) => fs.iter().any(|(k, t)| match m.get(k) {
                None => true,
                Some(x) => certainly_not_member(x, t),
            }),
            _ => true,
        },
        Ty::Fun(qs, s) => match v {
            AVal::Fun(Ty::Fun(ps, r)) => {
                // a function taking P.. and returning R is not usable as (Q..)->S if some
                // Q-argument is not a P, or some R-result is not an S
                ps.len() != qs.len()
                    || ps.iter().zip(qs).any(|(p, q)| witness_not_sub(q, p))
                    || witness_not_sub(r, s)
            }
            _ => true,
        },
        Ty::Mut(y) => match v {
            // through a `mut Y` view one may store any Y and read expecting a Y
            AVal::Cell(x, _) => witness_not_sub(x, y) || witness_not_sub(y, x),
            _ => true,
        },
    }
}

/// Some value of `a` is certainly not a value of `b`.
pub fn witness_not_sub(a: &Ty, b: &Ty) -> bool {
    find_witness(a, b).is_some()
}

pub fn find_witness(a: &Ty, b: &Ty) -> Option<AVal> {
    pool(a, 0).into_iter().find(|v| certainly_not_member(v, b))
}
