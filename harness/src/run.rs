//! Running the real implementation: panic capture, budgets, canonical outcomes.
use simplesl::{
    Code, Error, ExecError, Interpreter,
    variable::{ReturnType, Type, Variable},
    verif::{self, Abort},
};
use std::cell::RefCell;
use std::sync::Once;

thread_local! {
    static LAST_PANIC: RefCell<Option<(String, String)>> = const { RefCell::new(None) };
}

static HOOK: Once = Once::new();

/// Installs a process-wide panic hook that records (message, location) per thread and prints
/// nothing. Abort payloads of the verif hooks are not recorded as panics.
pub fn install_panic_hook() {
    HOOK.call_once(|| {
        std::panic::set_hook(Box::new(|info| {
            if info.payload().downcast_ref::<Abort>().is_some() {
                return;
            }
            let msg = if let Some(s) = info.payload().downcast_ref::<&str>() {
                s.to_string()
            } else if let Some(s) = info.payload().downcast_ref::<String>() {
                s.clone()
            } else {
                "<non-string panic payload>".to_string()
            };
            let loc = info
                .location()
                .map(|l| format!("{}:{}", l.file(), l.line()))
                .unwrap_or_else(|| "<unknown>".into());
            LAST_PANIC.with(|p| *p.borrow_mut() = Some((msg, loc)));
        }));
    });
}

pub fn take_panic() -> Option<(String, String)> {
    LAST_PANIC.with(|p| p.borrow_mut().take())
}

#[derive(Debug, Clone)]
pub enum Caught {
    Panic { msg: String, loc: String },
    Abort(&'static str),
}

impl Caught {
    /// stable signature: location with the repository prefix stripped
    pub fn sig(&self) -> String {
        match self {
            Caught::Panic { loc, .. } => {
                format!("panic@{}", relative_loc(loc))
            }
            Caught::Abort(why) => format!("abort:{why}"),
        }
    }
}

/// Runs `f`, turning a panic into `Caught`.
pub fn guarded<T>(f: impl FnOnce() -> T) -> Result<T, Caught> {
    let _ = take_panic();
    match std::panic::catch_unwind(std::panic::AssertUnwindSafe(f)) {
        Ok(v) => Ok(v),
        Err(payload) => {
            if let Some(abort) = payload.downcast_ref::<Abort>() {
                return Err(Caught::Abort(match abort {
                    Abort::Fuel => "fuel",
                    Abort::Depth => "depth",
                    Abort::Length => "length",
                }));
            }
            let (msg, loc) = take_panic().unwrap_or_else(|| ("<unknown panic>".into(), "<unknown>".into()));
            Err(Caught::Panic { msg, loc })
        }
    }
}

/// root of the SimpleSL checkout the harness was built against (/repo unless VERIF_REPO says otherwise)
pub fn repo_root() -> String {
    std::env::var("VERIF_REPO").unwrap_or_else(|_| "/repo".to_string())
}

/// a source location relative to the repository root (stable in signatures)
pub fn relative_loc(loc: &str) -> String {
    let root = format!("{}/", repo_root());
    loc.strip_prefix(root.as_str()).or_else(|| loc.strip_prefix("/repo/")).unwrap_or(loc).to_string()
}

pub const FUEL: u64 = 30_000;
pub const DEPTH: u32 = 400;
pub const MAXLEN: usize = 1 << 16;

thread_local! {
    static FUEL_NOW: std::cell::Cell<u64> = const { std::cell::Cell::new(FUEL) };
}

/// the fuel `default_budget` hands out on this thread from now on (generated programs with an effect
/// log get less: the log is copied on every tick, so a runaway program costs fuel squared)
pub fn set_thread_fuel(fuel: u64) {
    FUEL_NOW.with(|f| f.set(fuel));
}

pub fn default_budget() {
    verif::set_budget(FUEL_NOW.with(|f| f.get()), DEPTH, MAXLEN);
}

/// variant name of an `Error` / `ExecError`
pub fn kind_of_debug(d: &str) -> String {
    d.chars().take_while(|c| c.is_alphanumeric() || *c == '_').collect()
}

pub fn error_kind(e: &Error) -> String {
    kind_of_debug(&format!("{e:?}"))
}

pub fn exec_error_kind(e: &ExecError) -> String {
    kind_of_debug(&format!("{e:?}"))
}

pub const EXEC_ERROR_KINDS: [&str; 6] = [
    "IndexOutOfBounds",
    "NegativeLength",
    "NegativeExponent",
    "ZeroDivision",
    "ZeroModulo",
    "OverflowShift",
];

#[derive(Debug, Clone)]
pub enum Outcome {
    /// parse / check / folding rejected the text (error variant name)
    Rejected(String),
    /// one of the six run-time errors
    ExecError(String),
    Value(Variable),
    Panic { phase: &'static str, msg: String, loc: String },
    Aborted(&'static str),
}

impl Outcome {
    pub fn short(&self) -> String {
        match self {
            Outcome::Rejected(k) => format!("Rejected({k})"),
            Outcome::ExecError(k) => format!("ExecError({k})"),
            Outcome::Value(v) => format!("Value({v:?})"),
            Outcome::Panic { phase, msg, loc } => format!("Panic[{phase}]({msg} @ {loc})"),
            Outcome::Aborted(w) => format!("Aborted({w})"),
        }
    }
    pub fn panic_sig(&self) -> Option<String> {
        match self {
            Outcome::Panic { phase, loc, .. } => {
                Some(format!("panic:{phase}@{}", relative_loc(loc)))
            }
            _ => None,
        }
    }
}

pub fn caught_to_outcome(phase: &'static str, c: Caught) -> Outcome {
    match c {
        Caught::Panic { msg, loc } => Outcome::Panic { phase, msg, loc },
        Caught::Abort(w) => Outcome::Aborted(w),
    }
}

pub fn interpreter(stdlib: bool) -> Interpreter<'static> {
    if stdlib {
        Interpreter::with_stdlib()
    } else {
        Interpreter::without_stdlib()
    }
}

/// `Code::parse` under the guard. Ok(Ok(code)) | Ok(Err(kind)) | Err(outcome for panic/abort)
pub fn parse_guarded(interp: &Interpreter, text: &str) -> Result<Result<Code, String>, Outcome> {
    match guarded(|| Code::parse(interp, text)) {
        Ok(Ok(code)) => Ok(Ok(code)),
        Ok(Err(e)) => Ok(Err(error_kind(&e))),
        Err(c) => Err(caught_to_outcome("parse", c)),
    }
}

pub fn exec_guarded(code: &Code) -> Outcome {
    match guarded(|| code.exec()) {
        Ok(Ok(v)) => Outcome::Value(v),
        Ok(Err(e)) => Outcome::ExecError(exec_error_kind(&e)),
        Err(c) => caught_to_outcome("exec", c),
    }
}

pub fn exec_unscoped_guarded(code: &Code, interp: &mut Interpreter) -> Outcome {
    match guarded(|| code.exec_unscoped(interp)) {
        Ok(Ok(v)) => Outcome::Value(v),
        Ok(Err(e)) => Outcome::ExecError(exec_error_kind(&e)),
        Err(c) => caught_to_outcome("exec", c),
    }
}

/// parse + exec of `text` in a fresh interpreter, with the default budget
pub fn run_text(text: &str, stdlib: bool) -> Outcome {
    default_budget();
    let interp = interpreter(stdlib);
    let code = match parse_guarded(&interp, text) {
        Ok(Ok(code)) => code,
        Ok(Err(kind)) => return Outcome::Rejected(kind),
        Err(o) => return o,
    };
    exec_guarded(&code)
}

/// parse only; returns the program's static type on success
pub fn parse_type(text: &str, stdlib: bool) -> Result<Result<(Code, Type), String>, Outcome> {
    default_budget();
    let interp = interpreter(stdlib);
    match parse_guarded(&interp, text)? {
        Ok(code) => match guarded(|| code.return_type()) {
            Ok(t) => Ok(Ok((code, t))),
            Err(c) => Err(caught_to_outcome("return_type", c)),
        },
        Err(k) => Ok(Err(k)),
    }
}
