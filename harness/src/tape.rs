//! Tape-driven generation: every structured input is decoded from a sequence of u32
//! choices. An exhausted tape yields 0 and 0 always selects the simplest alternative,
//! so every prefix / shrunk tape still decodes to a well-formed case.

#[derive(Clone, Debug)]
pub struct Tape {
    data: Vec<u32>,
    pos: usize,
}

impl Tape {
    pub fn new(data: Vec<u32>) -> Self {
        Self { data, pos: 0 }
    }

    pub fn from_bytes(bytes: &[u8]) -> Self {
        // one byte -> one choice spread over the u32 range (coverage-guided fuzzers mutate bytes)
        Self::new(bytes.iter().map(|b| (*b as u32) << 24 | (*b as u32) << 8).collect())
    }

    pub fn raw(&mut self) -> u32 {
        let v = self.data.get(self.pos).copied().unwrap_or(0);
        self.pos += 1;
        v
    }

    pub fn used(&self) -> usize {
        self.pos.min(self.data.len())
    }

    /// index in 0..n, monotone in the raw value (0 -> 0)
    pub fn below(&mut self, n: usize) -> usize {
        if n <= 1 {
            // still consume nothing: deterministic structure
            return 0;
        }
        ((self.raw() as u64 * n as u64) >> 32) as usize
    }

    /// true with probability num/den; raw 0 -> false
    pub fn chance(&mut self, num: u32, den: u32) -> bool {
        let v = self.raw();
        // true for the top num/den of the range
        (v as u64) >= ((den - num) as u64 * (1u64 << 32)) / den as u64 && v != 0
    }

    pub fn bool(&mut self) -> bool {
        self.chance(1, 2)
    }

    /// integer in lo..=hi, monotone (0 -> lo)
    pub fn range(&mut self, lo: i64, hi: i64) -> i64 {
        debug_assert!(lo <= hi);
        let span = (hi - lo) as u64 + 1;
        lo + ((self.raw() as u64 * span) >> 32) as i64
    }

    /// weighted choice; index 0 should be the simplest alternative
    pub fn weighted(&mut self, weights: &[u32]) -> usize {
        let total: u64 = weights.iter().map(|w| *w as u64).sum();
        if total == 0 {
            return 0;
        }
        let x = (self.raw() as u64 * total) >> 32;
        let mut acc = 0u64;
        for (i, w) in weights.iter().enumerate() {
            acc += *w as u64;
            if x < acc {
                return i;
            }
        }
        weights.len() - 1
    }

    pub fn pick<'a, T>(&mut self, items: &'a [T]) -> &'a T {
        &items[self.below(items.len())]
    }

    /// a full 64-bit value from two draws
    pub fn u64(&mut self) -> u64 {
        (self.raw() as u64) << 32 | self.raw() as u64
    }
}

/// splitmix64: used only to derive per-shard seeds from VERIF_SEED (never inside a property)
pub fn mix(mut x: u64) -> u64 {
    x = x.wrapping_add(0x9E3779B97F4A7C15);
    let mut z = x;
    z = (z ^ (z >> 30)).wrapping_mul(0xBF58476D1CE4E5B9);
    z = (z ^ (z >> 27)).wrapping_mul(0x94D049BB133111EB);
    z ^ (z >> 31)
}
