//! C19 — equality is by content, independent of static or stored types.
use crate::{
    engine::{Property, Session, Stats, Tier, Verdict, fail},
    lit,
    run::{self, Outcome},
    tape::Tape,
};
use serde_json::{Value as Json, json};
use simplesl::variable::Variable;

pub struct C19Prop;
pub static C19: C19Prop = C19Prop;

pub const PATHS: [&str; 24] = [
    "literal", "concat-split", "concat-empty-left", "concat-empty-right", "slice", "slice-step", "collect", "partition-left",
    "partition-right", "filter", "type-filter", "map-identity", "repeat", "through-any-function", "through-union-if",
    "array-element", "tuple-component", "struct-field", "cell-content", "closure-result", "reduce-build", "string-ops",
    "for-accumulate", "match-bound",
];

const PRELUDE: &str = "idf := (x: any) -> any { return x; }; yes := (x: any) -> bool { return true; }; \
    no := (x: any) -> bool { return false; }; same := (x: any) -> any { return x; }; \
    hide := (b: bool) -> bool { return b; }; ";

fn is_float(v: &Json) -> Option<f64> {
    v.as_object().and_then(|o| o.get("f")).and_then(|b| b.as_u64()).map(f64::from_bits)
}

fn tuple_items(v: &Json) -> Option<&Vec<Json>> {
    v.as_object().and_then(|o| o.get("t")).and_then(|t| t.as_array())
}

fn struct_fields(v: &Json) -> Option<&serde_json::Map<String, Json>> {
    v.as_object().and_then(|o| o.get("s")).and_then(|t| t.as_object())
}

/// reference equality on the model: by content, IEEE for floats, kinds distinct
pub fn model_eq(a: &Json, b: &Json) -> bool {
    match (a, b) {
        (Json::Null, Json::Null) => true,
        (Json::Bool(x), Json::Bool(y)) => x == y,
        (Json::Number(x), Json::Number(y)) => x.as_i64() == y.as_i64(),
        (Json::String(x), Json::String(y)) => x == y,
        (Json::Array(xs), Json::Array(ys)) => xs.len() == ys.len() && xs.iter().zip(ys).all(|(x, y)| model_eq(x, y)),
        (Json::Object(_), Json::Object(_)) => {
            if let (Some(x), Some(y)) = (is_float(a), is_float(b)) {
                return x == y;
            }
            if let (Some(xs), Some(ys)) = (tuple_items(a), tuple_items(b)) {
                return xs.len() == ys.len() && xs.iter().zip(ys).all(|(x, y)| model_eq(x, y));
            }
            if let (Some(xs), Some(ys)) = (struct_fields(a), struct_fields(b)) {
                return xs.len() == ys.len() && xs.iter().all(|(k, x)| ys.get(k).is_some_and(|y| model_eq(x, y)));
            }
            false
        }
        _ => false,
    }
}

fn contains_nan(v: &Json) -> bool {
    if let Some(f) = is_float(v) {
        return f.is_nan();
    }
    match v {
        Json::Array(xs) => xs.iter().any(contains_nan),
        Json::Object(o) => o.values().any(|x| match x {
            Json::Array(xs) => xs.iter().any(contains_nan),
            Json::Object(fs) => fs.values().any(contains_nan),
            _ => false,
        }),
        _ => false,
    }
}

/// an expression evaluating to `v`, built along provenance path `path` (None = not applicable)
pub fn build(v: &Json, path: &str, salt: usize) -> Option<String> {
    let t = lit::to_text(v);
    let arr = v.as_array();
    Some(match path {
        "literal" => t,
        "concat-split" => {
            let xs = arr?;
            let k = if xs.is_empty() { 0 } else { salt % (xs.len() + 1) };
            format!("({} + {})", lit::to_text(&json!(xs[..k])), lit::to_text(&json!(xs[k..])))
        }
        "concat-empty-left" => {
            arr?;
            format!("([] + {t})")
        }
        "concat-empty-right" => {
            arr?;
            format!("({t} + [])")
        }
        "slice" => {
            if let Some(xs) = arr {
                let mut padded = vec![json!(99), json!("pad")];
                padded.extend(xs.iter().cloned());
                padded.push(json!(98));
                format!("({}[2:-1])", lit::to_text(&json!(padded)))
            } else if let Some(s) = v.as_str() {
                format!("({}[1:-2])", lit::to_text(&json!(format!("<{s}>>"))))
            } else {
                return None;
            }
        }
        "slice-step" => {
            let xs = arr?;
            let mut inter = vec![];
            for x in xs {
                inter.push(x.clone());
                inter.push(json!("skip"));
            }
            format!("({}[::2])", lit::to_text(&json!(inter)))
        }
        "collect" => {
            arr?;
            format!("({t}~ $])")
        }
        "partition-left" => {
            arr?;
            format!("(({t}~ \\ yes).0)")
        }
        "partition-right" => {
            arr?;
            format!("(({t}~ \\ no).1)")
        }
        "filter" => {
            arr?;
            format!("({t}~ ? yes $])")
        }
        "type-filter" => {
            arr?;
            format!("({t}~ ? any $])")
        }
        "map-identity" => {
            arr?;
            format!("({t}~ @ same $])")
        }
        "repeat" => {
            let xs = arr?;
            if xs.is_empty() {
                let filler = [json!(0), json!("s"), json!([1])][salt % 3].clone();
                format!("[{}; 0]", lit::to_text(&filler))
            } else if xs.iter().all(|x| x == &xs[0]) && !contains_nan(&xs[0]) {
                format!("[{}; {}]", lit::to_text(&xs[0]), xs.len())
            } else {
                return None;
            }
        }
        "through-any-function" => format!("idf({t})"),
        "through-union-if" => {
            let other = [json!("other"), json!(0), json!([])][salt % 3].clone();
            format!("(() -> any {{ u := if hide(true) {{ {t} }} else {{ {} }}; return u; }})()", lit::to_text(&other))
        }
        "array-element" => format!("([{t}, \"pad\", 1][0])"),
        "tuple-component" => format!("((1, {t}).1)"),
        "struct-field" => format!("(struct{{p := 1, q := {t}}}.q)"),
        "cell-content" => format!("(*(mut any {t}))"),
        "closure-result" => format!("(() -> any {{ return {t}; }})()"),
        "reduce-build" => {
            let xs = arr?;
            format!("({}~ $ [] (acc: any, x: any) -> any {{ if a: [any] = acc {{ return a + [x]; }} return acc; }})", lit::to_text(&json!(xs)))
        }
        "string-ops" => {
            let s = v.as_str()?;
            match salt % 3 {
                0 => {
                    let k = s.chars().count() / 2;
                    let (a, b): (String, String) = (s.chars().take(k).collect(), s.chars().skip(k).collect());
                    format!("({} + {})", lit::to_text(&json!(a)), lit::to_text(&json!(b)))
                }
                1 if !s.is_empty() => format!("({}~ $+)", lit::to_text(&json!(s.chars().map(|c| c.to_string()).collect::<Vec<_>>()))),
                _ => format!("(\"\" + {t} + \"\")"),
            }
        }
        "for-accumulate" => {
            let xs = arr?;
            format!("(() -> any {{ acc := mut any []; for x in {}~ {{ if a: [any] = *acc {{ acc = a + [x]; }} }}; return *acc; }})()", lit::to_text(&json!(xs)))
        }
        "match-bound" => format!("(() -> any {{ m := match idf({t}) {{ w: any => w, }}; return m; }})()"),
        _ => return None,
    })
}

fn gen_scalar(tape: &mut Tape) -> Json {
    match tape.weighted(&[4, 3, 3, 1, 1]) {
        0 => json!(*tape.pick(&[0i64, 1, -1, 2, 7, 1 << 40, i64::MAX, i64::MIN])),
        1 => lit::float(*tape.pick(&[0.0, -0.0, 1.0, 1.5, 2.0, 1e300, 5e-324, f64::INFINITY, f64::NAN, 0.1 + 0.2, 0.3, 1e-17, 2e-17])),
        2 => json!(*tape.pick(&["", "a", "ab", "é", "1", "true"])),
        3 => json!(tape.bool()),
        _ => Json::Null,
    }
}

fn gen_value(tape: &mut Tape, depth: usize) -> Json {
    if depth == 0 {
        return gen_scalar(tape);
    }
    match tape.weighted(&[3, 5, 2, 1]) {
        0 => gen_scalar(tape),
        1 => {
            let n = tape.below(4);
            if tape.chance(1, 4) && n > 0 {
                let e = gen_value(tape, depth - 1);
                return Json::Array(vec![e; n]);
            }
            Json::Array((0..n).map(|_| gen_value(tape, depth - 1)).collect())
        }
        2 => {
            let n = 2 + tape.below(2);
            lit::tuple((0..n).map(|_| gen_value(tape, depth - 1)).collect())
        }
        _ => {
            let mut o = serde_json::Map::new();
            for k in ["a", "b"] {
                if tape.bool() {
                    o.insert(k.into(), gen_value(tape, depth - 1));
                }
            }
            json!({"s": o})
        }
    }
}

/// a value with nearly the same content
fn near(tape: &mut Tape, v: &Json) -> Json {
    match v {
        Json::Number(n) => {
            let i = n.as_i64().unwrap();
            match tape.below(3) {
                0 => json!(i.wrapping_add(1)),
                1 => lit::float(i as f64),
                _ => json!(i.to_string()),
            }
        }
        Json::String(s) => {
            if tape.bool() { json!(format!("{s} ")) } else { json!([s]) }
        }
        Json::Bool(b) => {
            if tape.bool() { json!(!b) } else { json!(*b as i64) }
        }
        Json::Null => tape.pick(&[json!([]), json!(0), json!("")]).clone(),
        Json::Array(xs) => {
            let mut xs = xs.clone();
            match tape.below(4) {
                0 => xs.push(json!(0)),
                1 if !xs.is_empty() => {
                    let k = tape.below(xs.len());
                    xs[k] = near(tape, &xs[k].clone());
                }
                2 if xs.len() >= 2 => {
                    let k = tape.below(xs.len() - 1);
                    xs.swap(k, k + 1);
                }
                3 if xs.len() >= 2 => return lit::tuple(xs),
                _ => xs.insert(0, Json::Null),
            }
            Json::Array(xs)
        }
        Json::Object(_) => {
            if let Some(f) = is_float(v) {
                return match tape.below(3) {
                    0 => lit::float(f + 1.0),
                    1 if f.fract() == 0.0 && f.abs() < 1e15 => json!(f as i64),
                    _ => lit::float(-f),
                };
            }
            if let Some(xs) = tuple_items(v) {
                let mut xs = xs.clone();
                if tape.bool() {
                    return Json::Array(xs);
                }
                let k = tape.below(xs.len());
                xs[k] = near(tape, &xs[k].clone());
                return lit::tuple(xs);
            }
            if let Some(fs) = struct_fields(v) {
                let mut fs = fs.clone();
                if fs.is_empty() || tape.bool() {
                    fs.insert("c".into(), json!(1));
                } else {
                    let k = fs.keys().next().unwrap().clone();
                    let n = near(tape, &fs[&k].clone());
                    fs.insert(k, n);
                }
                return json!({"s": fs});
            }
            v.clone()
        }
    }
}

impl Property for C19Prop {
    fn id(&self) -> &'static str {
        "C19"
    }

    fn gen_case(&self, tape: &mut Tape, _tier: Tier) -> Option<Json> {
        let depth = tape.below(3);
        let x = if tape.chance(2, 3) {
            // arrays are where provenance matters most
            let n = tape.below(4);
            Json::Array((0..n).map(|_| gen_value(tape, depth)).collect())
        } else {
            gen_value(tape, depth + 1)
        };
        let y = if tape.chance(3, 5) { x.clone() } else { near(tape, &x) };
        Some(json!({"x": x, "y": y, "px": *tape.pick(&PATHS), "py": *tape.pick(&PATHS), "salt": tape.below(6)}))
    }

    fn check_case(&self, case: &Json, stats: &mut Stats) -> Verdict {
        let (x, y) = (&case["x"], &case["y"]);
        let (px, py) = (case["px"].as_str().unwrap_or("literal"), case["py"].as_str().unwrap_or("literal"));
        let salt = case["salt"].as_u64().unwrap_or(0) as usize;
        let (Some(ex), Some(ey)) = (build(x, px, salt), build(y, py, salt + 1)) else {
            return Verdict::Discard("provenance path not applicable to this value");
        };
        let equal = model_eq(x, y);
        let key = format!("{ex} ?= {ey}");
        stats.label(&format!("path {px}"));
        stats.label(if equal { "expected equal" } else { "expected unequal" });
        if equal && px != py {
            stats.nontrivial(&key);
            stats.label("equal content, different provenance");
        }
        // the provenance expressions must produce the intended values (harness sanity + C19 premise)
        for (e, v, p) in [(&ex, x, px), (&ey, y, py)] {
            stats.eval();
            match run::run_text(&format!("{PRELUDE}{e}"), false) {
                Outcome::Value(got) => {
                    let m = lit::from_var(&got);
                    let same = m.as_ref().is_some_and(|m| m == v || (contains_nan(v) && lit::to_text(m) == lit::to_text(v)));
                    if !same {
                        return fail(
                            format!("C19:provenance:{p}"),
                            format!("`{e}` was meant to produce {} and produced {}", lit::show(v), crate::ty::show(&got)),
                        );
                    }
                }
                o => return fail(format!("C19:provenance:{p}:{}", o.panic_sig().unwrap_or("outcome".into())), format!("`{e}`: {}", o.short())),
            }
        }
        stats.sample(8, || json!({"left": ex, "right": ey, "expected_equal": equal}));
        let sym = model_eq(y, x);
        debug_assert_eq!(equal, sym);
        let checks = [
            (format!("{PRELUDE}({ex}) == ({ey})"), equal, "=="),
            (format!("{PRELUDE}({ey}) == ({ex})"), equal, "==(swapped)"),
            (format!("{PRELUDE}({ex}) != ({ey})"), !equal, "!="),
            (format!("{PRELUDE}l := {ex}; r := {ey}; l == r"), equal, "==(bound)"),
            (format!("{PRELUDE}l := idf({ex}); r := idf({ey}); (l == r, l != r, r == l)"), equal, "runtime-triple"),
            (format!("{PRELUDE}match ({ex}) {{ ({ey}) => true, => false, }}"), equal, "match-value"),
            (format!("{PRELUDE}match idf({ex}) {{ 12345, idf({ey}) => true, => false, }}"), equal, "match-value-runtime"),
            (format!("{PRELUDE}[{ex}] == [{ey}]"), equal, "inside-array"),
            (format!("{PRELUDE}(1, {ex}) == (1, {ey})"), equal, "inside-tuple"),
            (format!("{PRELUDE}struct{{k := {ex}}} == struct{{k := {ey}}}"), equal, "inside-struct"),
        ];
        for (program, want, how) in checks {
            stats.eval();
            let expected = if how == "runtime-triple" {
                lit::tuple(vec![json!(want), json!(!want), json!(want)])
            } else {
                json!(want)
            };
            match run::run_text(&program, false) {
                Outcome::Value(got) => {
                    if lit::from_var(&got).as_ref() != Some(&expected) {
                        return fail(
                            format!("C19:{how}:{}", if equal { "equal-content" } else { "different-content" }),
                            format!(
                                "`{program}` gave {} but {} and {} have {} content",
                                crate::ty::show(&got),
                                lit::show(x),
                                lit::show(y),
                                if equal { "equal" } else { "different" }
                            ),
                        );
                    }
                }
                o => return fail(format!("C19:{how}:{}", o.panic_sig().unwrap_or("outcome".into())), format!("`{program}`: {}", o.short())),
            }
        }
        // reflexivity through one binding (no NaN)
        if !contains_nan(x) {
            stats.eval();
            let program = format!("{PRELUDE}v := idf({ex}); (v == v, v != v)");
            match run::run_text(&program, false) {
                Outcome::Value(Variable::Tuple(t)) if t.len() == 2 && t[0] == Variable::Bool(true) && t[1] == Variable::Bool(false) => {}
                o => return fail("C19:reflexive", format!("`{program}`: {}", o.short())),
            }
        }
        Verdict::Pass
    }
}

pub fn run(session: &Session) -> i32 {
    crate::engine::run_regressions(session, &C19);
    // exhaustive part: a basis of values x every pair of applicable provenance paths, equal content
    let basis = [
        json!([]), json!([1]), json!([1, 1]), json!([1, "a"]), json!([[1], []]), json!([[], []]), json!(["a", "b"]),
        json!([lit::float(1.5), 2]), json!("ab"), json!(""), json!(7), lit::float(0.0), lit::float(f64::NAN), json!(true), Json::Null,
        lit::tuple(vec![json!(1), json!([])]), json!({"s": {"a": [1], "b": []}}), json!([lit::float(f64::NAN)]),
        json!([Json::Null, Json::Null]), json!([[1, "a"], [1]]),
    ];
    let mut cases = vec![];
    for v in &basis {
        for px in PATHS {
            for py in PATHS {
                cases.push(json!({"x": v, "y": v, "px": px, "py": py, "salt": 1}));
            }
            // different content against the literal
            for w in &basis {
                if !model_eq(v, w) {
                    cases.push(json!({"x": v, "y": w, "px": px, "py": "literal", "salt": 2}));
                }
            }
        }
    }
    session.set_extra("basis_values", json!(basis.len()));
    session.set_extra("provenance_paths", json!(PATHS));
    if !session.stopped() {
        session.run_enum(&C19, cases);
    }
    if !session.stopped() {
        session.run_tapes(&C19, session.tier.of(30_000, 1_500_000), 120, 0);
    }
    session.finish(
        "pairs (x, y) of first-order values (ints, floats incl. NaN / signed zeros / near-equal values, strings, bools, (), arrays, tuples, structs; nesting <= 3) with equal or nearly equal content (one element changed, int vs float, array vs tuple, extra field ...), each built along one of 24 provenance paths (literal, + concatenation incl. with [], slices, $], partition halves, ? p, ? T, @, [v; n] incl. n = 0, through any-typed functions / union-typed ifs / array, tuple, struct, cell, closure, reduce, for-loop, match-binding positions, string operations); compared with ==, != (both operand orders), as match value candidates, bound to names, through any-typed run-time positions and nested inside arrays/tuples/structs; oracle = structural equality of the JSON models (IEEE for floats, kinds distinct), != its negation, symmetry, reflexivity without NaN. 20 basis values x all pairs of paths are swept completely. Non-trivial = equal content with different provenance; distinct by the pair of expressions.",
        false,
        &["provenance expressions are first checked to evaluate to the intended value"],
    )
}
