//! C19 — equality is by content, independent of static or stored types.
use crate::{
    engine::{Property, Session, Stats, Tier, Verdict, fail},
    lit,
    run::{self, Outcome},
    tape::Tape,
};
use serde_json::{Value as Json, json};

pub struct C19Prop;
pub static C19: C19Prop = C19Prop;

pub const PATHS: [&str; 28] = [
    "literal", "concat-split", "concat-empty-left", "concat-empty-right", "slice", "slice-step", "collect", "partition-left",
    "partition-right", "filter", "type-filter", "map-identity", "repeat", "through-any-function", "through-union-if",
    "array-element", "tuple-component", "struct-field", "cell-content", "closure-result", "reduce-build", "string-ops",
    "for-accumulate", "match-bound", "map-widened", "user-iterator-widened", "slice-beyond", "slice-clamped",
];

const PRELUDE: &str = "idf := (x: any) -> any { return x; }; yes := (x: any) -> bool { return true; }; \
    no := (x: any) -> bool { return false; }; same := (x: any) -> any { return x; }; \
    hide := (b: bool) -> bool { return b; }; ";

fn is_float(v: &Json) -> Option<f64> {
    v.as_object().and_then(|o| o.get("f")).and_then(|b| b.as_u64()).map(f64::from_bits)
}

fn tuple_items(v: &Json) -> Option<&Vec<Json>> {
    v.as_object().and_then(|o| o.get("t")).and_then(|t| t.as_array())
}

fn struct_fields(v: &Json) -> Option<&serde_json::Map<String, Json>> {
    v.as_object().and_then(|o| o.get("s")).and_then(|t| t.as_object())
}

/// reference equality on the model: by content, IEEE for floats, kinds distinct
pub fn model_eq(a: &Json, b: &Json) -> bool {
    match (a, b) {
        (Json::Null, Json::Null) => true,
        (Json::Bool(x), Json::Bool(y)) => x == y,
        (Json::Number(x), Json::Number(y)) => x.as_i64() == y.as_i64(),
        (Json::String(x), Json::String(y)) => x == y,
        (Json::Array(xs), Json::Array(ys)) => xs.len() == ys.len() && xs.iter().zip(ys).all(|(x, y)| model_eq(x, y)),
        (Json::Object(_), Json::Object(_)) => {
            if let (Some(x), Some(y)) = (is_float(a), is_float(b)) {
                return x == y;
            }
            if let (Some(xs), Some(ys)) = (tuple_items(a), tuple_items(b)) {
                return xs.len() == ys.len() && xs.iter().zip(ys).all(|(x, y)| model_eq(x, y));
            }
            if let (Some(xs), Some(ys)) = (struct_fields(a), struct_fields(b)) {
                return xs.len() == ys.len() && xs.iter().all(|(k, x)| ys.get(k).is_some_and(|y| model_eq(x, y)));
            }
            false
        }
        _ => false,
    }
}

fn contains_nan(v: &Json) -> bool {
    if let Some(f) = is_float(v) {
        return f.is_nan();
    }
    match v {
        Json::Array(xs) => xs.iter().any(contains_nan),
        Json::Object(o) => o.values().any(|x| match x {
            Json::Array(xs) => xs.iter().any(contains_nan),
            Json::Object(fs) => fs.values().any(contains_nan),
            _ => false,
        }),
        _ => false,
    }
}

/// an expression evaluating to `v`, built along provenance path `path` (None = not applicable)
pub fn build(v: &Json, path: &str, salt: usize) -> Option<String> {
    let t = lit::to_text(v);
    let arr = v.as_array();
    Some(match path {
        "literal" => t,
        "concat-split" => {
            let xs = arr?;
            let k = if xs.is_empty() { 0 } else { salt % (xs.len() + 1) };
            format!("({} + {})", lit::to_text(&json!(xs[..k])), lit::to_text(&json!(xs[k..])))
        }
        "concat-empty-left" => {
            arr?;
            format!("([] + {t})")
        }
        "concat-empty-right" => {
            arr?;
            format!("({t} + [])")
        }
        "slice" => {
            if let Some(xs) = arr {
                let mut padded = vec![json!(99), json!("pad")];
                padded.extend(xs.iter().cloned());
                padded.push(json!(98));
                format!("({}[2:-1])", lit::to_text(&json!(padded)))
            } else if let Some(s) = v.as_str() {
                format!("({}[1:-2])", lit::to_text(&json!(format!("<{s}>>"))))
            } else {
                return None;
            }
        }
        "slice-beyond" => {
            // bounds far outside the sequence on the low side (they are clamped, not wrapped)
            let xs = arr?;
            let mut padded: Vec<Json> = xs.clone();
            padded.push(json!(98));
            let n = xs.len() as i64;
            format!("({}[-{}:{}])", lit::to_text(&json!(padded)), n + 6 + salt as i64, n)
        }
        "slice-clamped" => {
            let xs = arr?;
            let n = xs.len() as i64;
            format!("({}[-{}:{}])", lit::to_text(&json!(xs)), n + 2 + salt as i64, n + 3)
        }
        "slice-step" => {
            let xs = arr?;
            let mut inter = vec![];
            for x in xs {
                inter.push(x.clone());
                inter.push(json!("skip"));
            }
            format!("({}[::2])", lit::to_text(&json!(inter)))
        }
        "collect" => {
            arr?;
            format!("({t}~ $])")
        }
        "partition-left" => {
            arr?;
            format!("(({t}~ \\ yes).0)")
        }
        "partition-right" => {
            arr?;
            format!("(({t}~ \\ no).1)")
        }
        "filter" => {
            arr?;
            format!("({t}~ ? yes $])")
        }
        "type-filter" => {
            arr?;
            format!("({t}~ ? any $])")
        }
        "map-identity" => {
            arr?;
            format!("({t}~ @ same $])")
        }
        "repeat" => {
            let xs = arr?;
            if xs.is_empty() {
                let filler = [json!(0), json!("s"), json!([1])][salt % 3].clone();
                format!("[{}; 0]", lit::to_text(&filler))
            } else if xs.iter().all(|x| x == &xs[0]) && !contains_nan(&xs[0]) {
                format!("[{}; {}]", lit::to_text(&xs[0]), xs.len())
            } else {
                return None;
            }
        }
        "through-any-function" => format!("idf({t})"),
        "through-union-if" => {
            let other = [json!("other"), json!(0), json!([])][salt % 3].clone();
            format!("(() -> any {{ u := if hide(true) {{ {t} }} else {{ {} }}; return u; }})()", lit::to_text(&other))
        }
        "array-element" => format!("([{t}, \"pad\", 1][0])"),
        "tuple-component" => format!("((1, {t}).1)"),
        "struct-field" => format!("(struct{{p := 1, q := {t}}}.q)"),
        "cell-content" => format!("(*(mut any {t}))"),
        "closure-result" => format!("(() -> any {{ return {t}; }})()"),
        "reduce-build" => {
            let xs = arr?;
            format!("({}~ $ [] (acc: any, x: any) -> any {{ if a: [any] = acc {{ return a + [x]; }} return acc; }})", lit::to_text(&json!(xs)))
        }
        "string-ops" => {
            let s = v.as_str()?;
            match salt % 3 {
                0 => {
                    let k = s.chars().count() / 2;
                    let (a, b): (String, String) = (s.chars().take(k).collect(), s.chars().skip(k).collect());
                    format!("({} + {})", lit::to_text(&json!(a)), lit::to_text(&json!(b)))
                }
                1 if !s.is_empty() => format!("({}~ $+)", lit::to_text(&json!(s.chars().map(|c| c.to_string()).collect::<Vec<_>>()))),
                _ => format!("(\"\" + {t} + \"\")"),
            }
        }
        "for-accumulate" => {
            let xs = arr?;
            format!("(() -> any {{ acc := mut any []; for x in {}~ {{ if a: [any] = *acc {{ acc = a + [x]; }} }}; return *acc; }})()", lit::to_text(&json!(xs)))
        }
        "map-widened" | "user-iterator-widened" => {
            // the array is produced by an operator that labels it with a declared element type which
            // is wider than, and different from, the type a literal of the same content gets
            let xs = arr?;
            if xs.is_empty() {
                return None;
            }
            let union = |widen: bool| {
                let mut ms: Vec<String> = xs.iter().map(|x| lit::type_text(x, widen)).collect();
                ms.sort();
                ms.dedup();
                ms.join("|")
            };
            let (exact, wide) = (union(false), union(true));
            if path == "map-widened" {
                format!("({t}~ @ (v: {exact}) -> {wide} {{ return v; }} $])")
            } else {
                format!("(() -> any {{ k := mut 0; a := {t}; it := () -> (bool, {wide}) {{ i := *k; if i < {} {{ k += 1; return (true, a[i]); }} return (false, a[0]); }}; return it $]; }})()", xs.len())
            }
        }
        "match-bound" => format!("(() -> any {{ m := match idf({t}) {{ w: any => w, }}; return m; }})()"),
        _ => return None,
    })
}

fn gen_scalar(tape: &mut Tape) -> Json {
    match tape.weighted(&[4, 3, 3, 1, 1]) {
        0 => json!(*tape.pick(&[0i64, 1, -1, 2, 7, 1 << 40, i64::MAX, i64::MIN])),
        1 => lit::float(*tape.pick(&[0.0, -0.0, 1.0, 1.5, 2.0, 1e300, 5e-324, f64::INFINITY, f64::NAN, 0.1 + 0.2, 0.3, 1e-17, 2e-17])),
        2 => json!(*tape.pick(&["", "a", "ab", "é", "1", "true"])),
        3 => json!(tape.bool()),
        _ => Json::Null,
    }
}

fn gen_value(tape: &mut Tape, depth: usize) -> Json {
    if depth == 0 {
        return gen_scalar(tape);
    }
    match tape.weighted(&[3, 5, 2, 1]) {
        0 => gen_scalar(tape),
        1 => {
            let n = tape.below(4);
            if tape.chance(1, 4) && n > 0 {
                let e = gen_value(tape, depth - 1);
                return Json::Array(vec![e; n]);
            }
            Json::Array((0..n).map(|_| gen_value(tape, depth - 1)).collect())
        }
        2 => {
            let n = 2 + tape.below(2);
            lit::tuple((0..n).map(|_| gen_value(tape, depth - 1)).collect())
        }
        _ => {
            let mut o = serde_json::Map::new();
            for k in ["a", "b"] {
                if tape.bool() {
                    o.insert(k.into(), gen_value(tape, depth - 1));
                }
            }
            json!({"s": o})
        }
    }
}

/// a value with nearly the same content
fn near(tape: &mut Tape, v: &Json) -> Json {
    match v {
        Json::Number(n) => {
            let i = n.as_i64().unwrap();
            match tape.below(3) {
                0 => json!(i.wrapping_add(1)),
                1 => lit::float(i as f64),
                _ => json!(i.to_string()),
            }
        }
        Json::String(s) => {
            if tape.bool() { json!(format!("{s} ")) } else { json!([s]) }
        }
        Json::Bool(b) => {
            if tape.bool() { json!(!b) } else { json!(*b as i64) }
        }
        Json::Null => tape.pick(&[json!([]), json!(0), json!("")]).clone(),
        Json::Array(xs) => {
            let mut xs = xs.clone();
            match tape.below(4) {
                0 => xs.push(json!(0)),
                1 if !xs.is_empty() => {
                    let k = tape.below(xs.len());
                    xs[k] = near(tape, &xs[k].clone());
                }
                2 if xs.len() >= 2 => {
                    let k = tape.below(xs.len() - 1);
                    xs.swap(k, k + 1);
                }
                3 if xs.len() >= 2 => return lit::tuple(xs),
                _ => xs.insert(0, Json::Null),
            }
            Json::Array(xs)
        }
        Json::Object(_) => {
            if let Some(f) = is_float(v) {
                return match tape.below(3) {
                    0 => lit::float(f + 1.0),
                    1 if f.fract() == 0.0 && f.abs() < 1e15 => json!(f as i64),
                    _ => lit::float(-f),
                };
            }
            if let Some(xs) = tuple_items(v) {
                let mut xs = xs.clone();
                match tape.below(4) {
                    0 => return Json::Array(xs),
                    // one component more / one less: a tuple is not equal to a tuple it is a prefix of
                    1 => {
                        xs.push(json!(0));
                        return lit::tuple(xs);
                    }
                    2 if xs.len() >= 3 => {
                        xs.pop();
                        return lit::tuple(xs);
                    }
                    _ => {}
                }
                let k = tape.below(xs.len());
                xs[k] = near(tape, &xs[k].clone());
                return lit::tuple(xs);
            }
            if let Some(fs) = struct_fields(v) {
                let mut fs = fs.clone();
                if fs.is_empty() || tape.bool() {
                    fs.insert("c".into(), json!(1));
                } else {
                    let k = fs.keys().next().unwrap().clone();
                    let n = near(tape, &fs[&k].clone());
                    fs.insert(k, n);
                }
                return json!({"s": fs});
            }
            v.clone()
        }
    }
}

// ---------- function values, cells and iterators: equality is identity ----------

/// ways of creating one object; each evaluation of the expression creates a new one
const CTORS: [&str; 8] = [
    "() -> int { return 1; }",
    "(p: int) -> int { return p; }",
    "mut 0",
    "mut [int] []",
    "[1]~",
    "mkf()",
    "mkc()",
    "[1, 2]~ ? (p: int) -> bool { return true; }",
];

const ID_PRELUDE: &str = "mkf := () -> () -> int { return () -> int { return 1; }; }; mkc := () -> mut int { return mut 0; }; \
    tru := () -> bool { return true; }; cmp := (l: any, r: any) -> (bool, bool, bool) { return (l == r, l != r, r == l); }; ";

/// ways of handing an object on without copying it
fn alias(path: usize, o: &str) -> String {
    match path {
        0 => o.to_string(),
        1 => format!("idf({o})"),
        2 => format!("[{o}][0]"),
        3 => format!("({o}, 1).0"),
        4 => format!("struct{{k := {o}}}.k"),
        5 => format!("(() -> any {{ return {o}; }})()"),
        6 => format!("*(mut any {o})"),
        7 => format!("if tru() {{ {o} }} else {{ 0 }}"),
        8 => format!("([0]~ @ (i: int) -> any {{ return {o}; }} $])[0]"),
        _ => format!("match {o} {{ m: any => m, }}"),
    }
}
const ALIAS_PATHS: usize = 10;

fn gen_identity(tape: &mut Tape) -> Json {
    let n = 2 + tape.below(3);
    let ctors: Vec<usize> = (0..n).map(|_| tape.below(CTORS.len())).collect();
    let m = 2 + tape.below(3);
    let aliases: Vec<(usize, usize)> = (0..m).map(|_| (tape.below(n), tape.below(ALIAS_PATHS))).collect();
    let (l, r) = (tape.below(m), tape.below(m));
    json!({"kind": "identity", "ctors": ctors, "aliases": aliases, "l": l, "r": r, "how": tape.below(6)})
}

fn identity_program(case: &Json) -> Option<(String, bool)> {
    if let Some(p) = case["program"].as_str() {
        return Some((p.to_string(), case["same"].as_bool()?));
    }
    let ctors: Vec<usize> = case["ctors"].as_array()?.iter().filter_map(|c| c.as_u64().map(|c| c as usize)).collect();
    let aliases: Vec<(usize, usize)> = case["aliases"].as_array()?.iter().filter_map(|a| Some((a[0].as_u64()? as usize, a[1].as_u64()? as usize))).collect();
    let (l, r) = (case["l"].as_u64()? as usize, case["r"].as_u64()? as usize);
    let mut text = String::new();
    for (i, c) in ctors.iter().enumerate() {
        text += &format!("o{i} := {}; ", CTORS.get(*c)?);
    }
    for (j, (o, path)) in aliases.iter().enumerate() {
        if *o >= ctors.len() {
            return None;
        }
        text += &format!("a{j} := {}; ", alias(*path, &format!("o{o}")));
    }
    let same = aliases.get(l)?.0 == aliases.get(r)?.0;
    let (a, b) = (format!("a{l}"), format!("a{r}"));
    let compare = match case["how"].as_u64().unwrap_or(0) {
        0 => format!("({a} == {b}, {a} != {b}, {b} == {a})"),
        1 => format!("cmp({a}, {b})"),
        2 => format!("([{a}] == [{b}], [{a}] != [{b}], ({b}, 1) == ({a}, 1))"),
        3 => format!("m1 := match {a} {{ ({b}) => true, => false, }}; m2 := match {a} {{ ({b}) => false, => true, }}; (m1, m2, struct{{k := {b}}} == struct{{k := {a}}})"),
        4 => format!("(idf({a}) == {b}, {a} != idf({b}), cmp({b}, {a}).0)"),
        _ => format!("in := () -> any {{ return ({a} == {b}, {a} != {b}, {b} == {a}); }}; in()"),
    };
    Some((format!("{text}{compare}"), same))
}

fn check_identity(case: &Json, stats: &mut Stats) -> Verdict {
    let Some((body, same)) = identity_program(case) else {
        return Verdict::Discard("malformed identity case");
    };
    let program = format!("{PRELUDE}{ID_PRELUDE}{body}");
    stats.eval();
    stats.label(if same { "identity: same object" } else { "identity: different objects" });
    if same {
        stats.nontrivial(&body);
    }
    let want = lit::tuple(vec![json!(same), json!(!same), json!(same)]);
    match crate::exec::run_program(&program, false).outcome {
        Outcome::Value(got) if lit::from_var(&got).as_ref() == Some(&want) => {
            stats.sample(4, || json!({"program": body, "same_object": same}));
            Verdict::Pass
        }
        o => fail(
            format!("C19:identity:{}", if same { "same-object" } else { "different-objects" }),
            format!("`{program}`: {} (expected {}: the operands are {})", o.short(), lit::show(&want), if same { "one object" } else { "two objects" }),
        ),
    }
}

/// embedding sessions (inputs parsed and run one at a time into one interpreter; the host keeps the
/// result of each input and hands it to the next one as `last`): the value a declaration statement
/// yields is the object the declared name is bound to. The last input yields (l == r, l != r, r == l).
const IDENTITY_SESSIONS: [(&[&str], bool); 12] = [
    (&["f := () -> int { return 1; }", "(last == f, last != f, f == last)"], true),
    (&["f := (n: int) -> any { if n == 0 { return f; } return f(n - 1); }", "(last == f(2), last != f, f == last)"], true),
    (&["f := () -> int { return 1; }", "g := last; (g == f, g != f, f == g)"], true),
    (&["f := () -> int { return 1; }", "m := match last { (f) => true, => false, }; (m, !m, m)"], true),
    (&["f := () -> int { return 1; }", "g := () -> int { return 1; }", "(last == f, last != f, f == last)"], false),
    (&["c := mut 1", "(last == c, last != c, c == last)"], true),
    (&["c := mut 1", "last = 5; (last == c, *c != 5, c == last)"], true),
    (&["it := [1]~", "(last == it, last != it, it == last)"], true),
    (&["m := mod { f := () -> int { return 1; }; }", "(last.f == m.f, last.f != m.f, m == last)"], true),
    (&["s := struct{f := () -> int { return 1; }, c := mut 0}", "(last == s, last.f != s.f, s.c == last.c)"], true),
    (&["(a, b) := (mut 1, () -> int { return 1; })", "(last.0 == a, last.1 != b, b == last.1)"], true),
    (&["f := () -> int { return 1; }", "f", "(last == f, last != f, f == last)"], true),
];

fn check_identity_session(case: &Json, stats: &mut Stats) -> Verdict {
    let inputs: Vec<&str> = case["inputs"].as_array().map(|a| a.iter().filter_map(|i| i.as_str()).collect()).unwrap_or_default();
    let same = case["same"].as_bool().unwrap_or(true);
    crate::run::default_budget();
    let mut interp = crate::exec::safe_interpreter();
    let mut last = Outcome::Rejected("no input".into());
    for input in &inputs {
        stats.eval();
        last = match crate::run::parse_guarded(&interp, input) {
            Ok(Ok(code)) => crate::run::exec_unscoped_guarded(&code, &mut interp),
            Ok(Err(k)) => Outcome::Rejected(k),
            Err(o) => o,
        };
        match &last {
            Outcome::Value(v) => interp.insert("last".into(), v.clone()),
            o => return fail("C19:identity-session:setup", format!("input `{input}` of {inputs:?}: {}", o.short())),
        }
    }
    stats.label("identity: embedding session");
    stats.nontrivial(&inputs.join(" ;; "));
    let want = lit::tuple(vec![json!(same), json!(!same), json!(same)]);
    match &last {
        Outcome::Value(got) if lit::from_var(got).as_ref() == Some(&want) => {
            stats.sample(3, || json!({"inputs": inputs, "same_object": same}));
            Verdict::Pass
        }
        o => fail(
            format!("C19:identity-session:{}", if same { "same-object" } else { "different-objects" }),
            format!("inputs {inputs:?} (each input's result is handed to the next as `last`): {} (expected {})", o.short(), lit::show(&want)),
        ),
    }
}

/// one object of the standard library reached from two threads: the value an expression has in a
/// program run on another thread is handed to a session on this thread as `last`; it is the same object
/// as the one the expression denotes here
fn check_identity_threads(case: &Json, stats: &mut Stats) -> Verdict {
    let expr = case["expr"].as_str().unwrap_or("std.len").to_string();
    let e2 = expr.clone();
    let elsewhere = std::thread::Builder::new()
        .stack_size(64 << 20)
        .spawn(move || {
            crate::run::default_budget();
            crate::run::run_text(&e2, true)
        })
        .expect("spawn")
        .join()
        .expect("join");
    let Outcome::Value(v) = elsewhere else {
        return fail("C19:identity-threads:setup", format!("`{expr}` on another thread: {}", elsewhere.short()));
    };
    crate::run::default_budget();
    let mut interp = crate::run::interpreter(true);
    interp.insert("last".into(), v.clone());
    let program = format!("m := match last {{ ({expr}) => true, => false, }}; (last == {expr}, last != {expr}, {expr} == last, m, [last] == [{expr}])");
    stats.evals(2);
    stats.nontrivial(&expr);
    stats.label("identity: one std object reached from two threads");
    let want = lit::tuple(vec![json!(true), json!(false), json!(true), json!(true), json!(true)]);
    let o = match crate::run::parse_guarded(&interp, &program) {
        Ok(Ok(code)) => crate::run::exec_unscoped_guarded(&code, &mut interp),
        Ok(Err(k)) => Outcome::Rejected(k),
        Err(o) => o,
    };
    let here = crate::run::run_text(&expr, true);
    if let Outcome::Value(w) = &here
        && *w != v
    {
        return fail("C19:identity-threads:host", format!("the value of `{expr}` obtained on another thread is not == (host side) to its value on this thread"));
    }
    match &o {
        Outcome::Value(got) if lit::from_var(got).as_ref() == Some(&want) => Verdict::Pass,
        o => fail(
            "C19:identity-threads:same-object",
            format!("`{program}` with `last` = the value of `{expr}` on another thread: {} (expected {})", o.short(), lit::show(&want)),
        ),
    }
}

/// hand-written identity programs: (program yielding (l == r, l != r, r == l), same object?)
fn identity_catalogue() -> Vec<(&'static str, bool)> {
    vec![
        ("f := () -> int { return 1; }; g := f; (f == g, f != g, g == f)", true),
        ("f := () -> int { return 1; }; g := () -> int { return 1; }; (f == g, f != g, g == f)", false),
        ("a := mkf(); b := mkf(); (a == b, a != b, b == a)", false),
        ("a := mkf(); (a == a, a != a, a == a)", true),
        ("me := () -> any { return me; }; (me() == me, me() != me, me == me())", true),
        ("me := () -> any { return me; }; (me() == me(), me() != me(), idf(me()) == me)", true),
        ("slf := (h: any) -> any { return (h == slf, h != slf, slf == h); }; slf(slf)", true),
        ("slf := (h: any) -> any { return (h == slf, h != slf, slf == h); }; slf(idf)", false),
        ("slf := (h: any) -> any { return (h == slf, h != slf, slf == h); }; g := slf; g(slf)", true),
        ("slf := (h: any) -> any { return (h == slf, h != slf, slf == h); }; g := slf; slf(g)", true),
        ("fact := (n: int) -> any { if n == 0 { return fact; } return fact(n - 1); }; (fact(3) == fact, fact(3) != fact, fact == fact(2))", true),
        ("fact := (n: int) -> any { if n == 0 { return fact; } return fact(n - 1); }; g := fact; (g(3) == g, g(3) != g, fact == g(2))", true),
        ("c := mut 1; d := c; (c == d, c != d, d == c)", true),
        ("c := mut 1; d := c; d = 5; (c == d, c != d, d == c)", true),
        ("c := mut 1; e := mut 1; (c == e, c != e, e == c)", false),
        ("c := mut 1; (c == (mut 1), c != (mut 1), (mut 1) == c)", false),
        ("c := mut 1; (c == 1, c != 1, 1 == c)", false),
        ("c := mut 1; (*c == 1, *c != 1, 1 == *c)", true),
        ("c := mkc(); d := mkc(); (c == d, c != d, d == c)", false),
        ("c := mut [int] []; d := mut [int] []; (c == d, c != d, d == c)", false),
        ("c := mut [int] []; d := c; d += [1]; (c == d, c != d, d == c)", true),
        ("it := [1]~; jt := it; (it == jt, it != jt, jt == it)", true),
        ("it := [1]~; (it == [1]~, it != [1]~, [1]~ == it)", false),
        ("it := [1]~; jt := it; jt(); (it == jt, it != jt, jt == it)", true),
        ("a := [1]; it := a~; jt := a~; (it == jt, it != jt, jt == it)", false),
        ("f := () -> int { return 1; }; (f == 1, f != 1, 1 == f)", false),
        ("f := () -> int { return 1; }; (f() == 1, f() != 1, 1 == f())", true),
        ("(std.len == std.len, std.len != std.len, idf(std.len) == std.len)", true),
        ("(std.len == std.string.trim, std.len != std.string.trim, std.string.trim == std.len)", false),
        ("fs := [0, 1]~ @ (i: int) -> () -> int { return () -> int { return i; }; } $]; (fs[0] == fs[1], fs[0] != fs[1], fs[1] == fs[0])", false),
        ("fs := [0, 1]~ @ (i: int) -> () -> int { return () -> int { return i; }; } $]; (fs[0] == fs[0], fs[1] != fs[1], fs == fs)", true),
        ("f := () -> int { return 1; }; fs := [f; 3]; (fs[0] == fs[2], fs[0] != fs[1], [f, f, f] == fs)", true),
        ("c := mut 0; cs := [c; 2]; cs[0] = 7; (cs[1] == c, cs[0] != cs[1], [c, c] == cs)", true),
        ("f := () -> int { return 1; }; g := () -> any { return f; }; (g() == f, g() != f, f == g())", true),
        ("f := (p: int) -> int { return p; }; h := (q: (int) -> int) -> any { return (q == f, q != f, f == q); }; h(f)", true),
        ("f := (p: int) -> int { return p; }; h := (q: (int) -> int) -> any { return (q == f, q != f, f == q); }; h((p: int) -> int { return p; })", false),
        ("s := struct{f := () -> int { return 1; }, c := mut 0}; t := s; (s == t, s != t, t.f == s.f)", true),
        ("mk := () -> struct{f: () -> int} { return struct{f := () -> int { return 1; }}; }; (mk() == mk(), mk() != mk(), mk().f == mk().f)", false),
        ("is := (is: mut int, other: mut int) -> any { return (is == other, is != other, other == is); }; c := mut 1; is(c, c)", true),
        ("is := (is: mut int, other: mut int) -> any { return (is == other, is != other, other == is); }; c := mut 1; is(c, mut 1)", false),
        ("is := (is: any, other: any) -> any { return (is == other, is != other, other == is); }; f := () -> int { return 1; }; is(f, f)", true),
        // function values made by executing one named declaration several times are several objects
        ("make := (n: int) -> () -> int { get := () -> int { return n; }; return get; }; a := make(1); b := make(2); (a == b, a != b, b == a)", false),
        ("make := (n: int) -> () -> int { get := () -> int { return n; }; return get; }; a := make(1); b := make(1); (a == b, a != b, [b] == [a])", false),
        ("make := (n: int) -> () -> int { get := () -> int { return n; }; return get; }; a := make(1); b := a; (a == b, a != b, [b] == [a])", true),
        ("make := (n: int) -> () -> int { get := () -> int { return n; }; return get; }; a := make(1); b := make(2); m := match a { (b) => true, => false, }; (m, !m, struct{f := a} == struct{f := b})", false),
        ("mk := () -> any { m := mod { f := () -> int { return 1; }; }; return m.f; }; (mk() == mk(), mk() != mk(), (mk(), 1) == (mk(), 1))", false),
        ("fs := mut [any] []; for i in [1, 2]~ { g := () -> int { return i; }; fs += [g]; }; ((*fs)[0] == (*fs)[1], (*fs)[0] != (*fs)[1], (*fs)[1] == (*fs)[0])", false),
        // compounds that hold a cell or a function are compared again after the cell was assigned
        ("m := mut 1; a := [m]; r := a == [m]; m = 2; (a == [m], a != [m], [m] == a)", true),
        ("m := mut 1; a := [(m, 1)]; b := [(m, 1)]; r := a == b; m = 2; (a == b, a != b, b == a)", true),
        ("m := mut 1; a := [struct{c := m}]; b := [struct{c := m}]; r := a == b; m += 5; (a == b, a != b, b == a)", true),
        ("m := mut [int] [1]; a := [[m]]; r := a == [[m]]; m += [2]; (a == [[m]], a != [[m]], [[m]] == a)", true),
        ("m := mut 1; n := mut 1; a := [m]; b := [n]; r := a == b; m = 2; n = 2; (a == b, a != b, b == a)", false),
        ("m := mut 1; a := (m, [m]); r := a == (m, [m]); m = 2; s := a == (m, [m]); m = 1; (a == (m, [m]), !s, r)", true),
        ("f := () -> int { return 1; }; a := [f]; r := a == [f]; (a == [f], a != [f], [f] == a)", true),
    ]
}

impl Property for C19Prop {
    fn id(&self) -> &'static str {
        "C19"
    }

    fn gen_case(&self, tape: &mut Tape, _tier: Tier) -> Option<Json> {
        if tape.chance(1, 5) {
            return Some(gen_identity(tape));
        }
        let depth = tape.below(3);
        let x = if tape.chance(2, 3) {
            // arrays are where provenance matters most
            let n = tape.below(4);
            Json::Array((0..n).map(|_| gen_value(tape, depth)).collect())
        } else {
            gen_value(tape, depth + 1)
        };
        let y = if tape.chance(3, 5) { x.clone() } else { near(tape, &x) };
        Some(json!({"x": x, "y": y, "px": *tape.pick(&PATHS), "py": *tape.pick(&PATHS), "salt": tape.below(6)}))
    }

    fn check_case(&self, case: &Json, stats: &mut Stats) -> Verdict {
        if case["kind"] == "identity" {
            return check_identity(case, stats);
        }
        if case["kind"] == "identity-session" {
            return check_identity_session(case, stats);
        }
        if case["kind"] == "identity-threads" {
            return check_identity_threads(case, stats);
        }
        if case["kind"] == "identity-host-call" {
            let program = case["program"].as_str().unwrap_or("");
            let f = match crate::exec::run_program(program, false).outcome {
                Outcome::Value(simplesl::variable::Variable::Function(f)) => f,
                o => return fail("C19:identity-host-call:setup", format!("`{program}`: {}", o.short())),
            };
            stats.eval();
            stats.nontrivial(program);
            stats.label("identity: a function called by the host with itself");
            let want = lit::tuple(vec![json!(true), json!(false), json!(true)]);
            let arg = simplesl::variable::Variable::Function(f.clone());
            let o = crate::exec::call_function(&f, vec![arg], false).outcome;
            return match &o {
                Outcome::Value(got) if lit::from_var(got).as_ref() == Some(&want) => Verdict::Pass,
                o => fail("C19:identity-host-call:same-object", format!("`{program}` called through the host API with itself as argument: {} (expected {})", o.short(), lit::show(&want))),
            };
        }
        let (x, y) = (&case["x"], &case["y"]);
        let (px, py) = (case["px"].as_str().unwrap_or("literal"), case["py"].as_str().unwrap_or("literal"));
        let salt = case["salt"].as_u64().unwrap_or(0) as usize;
        let (Some(ex), Some(ey)) = (build(x, px, salt), build(y, py, salt + 1)) else {
            return Verdict::Discard("provenance path not applicable to this value");
        };
        let equal = model_eq(x, y);
        let key = format!("{ex} ?= {ey}");
        stats.label(&format!("path {px}"));
        stats.label(if equal { "expected equal" } else { "expected unequal" });
        if equal && px != py {
            stats.nontrivial(&key);
            stats.label("equal content, different provenance");
        }
        // the provenance expressions must produce the intended values (harness sanity + C19 premise)
        for (e, v, p) in [(&ex, x, px), (&ey, y, py)] {
            stats.eval();
            match run::run_text(&format!("{PRELUDE}{e}"), false) {
                Outcome::Value(got) => {
                    let m = lit::from_var(&got);
                    let same = m.as_ref().is_some_and(|m| m == v || (contains_nan(v) && lit::to_text(m) == lit::to_text(v)));
                    if !same {
                        return fail(
                            format!("C19:provenance:{p}"),
                            format!("`{e}` was meant to produce {} and produced {}", lit::show(v), crate::ty::show(&got)),
                        );
                    }
                }
                o => return fail(format!("C19:provenance:{p}:{}", o.panic_sig().unwrap_or("outcome".into())), format!("`{e}`: {}", o.short())),
            }
        }
        stats.sample(8, || json!({"left": ex, "right": ey, "expected_equal": equal}));
        let sym = model_eq(y, x);
        debug_assert_eq!(equal, sym);
        let checks = [
            (format!("{PRELUDE}({ex}) == ({ey})"), equal, "=="),
            (format!("{PRELUDE}({ey}) == ({ex})"), equal, "==(swapped)"),
            (format!("{PRELUDE}({ex}) != ({ey})"), !equal, "!="),
            (format!("{PRELUDE}l := {ex}; r := {ey}; l == r"), equal, "==(bound)"),
            (format!("{PRELUDE}l := idf({ex}); r := idf({ey}); (l == r, l != r, r == l)"), equal, "runtime-triple"),
            (format!("{PRELUDE}match ({ex}) {{ ({ey}) => true, => false, }}"), equal, "match-value"),
            (format!("{PRELUDE}match idf({ex}) {{ 12345, idf({ey}) => true, => false, }}"), equal, "match-value-runtime"),
            (format!("{PRELUDE}match ({ex}) {{ 12345, ({ey}) => true, => false, }}"), equal, "match-value-second-candidate"),
            (format!("{PRELUDE}match ({ex}) {{ ({ey}), \"other\" => true, => false, }}"), equal, "match-value-first-candidate"),
            (format!("{PRELUDE}l := {ex}; m := match l {{ 12345, [12345], ({ey}) => true, 54321 => false, => false, }}; m"), equal, "match-value-bound-constant"),
            (format!("{PRELUDE}match ({ex}) {{ 12345 => false, ({ey}) => true, => false, }}"), equal, "match-value-second-arm"),
            // the candidate among four to six arms led by scalar literals (a match may be compiled into a
            // table; the table must agree with ==), scrutinee constant and computed
            (format!("{PRELUDE}match idf({ex}) {{ 918273 => false, \"q#other\" => false, 1234.5 => false, ({ey}) => true, 777 => false, => false, }}"), equal, "match-among-literal-arms"),
            (format!("{PRELUDE}match ({ex}) {{ 918273 => false, \"q#other\" => false, 1234.5 => false, 31 => false, ({ey}) => true, => false, }}"), equal, "match-among-literal-arms"),
            (format!("{PRELUDE}match idf({ex}) {{ ({ey}) => true, 918273 => false, \"q#other\" => false, 1234.5 => false, 777 => false, => false, }}"), equal, "match-among-literal-arms"),
            (format!("{PRELUDE}pickm := (v: any) -> bool {{ return match v {{ 918273 => false, 8.25 => false, \"q#other\" => false, ({ey}) => true, 777, 778 => false, => false, }}; }}; [pickm({ex}), pickm(918273), pickm({ex})]"), equal, "match-table-calls"),
            (format!("{PRELUDE}[{ex}] == [{ey}]"), equal, "inside-array"),
            (format!("{PRELUDE}(1, {ex}) == (1, {ey})"), equal, "inside-tuple"),
            (format!("{PRELUDE}struct{{k := {ex}}} == struct{{k := {ey}}}"), equal, "inside-struct"),
            (format!("{PRELUDE}cmp := (l: any, r: any) -> any {{ return (l == r, l != r, r == l); }}; cmp({ex}, {ey})"), equal, "runtime-triple"),
            (format!("{PRELUDE}neg := (l: any, r: any) -> any {{ return (!(l != r), !(l == r), !(!(l == r))); }}; neg({ex}, {ey})"), equal, "runtime-triple"),
            (format!("{PRELUDE}(!(({ex}) != ({ey})), !(({ex}) == ({ey})), !(!(({ey}) == ({ex}))))"), equal, "runtime-triple"),
            // operands whose static types are different unions that share the value's type
            (format!("{PRELUDE}ua := if hide(true) {{ {ex} }} else {{ \"other\" }}; ub := if hide(true) {{ {ey} }} else {{ 2.5 }}; (ua == ub, ua != ub, ub == ua)"), equal, "runtime-triple"),
            (format!("{PRELUDE}fa := () -> any {{ return {ex}; }}; ua := if hide(true) {{ {ex} }} else {{ [\"other\"] }}; ub := if hide(false) {{ (1, 2) }} else {{ {ey} }}; (ua == ub, ua != ub, [ub] == [ua])"), equal, "runtime-triple"),
            // a comparing function whose first parameter is spelled like the function itself (the parameter wins)
            (format!("{PRELUDE}eqself := (eqself: any, other: any) -> any {{ return (eqself == other, eqself != other, other == eqself); }}; eqself({ex}, {ey})"), equal, "runtime-triple"),
            (format!("{PRELUDE}pick := (pick: any, other: any) -> any {{ m := match pick {{ (other) => true, => false, }}; return (m, !m, other == pick); }}; pick({ex}, {ey})"), equal, "runtime-triple"),
            // the negation law written as chains (comparisons are one level, grouped left to right):
            // `l == r != false` is `(l == r) != false`
            (format!("{PRELUDE}l := idf({ex}); r := idf({ey}); (l == r != false, l != r == true, l == r == true)"), equal, "runtime-triple"),
            (format!("{PRELUDE}(({ex}) == ({ey}) != false, ({ex}) != ({ey}) == true, ({ey}) == ({ex}) == true)"), equal, "runtime-triple"),
            (format!("{PRELUDE}l := idf({ex}); r := idf({ey}); (l != r != true, l == r != true, l != r == false)"), equal, "runtime-triple"),
        ];
        for (program, want, how) in checks {
            stats.eval();
            let expected = if how == "runtime-triple" {
                lit::tuple(vec![json!(want), json!(!want), json!(want)])
            } else if how == "match-table-calls" {
                json!([want, false, want])
            } else {
                json!(want)
            };
            match run::run_text(&program, false) {
                Outcome::Value(got) => {
                    if lit::from_var(&got).as_ref() != Some(&expected) {
                        return fail(
                            format!("C19:{how}:{}", if equal { "equal-content" } else { "different-content" }),
                            format!(
                                "`{program}` gave {} but {} and {} have {} content",
                                crate::ty::show(&got),
                                lit::show(x),
                                lit::show(y),
                                if equal { "equal" } else { "different" }
                            ),
                        );
                    }
                }
                o => return fail(format!("C19:{how}:{}", o.panic_sig().unwrap_or("outcome".into())), format!("`{program}`: {}", o.short())),
            }
        }
        // a value compared with itself through one name: true exactly when it contains no NaN
        // (at the top level, inside a function body, and of a parameter with a declared type)
        let refl = model_eq(x, x);
        debug_assert_eq!(refl, !contains_nan(x));
        let want = lit::tuple(vec![json!(refl), json!(!refl)]);
        for (program, how) in [
            (format!("{PRELUDE}v := idf({ex}); (v == v, v != v)"), "self"),
            (format!("{PRELUDE}v := {ex}; (v == v, v != v)"), "self-constant"),
            (format!("{PRELUDE}slf := (v: any) -> any {{ return (v == v, v != v); }}; slf({ex})"), "self-in-function"),
            (format!("{PRELUDE}slf := (v: any) -> any {{ w := v; return (w == v, v != w); }}; slf({ex})"), "self-in-function-alias"),
        ] {
            stats.eval();
            match run::run_text(&program, false) {
                Outcome::Value(got) if lit::from_var(&got).as_ref() == Some(&want) => {}
                o => return fail(format!("C19:{how}:{}", if refl { "no-nan" } else { "nan" }), format!("`{program}`: {} (expected {})", o.short(), lit::show(&want))),
            }
        }
        Verdict::Pass
    }
}

pub fn run(session: &Session) -> i32 {
    crate::engine::run_regressions(session, &C19);
    // exhaustive part: a basis of values x every pair of applicable provenance paths, equal content
    let basis = [
        json!([]), json!([1]), json!([1, 1]), json!([1, "a"]), json!([[1], []]), json!([[], []]), json!(["a", "b"]),
        json!([lit::float(1.5), 2]), json!("ab"), json!(""), json!(7), lit::float(0.0), lit::float(f64::NAN), json!(true), Json::Null,
        lit::tuple(vec![json!(1), json!([])]), json!({"s": {"a": [1], "b": []}}), json!([lit::float(f64::NAN)]),
        json!([Json::Null, Json::Null]), json!([[1, "a"], [1]]), json!([{"s": {"a": 7}}]), json!([{"s": {"a": 7}}, {"s": {"a": 8, "b": "x"}}]),
        json!([lit::tuple(vec![json!(1), json!("a")])]), json!([{"s": {"a": [1], "b": {"s": {"c": true}}}}]),
    ];
    let mut cases = vec![];
    for v in &basis {
        for px in PATHS {
            for py in PATHS {
                cases.push(json!({"x": v, "y": v, "px": px, "py": py, "salt": 1}));
            }
            // different content against the literal
            for w in &basis {
                if !model_eq(v, w) {
                    cases.push(json!({"x": v, "y": w, "px": px, "py": "literal", "salt": 2}));
                }
            }
        }
    }
    for (program, same) in identity_catalogue() {
        cases.push(json!({"kind": "identity", "program": program, "same": same}));
    }
    // prefix tuples (all pairs of paths)
    for (x, y) in [
        (lit::tuple(vec![json!(1), json!(2)]), lit::tuple(vec![json!(1), json!(2), json!(3)])),
        (lit::tuple(vec![json!(1), json!(2), json!(3)]), lit::tuple(vec![json!(1), json!(2)])),
        (lit::tuple(vec![json!("a"), json!([])]), lit::tuple(vec![json!("a"), json!([]), Json::Null])),
        (json!([lit::tuple(vec![json!(1), json!(2)])]), json!([lit::tuple(vec![json!(1), json!(2), json!(0)])])),
    ] {
        for px in PATHS {
            for py in ["literal", "through-any-function", "array-element", "match-bound"] {
                cases.push(json!({"x": x, "y": y, "px": px, "py": py, "salt": 1}));
            }
        }
    }
    // a function called through the host API is, inside its own body, the object the host holds
    for program in [
        "slf := (h: any) -> any { return (h == slf, h != slf, slf == h); }; slf",
        "slf := (h: any) -> any { return ([h] == [slf], [h] != [slf], (slf, 1) == (h, 1)); }; slf",
        "slf := (h: any) -> any { m := match h { (slf) => true, => false, }; return (m, !m, m); }; slf",
        "slf := (h: any) -> any { g := () -> any { return slf; }; return (g() == h, g() != h, h == g()); }; slf",
    ] {
        cases.push(json!({"kind": "identity-host-call", "program": program}));
    }
    for expr in ["std.len", "std.convert.to_string", "std.convert.parse_int", "std.string.trim", "std.operators.int_sum", "std.operators.float_product", "std.math", "std.convert", "std", "[std.len, std.string.trim]", "struct{f := std.len}"] {
        cases.push(json!({"kind": "identity-threads", "expr": expr}));
    }
    // a construct that binds the name of an object locally, between two uses of the object: afterwards
    // the name denotes the object again
    let binders = [
        "n := match 5 { v: int => v + 1, => 0, }",
        "match 5 { v: int => { v }, }",
        "if v: int = 5 { v + 1 }",
        "n := if v: int = 5 { v } else { 0 }",
        "if v: [int] = [7] { }",
        "k := mut 0; while v: int = src(k) { k += 1; }",
        "for v in [1, 2]~ { v + 1 }",
        "{ v := 5; v + 1 }",
        "n := { v := 5; v }",
        "if true { v := 5; }",
        "loop { v := 5; break; }",
        "g := (v: int) -> int { return v + 1; }; g(1)",
        "m := mod { v := 5; }",
        "(() { v := 5; })()",
        "[1]~ @ (v: int) -> int { return v; } $]",
        "{ (v, w) := (5, 6); }",
        "[1, 2]~ $ 0 (v: int, w: int) -> int { return v + w; }",
        "eqvw := (v: any, w: any) -> bool { return v == w; }; eqvw(1, 2)",
    ];
    for c in 0..CTORS.len() {
        for b in binders {
            let src = "src := (k: mut int) -> int|string { if *k < 2 { return *k; } return \"end\"; }; ";
            cases.push(json!({"kind": "identity", "program": format!("{src}v := {}; d := v; {b}; (v == d, v != d, d == v)", CTORS[c]), "same": true}));
            cases.push(json!({"kind": "identity", "program": format!("{src}h := () -> any {{ v := {}; d := v; {b}; return (v == d, v != d, d == v); }}; h()", CTORS[c]), "same": true}));
            cases.push(json!({"kind": "identity", "program": format!("{src}v := {}; cs := [v]; {b}; (cs[0] == v, cs[0] != v, v == cs[0])", CTORS[c]), "same": true}));
        }
    }
    for (inputs, same) in IDENTITY_SESSIONS {
        cases.push(json!({"kind": "identity-session", "inputs": inputs, "same": same}));
    }
    // every pair of ways of handing one object on, for every kind of object, compared in every way
    for c in 0..CTORS.len() {
        for pa in 0..ALIAS_PATHS {
            for pb in 0..ALIAS_PATHS {
                cases.push(json!({"kind": "identity", "ctors": [c, c], "aliases": [[0, pa], [0, pb], [1, pb]], "l": 0, "r": 1, "how": (pa + pb) % 6}));
                cases.push(json!({"kind": "identity", "ctors": [c, c], "aliases": [[0, pa], [0, pb], [1, pb]], "l": 0, "r": 2, "how": (pa + 2 * pb) % 6}));
            }
        }
    }
    session.set_extra("basis_values", json!(basis.len()));
    session.set_extra("provenance_paths", json!(PATHS));
    if !session.stopped() {
        session.run_enum(&C19, cases);
    }
    if !session.stopped() {
        session.run_tapes(&C19, session.tier.of(30_000, 1_500_000), 120, 0);
    }
    session.finish(
        "pairs (x, y) of first-order values (ints, floats incl. NaN / signed zeros / near-equal values, strings, bools, (), arrays, tuples, structs; nesting <= 3) with equal or nearly equal content (one element changed, int vs float, array vs tuple, extra field ...), each built along one of 26 provenance paths (literal, + concatenation incl. with [], slices, $], partition halves, ? p, ? T, @, [v; n] incl. n = 0, through any-typed functions / union-typed ifs / array, tuple, struct, cell, closure, reduce, for-loop, match-binding positions, string operations); compared with ==, != (both operand orders), as match value candidates, bound to names, through any-typed run-time positions and nested inside arrays/tuples/structs; oracle = structural equality of the JSON models (IEEE for floats, kinds distinct), != its negation, symmetry; a value compared with itself through one name (top level, constant, inside a function body) is equal to itself exactly when it contains no NaN. Identity part: function values, cells and iterators created by 8 kinds of expressions (literals, closure / cell factories, native iterators), handed on along 10 alias paths (any-typed function, array element, tuple component, struct field, closure result, cell content, union-typed if, map result, match binding), compared by ==, !=, inside arrays / tuples / structs, as match value arms, inside function bodies: equal exactly when both operands stem from one creation (all pairs of paths x all kinds swept, 38 hand-written programs incl. self-reference of named functions, recursion, std functions, [f; n]). 24 basis values x all pairs of paths are swept completely. Non-trivial = equal content with different provenance; distinct by the pair of expressions.",
        false,
        &["provenance expressions are first checked to evaluate to the intended value"],
    )
}
