//! C08 — scalar operators are total and follow the documented arithmetic, on every route
//! (folded at parse time, executed at run time through the host API and through an
//! in-language call, compound assignment).
use crate::{
    canon::float_bits,
    engine::{Property, Session, Stats, Tier, Verdict, fail},
    run::{self, Outcome},
    tape::Tape,
};
use serde_json::{Value as Json, json};
use simplesl::{function::Function, variable::Variable};
use std::{cell::RefCell, collections::HashMap, sync::Arc};

pub struct C08Prop;
pub static C08: C08Prop = C08Prop;

const INT_BIN: [&str; 19] = [
    "+", "-", "*", "/", "%", "**", "<<", ">>", "&", "|", "^", "==", "!=", "<", "<=", ">", ">=", "&-", "|-",
];
// "&-" and "|-" are placeholders never used as text; the real list is built below
const INT_OPS: [&str; 17] = [
    "+", "-", "*", "/", "%", "**", "<<", ">>", "&", "|", "^", "==", "!=", "<", "<=", ">", ">=",
];
const FLOAT_OPS: [&str; 11] = ["+", "-", "*", "/", "**", "==", "!=", "<", "<=", ">", ">="];
const BOOL_OPS: [&str; 7] = ["&", "|", "^", "==", "!=", "&&", "||"];
const COMPOUND: [&str; 11] = ["+", "-", "*", "/", "%", "**", "<<", ">>", "&", "|", "^"];

pub fn int_grid() -> Vec<i64> {
    let mut g: Vec<i64> = vec![
        0, 1, -1, 2, -2, 3, -3, 7, -7, 10, 31, 32, 33, 62, 63, 64, 65, -62, -63, -64, -65,
        (1 << 31) - 1, 1 << 31, (1 << 31) + 1, -(1 << 31), (1 << 32) - 1, 1 << 32, (1 << 32) + 1, -(1 << 32),
        3037000499, 3037000500, 1 << 62, (1 << 62) - 1, -(1 << 62),
        i64::MAX, i64::MAX - 1, i64::MIN, i64::MIN + 1, i64::MIN + 2,
        0x5555_5555_5555_5555, -0x5555_5555_5555_5556, 6148914691236517206, 255, 256, -256,
    ];
    g.sort();
    g.dedup();
    g
}

pub fn float_grid() -> Vec<f64> {
    vec![
        0.0, -0.0, 5e-324, -5e-324, f64::MIN_POSITIVE, -f64::MIN_POSITIVE, 2.2250738585072009e-308,
        0.1, -0.1, 0.5, -0.5, 1.0, -1.0, 1.5, 2.0, -2.0, 3.0, 10.0, 0.3, 1e16, 9007199254740993.0,
        1e308, -1e308, f64::MAX, -f64::MAX, f64::INFINITY, f64::NEG_INFINITY, f64::NAN, 1e-7, 123456.789,
    ]
}

fn lit_int(v: i64) -> String {
    if v == i64::MIN {
        "(-9223372036854775807 - 1)".into()
    } else if v < 0 {
        format!("(-{})", -(v as i128))
    } else {
        v.to_string()
    }
}

pub fn lit_float(f: f64) -> String {
    if f.is_nan() {
        "(0.0/0.0)".into()
    } else if f == f64::INFINITY {
        "(1.0/0.0)".into()
    } else if f == f64::NEG_INFINITY {
        "(-1.0/0.0)".into()
    } else if f.is_sign_negative() {
        format!("(-{:?})", -f)
    } else {
        format!("{f:?}")
    }
}

#[derive(Clone, Debug, PartialEq)]
enum Exp {
    Int(i64),
    Float(u64),
    Bool(bool),
    Err(&'static str),
}

impl Exp {
    fn show(&self) -> String {
        match self {
            Exp::Int(i) => format!("int {i}"),
            Exp::Float(b) => format!("float {:?}", f64::from_bits(*b)),
            Exp::Bool(b) => format!("bool {b}"),
            Exp::Err(k) => format!("error {k}"),
        }
    }
}

fn wrap(x: i128) -> i64 {
    x as i64 // two's complement truncation = reduction mod 2^64
}

fn pow_mod(base: i64, mut exp: u64) -> i64 {
    // square and multiply over Z/2^64, with the full exponent
    let mut result: u64 = 1;
    let mut b = base as u64;
    while exp > 0 {
        if exp & 1 == 1 {
            result = result.wrapping_mul(b);
        }
        b = b.wrapping_mul(b);
        exp >>= 1;
    }
    result as i64
}

fn oracle_int(op: &str, a: i64, b: i64) -> Exp {
    let (x, y) = (a as i128, b as i128);
    match op {
        "+" => Exp::Int(wrap(x + y)),
        "-" => Exp::Int(wrap(x - y)),
        "*" => Exp::Int(wrap(x * y)),
        "/" => {
            if b == 0 {
                Exp::Err("ZeroDivision")
            } else {
                Exp::Int(wrap(x / y)) // i128 division truncates toward zero
            }
        }
        "%" => {
            if b == 0 {
                Exp::Err("ZeroModulo")
            } else {
                Exp::Int(wrap(x % y)) // sign of the dividend
            }
        }
        "**" => {
            if b < 0 {
                Exp::Err("NegativeExponent")
            } else {
                Exp::Int(pow_mod(a, b as u64))
            }
        }
        "<<" => {
            if !(0..=63).contains(&b) {
                Exp::Err("OverflowShift")
            } else {
                Exp::Int(((a as u64) << b) as i64)
            }
        }
        ">>" => {
            if !(0..=63).contains(&b) {
                Exp::Err("OverflowShift")
            } else {
                // arithmetic shift = floor division by 2^b
                Exp::Int(wrap(x.div_euclid(1i128 << b)))
            }
        }
        "&" => Exp::Int(a & b),
        "|" => Exp::Int(a | b),
        "^" => Exp::Int(a ^ b),
        "==" => Exp::Bool(a == b),
        "!=" => Exp::Bool(a != b),
        "<" => Exp::Bool(x < y),
        "<=" => Exp::Bool(x <= y),
        ">" => Exp::Bool(x > y),
        ">=" => Exp::Bool(x >= y),
        _ => unreachable!(),
    }
}

/// the language can only produce the quiet NaN (`0.0/0.0`); a signalling NaN from the random bit
/// patterns is replaced by it, so that the value in the program text, the value handed to the
/// host API and the oracle's operand are one and the same (pow(sNaN, 0) and pow(qNaN, 0) differ)
fn quiet(f: f64) -> f64 {
    if f.is_nan() { f64::NAN } else { f }
}

fn oracle_float(op: &str, a: f64, b: f64) -> Exp {
    let f = |v: f64| Exp::Float(float_bits(v));
    match op {
        "+" => f(a + b),
        "-" => f(a - b),
        "*" => f(a * b),
        "/" => f(a / b),
        "**" => f(a.powf(b)),
        "==" => Exp::Bool(a == b),
        "!=" => Exp::Bool(a != b),
        "<" => Exp::Bool(a < b),
        "<=" => Exp::Bool(a <= b),
        ">" => Exp::Bool(a > b),
        ">=" => Exp::Bool(a >= b),
        _ => unreachable!(),
    }
}

fn oracle_bool(op: &str, a: bool, b: bool) -> Exp {
    Exp::Bool(match op {
        "&" | "&&" => a && b,
        "|" | "||" => a || b,
        "^" => a != b,
        "==" => a == b,
        "!=" => a != b,
        _ => unreachable!(),
    })
}

fn is_cmp(op: &str) -> bool {
    matches!(op, "==" | "!=" | "<" | "<=" | ">" | ">=")
}

thread_local! {
    static FUNS: RefCell<HashMap<String, Option<Arc<Function>>>> = RefCell::new(HashMap::new());
}

/// the function value `(a: T, b: T) -> R { return a op b; }`, built once per thread
fn function_for(text: &str) -> Option<Arc<Function>> {
    FUNS.with(|f| {
        f.borrow_mut()
            .entry(text.to_string())
            .or_insert_with(|| match run::run_text(text, false) {
                Outcome::Value(Variable::Function(f)) => Some(f),
                _ => None,
            })
            .clone()
    })
}

fn outcome_matches(o: &Outcome, exp: &Exp, folded: bool) -> bool {
    match (o, exp) {
        (Outcome::Value(Variable::Int(v)), Exp::Int(e)) => v == e,
        (Outcome::Value(Variable::Float(v)), Exp::Float(e)) => float_bits(*v) == *e,
        (Outcome::Value(Variable::Bool(v)), Exp::Bool(e)) => v == e,
        (Outcome::ExecError(k), Exp::Err(e)) => k == e,
        // a constant operation that always fails may be reported when the program is parsed
        (Outcome::Rejected(k), Exp::Err(e)) => folded && k == e,
        _ => false,
    }
}

fn classes_int(op: &str, a: i64, b: i64, out: &mut Vec<&'static str>) {
    let (x, y) = (a as i128, b as i128);
    let overflow = match op {
        "+" => !(i64::MIN as i128..=i64::MAX as i128).contains(&(x + y)),
        "-" => !(i64::MIN as i128..=i64::MAX as i128).contains(&(x - y)),
        "*" => !(i64::MIN as i128..=i64::MAX as i128).contains(&(x * y)),
        _ => false,
    };
    if overflow {
        out.push("int-overflow-wrap");
    }
    if (op == "/" || op == "%") && a == i64::MIN && b == -1 {
        out.push("min-div-minus-one");
    }
    if (op == "/" || op == "%") && b == 0 {
        out.push("zero-divisor");
    }
    if (op == "/" || op == "%") && (a < 0) != (b < 0) && b != 0 {
        out.push("mixed-sign-division");
    }
    if (op == "<<" || op == ">>") && (b == 63 || b == 64 || b == -1 || b == 0) {
        out.push("shift-edge");
    }
    if op == ">>" && a < 0 {
        out.push("negative-right-shift");
    }
    if op == "**" && b < 0 {
        out.push("negative-exponent");
    }
    if op == "**" && b >= (1 << 32) {
        out.push("exponent>=2^32");
    }
    if op == "**" && b >= 64 && b < (1 << 32) {
        out.push("pow-wrap");
    }
    if is_cmp(op) && (a < 0) != (b < 0) {
        out.push("signed-comparison");
    }
    if a == i64::MIN || b == i64::MIN || a == i64::MAX || b == i64::MAX {
        out.push("extreme-operand");
    }
}

fn classes_float(a: f64, b: f64, out: &mut Vec<&'static str>) {
    for v in [a, b] {
        if v.is_nan() {
            out.push("nan");
        } else if v.is_infinite() {
            out.push("infinity");
        } else if v == 0.0 {
            out.push(if v.is_sign_negative() { "negative-zero" } else { "zero" });
        } else if v.is_subnormal() {
            out.push("subnormal");
        }
    }
}

struct Routes {
    folded: String,
    function: String,
    call: String,
    compound: Option<(String, String)>, // (program, initial literal)
    /// one operand a parameter, the other a literal (partially constant operations)
    mixed: Vec<String>,
}

impl Property for C08Prop {
    fn id(&self) -> &'static str {
        "C08"
    }

    fn gen_case(&self, tape: &mut Tape, _tier: Tier) -> Option<Json> {
        // random operands, biased towards the regions where the operators change behaviour
        let kind = tape.weighted(&[6, 3, 1]);
        Some(match kind {
            0 => {
                let op = *tape.pick(&INT_OPS);
                let a = gen_int(tape);
                let b = match op {
                    "<<" | ">>" => {
                        if tape.chance(3, 4) { tape.range(-2, 66) } else { gen_int(tape) }
                    }
                    "**" => {
                        if tape.chance(3, 4) { tape.range(-2, 70) } else { gen_int(tape) }
                    }
                    _ => gen_int(tape),
                };
                json!({"kind": "int", "op": op, "a": a, "b": b})
            }
            1 => {
                let op = *tape.pick(&FLOAT_OPS);
                let a = gen_float(tape);
                let b = gen_float(tape);
                json!({"kind": "float", "op": op, "a": a.to_bits(), "b": b.to_bits()})
            }
            _ => {
                if tape.bool() {
                    let a = gen_int(tape);
                    json!({"kind": "int1", "op": *tape.pick(&["-", "!"]), "a": a})
                } else {
                    let a = gen_float(tape);
                    json!({"kind": "float1", "op": "-", "a": a.to_bits()})
                }
            }
        })
    }

    fn check_case(&self, case: &Json, stats: &mut Stats) -> Verdict {
        let kind = case["kind"].as_str().unwrap_or("");
        let op = case["op"].as_str().unwrap_or("");
        let key = case.to_string();
        let mut classes: Vec<&'static str> = vec![];
        let (expected, routes, args): (Exp, Routes, Vec<Variable>) = match kind {
            "int" => {
                let (a, b) = (case["a"].as_i64().unwrap(), case["b"].as_i64().unwrap());
                classes_int(op, a, b, &mut classes);
                let ret = if is_cmp(op) { "bool" } else { "int" };
                let function = format!("(a: int, b: int) -> {ret} {{ return a {op} b; }}");
                let compound = COMPOUND.contains(&op).then(|| {
                    (format!("c := mut int {}; c {op}= {}", lit_int(a), lit_int(b)), lit_int(a))
                });
                (
                    oracle_int(op, a, b),
                    Routes {
                        folded: format!("{} {op} {}", lit_int(a), lit_int(b)),
                        call: format!("f := {function}; f({}, {})", lit_int(a), lit_int(b)),
                        mixed: vec![
                            format!("f := (a: int) -> {ret} {{ return a {op} {}; }}; f({})", lit_int(b), lit_int(a)),
                            format!("f := (b: int) -> {ret} {{ return {} {op} b; }}; f({})", lit_int(a), lit_int(b)),
                            format!("a := mut int {}; *a {op} {}", lit_int(a), lit_int(b)),
                        ],
                        function,
                        compound,
                    },
                    vec![Variable::Int(a), Variable::Int(b)],
                )
            }
            "float" => {
                let (a, b) = (
                    quiet(f64::from_bits(case["a"].as_u64().unwrap())),
                    quiet(f64::from_bits(case["b"].as_u64().unwrap())),
                );
                classes_float(a, b, &mut classes);
                let ret = if is_cmp(op) { "bool" } else { "float" };
                let function = format!("(a: float, b: float) -> {ret} {{ return a {op} b; }}");
                let compound = (COMPOUND.contains(&op) && !matches!(op, "%" | "<<" | ">>" | "&" | "|" | "^")).then(|| {
                    (format!("c := mut float {}; c {op}= {}", lit_float(a), lit_float(b)), lit_float(a))
                });
                (
                    oracle_float(op, a, b),
                    Routes {
                        folded: format!("{} {op} {}", lit_float(a), lit_float(b)),
                        call: format!("f := {function}; f({}, {})", lit_float(a), lit_float(b)),
                        mixed: vec![
                            format!("f := (a: float) -> {ret} {{ return a {op} {}; }}; f({})", lit_float(b), lit_float(a)),
                            format!("f := (b: float) -> {ret} {{ return {} {op} b; }}; f({})", lit_float(a), lit_float(b)),
                        ],
                        function,
                        compound,
                    },
                    vec![Variable::Float(a), Variable::Float(b)],
                )
            }
            "bool" => {
                let (a, b) = (case["a"].as_bool().unwrap(), case["b"].as_bool().unwrap());
                classes.push("bool-table");
                let function = format!("(a: bool, b: bool) -> bool {{ return a {op} b; }}");
                let compound = matches!(op, "&" | "|" | "^")
                    .then(|| (format!("c := mut bool {a}; c {op}= {b}"), a.to_string()));
                (
                    oracle_bool(op, a, b),
                    Routes {
                        folded: format!("{a} {op} {b}"),
                        call: format!("f := {function}; f({a}, {b})"),
                        mixed: vec![
                            format!("f := (a: bool) -> bool {{ return a {op} {b}; }}; f({a})"),
                            format!("f := (b: bool) -> bool {{ return {a} {op} b; }}; f({b})"),
                        ],
                        function,
                        compound,
                    },
                    vec![Variable::Bool(a), Variable::Bool(b)],
                )
            }
            "int1" => {
                let a = case["a"].as_i64().unwrap();
                if a == i64::MIN || a == i64::MAX {
                    classes.push("extreme-operand");
                }
                let expected = if op == "-" { Exp::Int(wrap(-(a as i128))) } else { Exp::Int(!a) };
                let function = format!("(a: int) -> int {{ return {op}a; }}");
                (
                    expected,
                    Routes {
                        folded: format!("{op}{}", lit_int(a)),
                        call: format!("f := {function}; f({})", lit_int(a)),
                        function,
                        compound: None,
                        mixed: vec![],
                    },
                    vec![Variable::Int(a)],
                )
            }
            "float1" => {
                let a = quiet(f64::from_bits(case["a"].as_u64().unwrap()));
                classes_float(a, 1.0, &mut classes);
                let function = "(a: float) -> float { return -a; }".to_string();
                (
                    Exp::Float(float_bits(-a)),
                    Routes {
                        folded: format!("-{}", lit_float(a)),
                        call: format!("f := {function}; f({})", lit_float(a)),
                        function,
                        compound: None,
                        mixed: vec![],
                    },
                    vec![Variable::Float(a)],
                )
            }
            "bool1" => {
                let a = case["a"].as_bool().unwrap();
                classes.push("bool-table");
                let function = "(a: bool) -> bool { return !a; }".to_string();
                (
                    Exp::Bool(!a),
                    Routes {
                        folded: format!("!{a}"),
                        call: format!("f := {function}; f({a})"),
                        function,
                        compound: None,
                        mixed: vec![],
                    },
                    vec![Variable::Bool(a)],
                )
            }
            _ => return Verdict::Discard("unknown kind"),
        };
        for c in &classes {
            stats.label(c);
        }
        stats.label(&format!("op {kind} {op}"));
        if !classes.is_empty() {
            stats.nontrivial(&key);
        }
        stats.sample(8, || json!({"case": case, "folded_text": routes.folded, "expected": expected.show()}));

        // route 1: folded at parse time
        stats.eval();
        let o = run::run_text(&routes.folded, false);
        if !outcome_matches(&o, &expected, true) {
            return fail(
                format!("C08:{kind}:{op}:folded"),
                format!("folded `{}`: expected {}, got {}", routes.folded, expected.show(), o.short()),
            );
        }
        // route 2: run time, through the host API
        let Some(f) = function_for(&routes.function) else {
            return fail(
                format!("C08:{kind}:{op}:function"),
                format!("`{}` was not accepted as a function value", routes.function),
            );
        };
        stats.eval();
        run::default_budget();
        let o = match run::guarded(|| f.clone().create_call(args.clone())) {
            Ok(Ok(code)) => run::exec_guarded(&code),
            Ok(Err(e)) => Outcome::Rejected(run::error_kind(&e)),
            Err(c) => Outcome::Panic { phase: "create_call", msg: format!("{c:?}"), loc: c.sig() },
        };
        if !outcome_matches(&o, &expected, false) {
            return fail(
                format!("C08:{kind}:{op}:runtime"),
                format!("`{}` called with {:?}: expected {}, got {}", routes.function, args, expected.show(), o.short()),
            );
        }
        // route 2b: the operands are variables of the embedding interpreter (the same program text for
        // every operand pair; what the text means depends on the interpreter it is parsed against)
        if let Some(expr) = routes.function.split_once("return ").and_then(|(_, r)| r.rsplit_once(';')).map(|(e, _)| e.to_string())
            && args.len() <= 2
        {
            stats.eval();
            let mut interp = simplesl::Interpreter::without_stdlib();
            for (name, v) in ["a", "b"].iter().zip(args.iter()) {
                interp.insert((*name).into(), v.clone());
            }
            run::default_budget();
            let o = match run::parse_guarded(&interp, &expr) {
                Ok(Ok(code)) => run::exec_guarded(&code),
                Ok(Err(kind)) => Outcome::Rejected(kind),
                Err(o) => o,
            };
            if !outcome_matches(&o, &expected, true) {
                return fail(
                    format!("C08:{kind}:{op}:host-variables"),
                    format!("`{expr}` parsed against an interpreter that holds {:?} as a, b: expected {}, got {}", args, expected.show(), o.short()),
                );
            }
        }
        // route 3: run time, in-language call
        stats.eval();
        let o = run::run_text(&routes.call, false);
        if !outcome_matches(&o, &expected, false) {
            return fail(
                format!("C08:{kind}:{op}:call"),
                format!("`{}`: expected {}, got {}", routes.call, expected.show(), o.short()),
            );
        }
        // routes 3b: one operand constant, the other not (partial folding must not change anything;
        // an always-failing constant operand may be reported at parse time)
        for text in &routes.mixed {
            stats.eval();
            let o = run::run_text(text, false);
            if !outcome_matches(&o, &expected, true) {
                return fail(
                    format!("C08:{kind}:{op}:mixed"),
                    format!("`{text}`: expected {}, got {}", expected.show(), o.short()),
                );
            }
        }
        // routes 3c: the operation under a prefix operator (`!` for bool results, `-` for numbers):
        // rewriting `!(a < b)` to `a >= b` or `-(a - b)` to `b - a` is wrong for NaN / at the boundaries
        if args.len() == 2 {
            let (ty, la, lb) = match (&args[0], &args[1]) {
                (Variable::Int(a), Variable::Int(b)) => ("int", lit_int(*a), lit_int(*b)),
                (Variable::Float(a), Variable::Float(b)) => ("float", lit_float(*a), lit_float(*b)),
                (Variable::Bool(a), Variable::Bool(b)) => ("bool", a.to_string(), b.to_string()),
                _ => unreachable!(),
            };
            let (prefix, ret, wrapped) = match &expected {
                Exp::Bool(r) => ("!", "bool", Exp::Bool(!r)),
                Exp::Int(r) => ("-", "int", Exp::Int(wrap(-(*r as i128)))),
                Exp::Float(r) => ("-", "float", Exp::Float(float_bits(-f64::from_bits(*r)))),
                Exp::Err(k) => (if is_cmp(op) || ty == "bool" { "!" } else { "-" }, if is_cmp(op) || ty == "bool" { "bool" } else { ty }, Exp::Err(k)),
            };
            for (text, may_fail_at_parse) in [
                (format!("f := (a: {ty}, b: {ty}) -> {ret} {{ return {prefix}(a {op} b); }}; f({la}, {lb})"), false),
                (format!("f := (a: {ty}) -> {ret} {{ return {prefix}(a {op} {lb}); }}; f({la})"), true),
                (format!("f := (b: {ty}) -> {ret} {{ return {prefix}({la} {op} b); }}; f({lb})"), true),
                (format!("{prefix}({la} {op} {lb})"), true),
            ] {
                stats.eval();
                let o = run::run_text(&text, false);
                if !outcome_matches(&o, &wrapped, may_fail_at_parse) {
                    return fail(
                        format!("C08:{kind}:{op}:under-prefix"),
                        format!("`{text}`: expected {}, got {}", wrapped.show(), o.short()),
                    );
                }
            }
        }
        // route 1b: a negative left operand written without parentheses, `-2 ** 2`: the prefix minus binds
        // tighter than every infix operator, so this is the same operation on the same operands
        if args.len() == 2 {
            let bare = match (&args[0], &args[1]) {
                (Variable::Int(a), Variable::Int(b)) if *a < 0 && *a != i64::MIN => Some(format!("-{} {op} {}", -(*a as i128), lit_int(*b))),
                (Variable::Float(a), Variable::Float(b)) if a.is_sign_negative() && a.is_finite() => Some(format!("-{:?} {op} {}", -a, lit_float(*b))),
                _ => None,
            };
            if let Some(text) = bare {
                for text in [text.clone(), text.replace(' ', "")] {
                    stats.eval();
                    let o = run::run_text(&text, false);
                    if !outcome_matches(&o, &expected, true) {
                        return fail(format!("C08:{kind}:{op}:bare-negative"), format!("`{text}`: expected {}, got {}", expected.show(), o.short()));
                    }
                }
            }
        }
        // route 1c: the operation as a statement whose value is discarded: it is still performed (a failing
        // one fails), and two of the same operator in a row group left to right
        if args.len() == 2 {
            let (ty, la, lb) = match (&args[0], &args[1]) {
                (Variable::Int(a), Variable::Int(b)) => ("int", lit_int(*a), lit_int(*b)),
                (Variable::Float(a), Variable::Float(b)) => ("float", lit_float(*a), lit_float(*b)),
                (Variable::Bool(a), Variable::Bool(b)) => ("bool", a.to_string(), b.to_string()),
                _ => unreachable!(),
            };
            let after = match &expected {
                Exp::Err(k) => Exp::Err(k),
                _ => Exp::Int(7),
            };
            stats.label("operation as a discarded statement");
            for text in [
                format!("r := {{ {la} {op} {lb}; 7 }}; r"),
                format!("f := () -> int {{ {la} {op} {lb}; return 7; }}; f()"),
                format!("f := (a: {ty}, b: {ty}) -> int {{ a {op} b; return 7; }}; f({la}, {lb})"),
                format!("f := (a: {ty}) -> int {{ if true {{ a {op} {lb}; }}; return 7; }}; f({la})"),
                // ... and as an element that is not the one taken out of a compound written in place
                format!("f := (a: {ty}, b: {ty}) -> int {{ return (a {op} b, 7).1; }}; f({la}, {lb})"),
                format!("f := (a: {ty}, b: {ty}) -> int {{ return (7, a {op} b).0; }}; f({la}, {lb})"),
                format!("f := (a: {ty}, b: {ty}) -> int {{ return struct{{u := a {op} b, v := 7}}.v; }}; f({la}, {lb})"),
                format!("f := (a: {ty}, b: {ty}) -> int {{ return [(a {op} b, 7), (a {op} b, 7)][1].1; }}; f({la}, {lb})"),
                format!("f := (b: {ty}) -> int {{ return ((0, {la} {op} b), 7).1; }}; f({lb})"),
            ] {
                stats.eval();
                let o = run::run_text(&text, false);
                if !outcome_matches(&o, &after, true) {
                    return fail(format!("C08:{kind}:{op}:discarded"), format!("`{text}`: expected {}, got {}", after.show(), o.short()));
                }
            }
            // `a op b op b` is `(a op b) op b`
            let twice = match (&expected, &args[1]) {
                (Exp::Int(x), Variable::Int(b)) if !is_cmp(op) => Some(oracle_int(op, *x, *b)),
                (Exp::Float(x), Variable::Float(b)) if !is_cmp(op) => Some(oracle_float(op, f64::from_bits(*x), *b)),
                (Exp::Bool(x), Variable::Bool(b)) if kind == "bool" => Some(oracle_bool(op, *x, *b)),
                (Exp::Err(k), _) if !is_cmp(op) => Some(Exp::Err(k)),
                _ => None,
            };
            if let Some(want) = twice {
                let ret = if kind == "bool" { "bool" } else { ty };
                for text in [
                    format!("{la} {op} {lb} {op} {lb}"),
                    format!("f := (a: {ty}, b: {ty}) -> {ret} {{ return a {op} b {op} b; }}; f({la}, {lb})"),
                    format!("f := (a: {ty}) -> {ret} {{ return a {op} {lb} {op} {lb}; }}; f({la})"),
                ] {
                    stats.eval();
                    let o = run::run_text(&text, false);
                    if !outcome_matches(&o, &want, true) {
                        return fail(format!("C08:{kind}:{op}:twice"), format!("`{text}`: expected {}, got {}", want.show(), o.short()));
                    }
                }
            }
        }
        // routes 3d: both operands are one and the same variable (rewriting `x == x` to true, `x - x`
        // to 0 or `x / x` to 1 is wrong for NaN, infinities and zero)
        if args.len() == 2 {
            let same = match (&args[0], &args[1]) {
                (Variable::Int(a), Variable::Int(b)) if a == b => Some(("int", lit_int(*a))),
                (Variable::Float(a), Variable::Float(b)) if float_bits(*a) == float_bits(*b) => Some(("float", lit_float(*a))),
                (Variable::Bool(a), Variable::Bool(b)) if a == b => Some(("bool", a.to_string())),
                _ => None,
            };
            if let Some((ty, la)) = same {
                let ret = match &expected {
                    Exp::Bool(_) => "bool",
                    Exp::Int(_) => "int",
                    Exp::Float(_) => "float",
                    Exp::Err(_) => if is_cmp(op) || ty == "bool" { "bool" } else { ty },
                };
                stats.label("both operands one variable");
                for text in [
                    format!("f := (a: {ty}) -> {ret} {{ return a {op} a; }}; f({la})"),
                    format!("a := *(mut {ty} {la}); a {op} a"),
                    format!("a := *(mut {ty} {la}); r := if (a {op} a) == (a {op} a) {{ a {op} a }} else {{ a {op} a }}; r"),
                    format!("a := {la}; a {op} a"),
                ] {
                    stats.eval();
                    let o = run::run_text(&text, false);
                    if !outcome_matches(&o, &expected, true) {
                        return fail(
                            format!("C08:{kind}:{op}:same-variable"),
                            format!("`{text}`: expected {}, got {}", expected.show(), o.short()),
                        );
                    }
                }
            }
        }
        // routes 3e: an operand that fails: the documented error of the failing operand is the outcome
        // of the whole operation whatever the other operand is (only `&&` and `||` may leave their right
        // operand unevaluated)
        if matches!(kind, "int" | "bool") && args.len() == 2 {
            let (ty, la, lb) = match (&args[0], &args[1]) {
                (Variable::Int(a), Variable::Int(b)) => ("int", lit_int(*a), lit_int(*b)),
                (Variable::Bool(a), Variable::Bool(b)) => ("bool", a.to_string(), b.to_string()),
                _ => unreachable!(),
            };
            let ret = if is_cmp(op) || ty == "bool" { "bool" } else { "int" };
            let (bad_div, bad_mod) = if ty == "int" { ("(7 / z)", "(7 % z)") } else { ("(7 / z == 1)", "(7 % z == 1)") };
            let skipped = match (op, &args[0]) {
                ("&&", Variable::Bool(false)) => Some(Exp::Bool(false)),
                ("||", Variable::Bool(true)) => Some(Exp::Bool(true)),
                _ => None,
            };
            let right_fails = skipped.clone().unwrap_or(Exp::Err("ZeroDivision"));
            stats.label("an operand that fails");
            for (text, want) in [
                (format!("f := (a: {ty}, z: int) -> {ret} {{ return a {op} {bad_div}; }}; f({la}, 0)"), right_fails.clone()),
                (format!("f := (z: int) -> {ret} {{ return {la} {op} {bad_div}; }}; f(0)"), right_fails.clone()),
                (format!("f := (b: {ty}, z: int) -> {ret} {{ return {bad_mod} {op} b; }}; f({lb}, 0)"), Exp::Err("ZeroModulo")),
                (format!("f := (z: int) -> {ret} {{ return {bad_mod} {op} {lb}; }}; f(0)"), Exp::Err("ZeroModulo")),
                (format!("f := (z: int) -> {ret} {{ return {bad_mod} {op} {bad_div}; }}; f(0)"), Exp::Err("ZeroModulo")),
            ] {
                stats.eval();
                let o = run::run_text(&text, false);
                // (a constant right operand that makes the outer operation fail whatever the left one is may
                // be reported when the program is read: then the outer operation's own error is permitted)
                let outer_at_parse = matches!(&o, Outcome::Rejected(k) if run::EXEC_ERROR_KINDS.contains(&k.as_str())) && matches!(&expected, Exp::Err(e) if matches!(&o, Outcome::Rejected(k) if k == e));
                if !outcome_matches(&o, &want, false) && !outer_at_parse {
                    return fail(
                        format!("C08:{kind}:{op}:failing-operand"),
                        format!("`{text}`: expected {}, got {}", want.show(), o.short()),
                    );
                }
            }
        }
        // routes 3f: two prefix operators, one applied to the result of the other (`-(!x)` is x + 1,
        // `!(-x)` is x - 1; only a prefix operator applied twice gives the operand back)
        if args.len() == 1 {
            let (ty, la, nested): (&str, String, Vec<(&str, &str, Exp)>) = match &args[0] {
                Variable::Int(a) => (
                    "int",
                    lit_int(*a),
                    vec![
                        ("-", "-", Exp::Int(*a)),
                        ("!", "!", Exp::Int(*a)),
                        ("-", "!", Exp::Int(wrap(-((!*a) as i128)))),
                        ("!", "-", Exp::Int(!wrap(-(*a as i128)))),
                    ],
                ),
                Variable::Float(a) => ("float", lit_float(*a), vec![("-", "-", Exp::Float(float_bits(*a)))]),
                Variable::Bool(a) => ("bool", a.to_string(), vec![("!", "!", Exp::Bool(*a))]),
                _ => unreachable!(),
            };
            stats.label("nested prefix operators");
            for (outer, inner, want) in nested {
                for text in [
                    format!("f := (a: {ty}) -> {ty} {{ return {outer}({inner}a); }}; f({la})"),
                    format!("a := *(mut {ty} {la}); {outer}({inner}a)"),
                    format!("f := (a: {ty}) -> {ty} {{ b := {inner}a; return {outer}b; }}; f({la})"),
                    format!("{outer}({inner}{la})"),
                ] {
                    stats.eval();
                    let o = run::run_text(&text, false);
                    if !outcome_matches(&o, &want, true) {
                        return fail(
                            format!("C08:{kind}:{outer}{inner}:nested-prefix"),
                            format!("`{text}`: expected {}, got {}", want.show(), o.short()),
                        );
                    }
                }
            }
        }
        // route 4: compound assignment (value yielded, content afterwards, unchanged on error)
        if let Some((program, _initial)) = &routes.compound {
            stats.eval();
            run::default_budget();
            let mut interp = run::interpreter(false);
            let o = match run::parse_guarded(&interp, program) {
                Ok(Ok(code)) => run::exec_unscoped_guarded(&code, &mut interp),
                Ok(Err(k)) => Outcome::Rejected(k),
                Err(o) => o,
            };
            if !outcome_matches(&o, &expected, false) {
                return fail(
                    format!("C08:{kind}:{op}:compound"),
                    format!("`{program}`: expected {}, got {}", expected.show(), o.short()),
                );
            }
            let content = match interp.get_variable("c") {
                Some(Variable::Mut(m)) => m.variable.read().ok().map(|g| g.clone()),
                _ => None,
            };
            let want = match &expected {
                Exp::Err(_) => match &args[0] {
                    Variable::Int(a) => Exp::Int(*a),
                    Variable::Float(a) => Exp::Float(float_bits(*a)),
                    Variable::Bool(a) => Exp::Bool(*a),
                    _ => unreachable!(),
                },
                e => e.clone(),
            };
            let got = content.map(Outcome::Value).unwrap_or(Outcome::Rejected("cell c not found".into()));
            if !outcome_matches(&got, &want, false) {
                return fail(
                    format!("C08:{kind}:{op}:compound-cell"),
                    format!("after `{program}` the cell holds {}, expected {}", got.short(), want.show()),
                );
            }
            // the compound assignment as an element that is not the one taken out of a tuple written in
            // place: it is performed all the same (its value is the content read right after it)
            if let Some((decl, stmt)) = program.split_once("; ") {
                for text in [format!("{decl}; r := ({stmt}, *c).1; r"), format!("{decl}; f := () -> any {{ return (0, {stmt}, *c).2; }}; f()")] {
                    stats.eval();
                    let o = run::run_text(&text, false);
                    if !outcome_matches(&o, &expected, false) {
                        return fail(
                            format!("C08:{kind}:{op}:compound-in-tuple"),
                            format!("`{text}`: expected {}, got {}", expected.show(), o.short()),
                        );
                    }
                }
            }
        }
        Verdict::Pass
    }
}

fn gen_int(tape: &mut Tape) -> i64 {
    match tape.weighted(&[3, 3, 2, 2]) {
        0 => tape.range(-20, 20),
        1 => {
            let g = int_grid();
            *tape.pick(&g)
        }
        2 => {
            // near a power of two
            let p = tape.range(0, 63);
            let d = tape.range(-2, 2);
            let base = if p == 63 { i64::MIN } else { 1i64 << p };
            let v = base.wrapping_add(d);
            if tape.bool() { v.wrapping_neg() } else { v }
        }
        _ => tape.u64() as i64,
    }
}

fn gen_float(tape: &mut Tape) -> f64 {
    match tape.weighted(&[3, 3, 2, 2]) {
        0 => tape.range(-8, 8) as f64 * 0.5,
        1 => {
            let g = float_grid();
            *tape.pick(&g)
        }
        2 => {
            let m = tape.range(-1000, 1000) as f64;
            let e = tape.range(-320, 308) as i32;
            m * 10f64.powi(e)
        }
        _ => f64::from_bits(tape.u64()),
    }
}

pub fn run(session: &Session) -> i32 {
    let _ = INT_BIN;
    crate::engine::run_regressions(session, &C08);
    // exhaustive boundary grids
    let mut cases = vec![];
    let ig = int_grid();
    for op in INT_OPS {
        for a in &ig {
            for b in &ig {
                cases.push(json!({"kind": "int", "op": op, "a": a, "b": b}));
            }
        }
    }
    for a in &ig {
        cases.push(json!({"kind": "int1", "op": "-", "a": a}));
        cases.push(json!({"kind": "int1", "op": "!", "a": a}));
    }
    let fg = float_grid();
    for op in FLOAT_OPS {
        for a in &fg {
            for b in &fg {
                cases.push(json!({"kind": "float", "op": op, "a": a.to_bits(), "b": b.to_bits()}));
            }
        }
    }
    for a in &fg {
        cases.push(json!({"kind": "float1", "op": "-", "a": a.to_bits()}));
    }
    for op in BOOL_OPS {
        for a in [false, true] {
            for b in [false, true] {
                cases.push(json!({"kind": "bool", "op": op, "a": a, "b": b}));
            }
        }
    }
    for a in [false, true] {
        cases.push(json!({"kind": "bool1", "op": "!", "a": a}));
    }
    session.set_extra("grid_cases", json!(cases.len()));
    session.set_extra("int_grid", json!(ig));
    if !session.stopped() {
        session.run_enum(&C08, cases);
    }
    if !session.stopped() {
        session.run_tapes(&C08, session.tier.of(200_000, 20_000_000), 12, 0);
    }
    session.finish(
        "every pair of a 45-value i64 boundary grid and of a 30-value f64 grid for every scalar operator (exhaustive), plus tape-generated random operands biased to powers of two, small shift/exponent values and raw bit patterns; each case runs four routes (folded literal expression, function value called through Function::create_call, in-language call, compound assignment incl. cell content afterwards) against an i128 / IEEE oracle. Non-trivial = operand pair in a boundary class (wrap-around, MIN/-1, zero divisor, shift 63/64/-1, exponent>=2^32, signed comparison, signed zero, NaN, infinity, subnormal, extreme operand, bool table); distinct by (operator, operands).",
        false,
        &["float ** is compared with the platform's pow (IEEE 754 does not fix its last bit)", "grids are swept completely; the space of all i64/f64 pairs is sampled"],
    )
}
