//! C17 — embedding API: REPL equals batch; exec is isolated and repeatable; create_call
//! accepts exactly what an in-language call accepts.
use crate::{
    canon,
    engine::{Property, Session, Stats, Tier, Verdict, fail},
    exec,
    genr::{
        ast::{Hide, Printer},
        case,
        matrix::{self, CATALOGUE, UNARY},
        prog::Profile,
        refi,
    },
    run::{self, Outcome},
    tape::Tape,
};
use serde_json::{Value as Json, json};
use simplesl::variable::Variable;
use std::{collections::HashSet, sync::Arc};

pub struct C17Prop;
pub static C17: C17Prop = C17Prop;

fn shown(o: &Outcome) -> String {
    match o {
        Outcome::Value(v) => format!("value {}", canon::canon(v).show()),
        o => o.short(),
    }
}

/// canonical view of the named top-level variables of an interpreter (shared cell table)
fn state(interp: &simplesl::Interpreter, names: &[String]) -> String {
    let mut items = vec![];
    let mut missing = vec![];
    for n in names {
        match interp.get_variable(n) {
            Some(v) => items.push(v.clone()),
            None => missing.push(n.clone()),
        }
    }
    if !missing.is_empty() {
        return format!("<not bound: {}>", missing.join(", "));
    }
    items.push(Variable::Int(0));
    items.push(Variable::Int(0));
    canon::canon(&Variable::Tuple(items.into())).show()
}

fn collect_cells(v: &Variable, out: &mut HashSet<usize>, depth: usize) {
    if depth > 30 {
        return;
    }
    match v {
        Variable::Array(a) => a.iter().for_each(|x| collect_cells(x, out, depth + 1)),
        Variable::Tuple(t) => t.iter().for_each(|x| collect_cells(x, out, depth + 1)),
        Variable::Struct(m) => m.values().for_each(|x| collect_cells(x, out, depth + 1)),
        Variable::Mut(m) => {
            if out.insert(Arc::as_ptr(m) as usize)
                && let Ok(c) = m.variable.read()
            {
                let c = c.clone();
                collect_cells(&c, out, depth + 1);
            }
        }
        _ => {}
    }
}

impl Property for C17Prop {
    fn id(&self) -> &'static str {
        "C17"
    }

    fn gen_case(&self, tape: &mut Tape, _tier: Tier) -> Option<Json> {
        if tape.chance(1, 4) {
            // create_call vs in-language call: a one-parameter matrix function and a value of any catalogue type
            let x = tape.below(CATALOGUE.len());
            let t = tape.below(UNARY.len());
            let y = tape.below(CATALOGUE.len());
            if CATALOGUE[y].values.is_empty() {
                return None;
            }
            let v = tape.below(CATALOGUE[y].values.len());
            return Some(json!({"kind": "call", "program": matrix::unary_program(CATALOGUE[x].ty, UNARY[t]), "args": [CATALOGUE[y].values[v]], "arity": tape.weighted(&[6, 1, 1])}));
        }
        let program = case::generate(tape, Profile::GENERAL.with_free_dispatch());
        let hide = match tape.below(3) {
            0 => Hide::None,
            1 => Hide::All,
            _ => Hide::Mask(tape.u64()),
        };
        let printer = Printer::new(hide);
        // top-level statements one by one, with the names they declare
        let mut stmts: Vec<(String, Vec<String>)> = vec![];
        for (text, name) in case::prelude_statements(&program) {
            stmts.push((text, vec![name]));
        }
        for s in &program.body {
            stmts.push((format!("{};", printer.stmt(s)), refi::declared_names(s)));
        }
        // split into REPL inputs of 1-3 statements
        let mut inputs: Vec<Json> = vec![];
        let mut i = 0;
        while i < stmts.len() {
            let n = (1 + tape.weighted(&[3, 2, 1])).min(stmts.len() - i);
            let text: String = stmts[i..i + n].iter().map(|(t, _)| t.as_str()).collect::<Vec<_>>().join(" ");
            let names: Vec<String> = stmts[i..i + n].iter().flat_map(|(_, ns)| ns.clone()).collect();
            inputs.push(json!({"text": text, "declares": names}));
            i += n;
        }
        let files: serde_json::Map<String, Json> = case::import_files(&program).into_iter().map(|(n, t)| (n, json!(t))).collect();
        // one session in six also goes through the REPL executable itself
        let binary = tape.chance(1, 6);
        Some(json!({"kind": "repl", "inputs": inputs, "files": files, "binary": binary}))
    }

    fn check_case(&self, case: &Json, stats: &mut Stats) -> Verdict {
        match case["kind"].as_str().unwrap_or("") {
            "repl" => match check_repl(case, stats) {
                Verdict::Pass if case["binary"].as_bool().unwrap_or(false) => check_repl_executable(case, stats),
                other => other,
            },
            "call" => check_call(case, stats),
            "repeat" => check_repeat(case, stats),
            // a fixed REPL history that keeps a recorded finding visible under a signature of its own
            "probe" => match check_repl(case, stats) {
                Verdict::Fail(f) => fail(case["sig"].as_str().unwrap_or("C17:probe").to_string(), f.msg),
                other => other,
            },
            _ => Verdict::Discard("unknown kind"),
        }
    }
}

/// state that an execution needs is made by that execution: a program whose text makes cells,
/// iterators and fillers in every position gives, on each of several executions of one parsed Code,
/// what a fresh parse and a single execution give
const FRESH_STATE: [&str; 19] = [
    "it := [mut 5]~; it(); f := it().1; f += 7; *f",
    "it := [mut 5]~; it(); f := it().1; g := it().1; f += 7; (*f, *g)",
    "it := [mut 5]~ ? mut int; it(); f := it().1; f += 7; *f",
    "it := [(mut 1, 2)]~; it(); t := it().1; c := t.0; c += 7; *c",
    "counter := mut 0; bump := () -> int { counter += 1; return *counter; }; bump(); bump(); (bump(), *counter)",
    "it := [1]~ ? mut int; it(); c := it().1; c += 10; *c",
    "it := [1, \"s\"]~ ? mut int|mut string; c := it().1; if k: mut int = c { k += 3; }; if k: mut string = c { k += \"x\"; }; c",
    "it := [1]~ ? (mut int, int); t := it().1; c := t.0; c += 10; (*c, t.1)",
    "it := [1]~ ? struct{a: mut int}; s := it().1; s.a += 10; *s.a",
    "it := [1]~ ? [mut int]; a := it().1; (std.len(a), a)",
    "it := [1]~ ? mut [int]; c := it().1; c += [7]; *c",
    "it := [1]~ ? mut mut int; c := it().1; d := *c; d += 10; *(*c)",
    "it := [mut 1, 2]~ ? mut int; a := it().1; a += 10; b := it().1; b += 100; (*a, *b)",
    "it := [1, 2]~; it(); it(); it(); r := it(); r",
    "it := [mut 1]~; a := it().1; a += 10; b := it().1; (*a, b)",
    "it := [1]~ @ (x: int) -> mut int { return mut x; }; a := it().1; a += 10; b := it(); (*a, b.0)",
    "for c in [mut 1, mut 2]~ { c += 10; }; s := [mut 1, mut 2]~ @ (c: mut int) -> int { return *c; } $+; s",
    "p := [mut 1, mut 2]~ \\ (c: mut int) -> bool { c += 10; return *c > 11; }; (p.0, p.1)",
    "t := mut 0; r := [mut 5]~ $ (mut 0) (acc: mut int, c: mut int) -> mut int { acc += *c; t += 1; return acc; }; r += 1; (*r, *t)",
];

fn check_repeat(case: &Json, stats: &mut Stats) -> Verdict {
    let text = case["text"].as_str().unwrap_or("");
    run::default_budget();
    let expected = match exec::run_program(text, false).outcome {
        Outcome::Rejected(_) => return Verdict::Discard("rejected by the checker"),
        Outcome::Aborted(_) => return Verdict::Inconclusive("budget"),
        o => shown(&o),
    };
    let interp = exec::safe_interpreter();
    let Ok(Ok(code)) = run::parse_guarded(&interp, text) else {
        return fail("C17:exec-repeat:parse", format!("`{text}` was accepted once and not the second time"));
    };
    stats.nontrivial(text);
    stats.label("repeat: one Code executed four times");
    for k in 1..=4 {
        stats.eval();
        run::default_budget();
        let o = run::exec_guarded(&code);
        if matches!(o, Outcome::Aborted(_)) {
            return Verdict::Inconclusive("budget");
        }
        if shown(&o) != expected {
            return fail(
                "C17:exec-repeat:result",
                format!("`{text}`\n  a fresh parse and one exec give: {expected}\n  exec number {k} of one parsed Code gives: {}", shown(&o)),
            );
        }
    }
    stats.sample(4, || json!({"program": text, "every_exec": expected}));
    Verdict::Pass
}

fn check_repl(case: &Json, stats: &mut Stats) -> Verdict {
    let inputs = case["inputs"].as_array().cloned().unwrap_or_default();
    let mut repl = exec::safe_interpreter();
    let mut names: Vec<String> = vec![];
    let mut prefix = String::new();
    let mut reads_earlier = false;
    for (k, input) in inputs.iter().enumerate() {
        let text = &case::materialise(input["text"].as_str().unwrap_or(""), case);
        let text = text.as_str();
        // incremental route: parse against the live interpreter, run unscoped (as the REPL does)
        run::default_budget();
        stats.eval();
        let r_out = match run::parse_guarded(&repl, text) {
            Ok(Ok(code)) => run::exec_unscoped_guarded(&code, &mut repl),
            Ok(Err(kind)) => Outcome::Rejected(kind),
            Err(o) => o,
        };
        for n in input["declares"].as_array().into_iter().flatten().filter_map(|n| n.as_str()) {
            names.retain(|x| x != n);
            names.push(n.to_string());
        }
        if k > 0 && names.iter().any(|n| text.contains(n.as_str())) {
            reads_earlier = true;
        }
        prefix.push_str(text);
        prefix.push(' ');
        // batch route: the whole prefix as one program into a fresh interpreter
        stats.eval();
        let (b_out, batch) = exec::run_program_keep(&prefix);
        match (&r_out, &b_out) {
            (Outcome::Aborted(_), _) | (_, Outcome::Aborted(_)) => return Verdict::Inconclusive("budget"),
            (Outcome::Panic { .. }, _) | (_, Outcome::Panic { .. }) => {
                let (route, o) = if matches!(r_out, Outcome::Panic { .. }) { ("incremental", &r_out) } else { ("batch", &b_out) };
                return fail(
                    format!("C17:repl:{}", o.panic_sig().unwrap_or_default()),
                    format!("the {route} route panicked on input {k} `{text}` after `{}`: {}", &prefix[..prefix.len() - text.len() - 1], o.short()),
                );
            }
            (Outcome::Value(rv), Outcome::Value(bv)) => {
                let (rs, bs) = (canon::canon(rv).show(), canon::canon(bv).show());
                if rs != bs {
                    return fail("C17:repl:last-result", format!("after `{prefix}`\n  batch result:       {bs}\n  incremental result: {rs} (input {k}: `{text}`)"));
                }
                // nothing but the names the inputs declare is bound on either route
                for n in ["ans", "_", "it", "last", "result", "res", "self", "this", "out", "value", "tmp", "prev", "__"] {
                    if !names.iter().any(|x| x == n) && repl.get_variable(n).is_some() != batch.get_variable(n).is_some() {
                        return fail(
                            "C17:repl:undeclared-name",
                            format!("after `{prefix}` the name `{n}`, which no input declares, is {} on the incremental route and {} on the batch route", if repl.get_variable(n).is_some() { "bound" } else { "unbound" }, if batch.get_variable(n).is_some() { "bound" } else { "unbound" }),
                        );
                    }
                }
                let (rstate, bstate) = (state(&repl, &names), state(&batch, &names));
                if rstate != bstate {
                    return fail(
                        "C17:repl:variables",
                        format!("after `{prefix}` the top-level variables ({}) are\n  batch:       {bstate}\n  incremental: {rstate}", names.join(", ")),
                    );
                }
            }
            (Outcome::ExecError(a), Outcome::ExecError(b)) if a == b => {
                stats.label("both routes end in the same run-time error");
                break;
            }
            // the routes may differ in what they accept (values vs declared types) and a constant
            // failure may surface at parse time on one route only: nothing to compare beyond here
            _ => {
                stats.label(&format!("routes diverge in acceptance ({} vs {})", r_out.short().split('(').next().unwrap_or(""), b_out.short().split('(').next().unwrap_or("")));
                break;
            }
        }
    }
    if reads_earlier {
        stats.nontrivial(&prefix);
    }
    stats.sample(4, || json!({"inputs": inputs.iter().map(|i| i["text"].clone()).collect::<Vec<_>>()}));

    // exec is isolated and repeatable (whole program, fresh interpreter)
    run::default_budget();
    let interp = exec::safe_interpreter();
    let marker_before = state(&interp, &["std".to_string()]);
    if let Ok(Ok(code)) = run::parse_guarded(&interp, &prefix) {
        stats.evals(2);
        let first = run::exec_guarded(&code);
        run::default_budget();
        let second = run::exec_guarded(&code);
        if matches!(first, Outcome::Aborted(_)) || matches!(second, Outcome::Aborted(_)) {
            return Verdict::Inconclusive("budget");
        }
        if shown(&first) != shown(&second) {
            return fail("C17:exec-twice:result", format!("`{prefix}`\n  first exec:  {}\n  second exec: {}", shown(&first), shown(&second)));
        }
        if let (Outcome::Value(a), Outcome::Value(b)) = (&first, &second) {
            let (mut ca, mut cb) = (HashSet::new(), HashSet::new());
            collect_cells(a, &mut ca, 0);
            collect_cells(b, &mut cb, 0);
            if let Some(shared) = ca.intersection(&cb).next() {
                let _ = shared;
                return fail("C17:exec-twice:shared-cell", format!("`{prefix}`: a mutable cell of the first exec's result is the same object in the second exec's result"));
            }
            if !ca.is_empty() {
                stats.label("exec twice: results contain cells (checked disjoint)");
            }
        }
        // the interpreter the code was parsed against is untouched
        for n in &names {
            if interp.get_variable(n).is_some() {
                return fail("C17:exec-isolation", format!("after exec of `{prefix}` the interpreter it was parsed against has a variable {n}"));
            }
        }
        if state(&interp, &["std".to_string()]) != marker_before {
            return fail("C17:exec-isolation", "exec changed the interpreter's `std`".to_string());
        }
    }
    Verdict::Pass
}

/// The REPL executable itself (src/main.rs, built by ./check from /repo's working tree, dev profile,
/// hooks off): the session's inputs, one per line, each followed by a marker line. What the
/// executable answers on stdout is what the embedding route (parse against one interpreter,
/// exec_unscoped, `{:?}` of the result) gives for that input: the rendering and a line end for a
/// value, nothing for an input that is rejected or fails (the message goes to stderr), and the
/// session goes on after a failure. Renderings in which only the order of struct fields or union
/// members may differ are compared as multisets of characters.
pub(crate) fn check_repl_executable(case: &Json, stats: &mut Stats) -> Verdict {
    use std::io::{Read, Write};
    let Some(bin) = std::env::var("VERIF_SIMPLESL_BIN").ok().filter(|b| !b.is_empty() && std::path::Path::new(b).exists()) else {
        stats.label("REPL executable not built: route skipped");
        return Verdict::Pass;
    };
    let inputs = case["inputs"].as_array().cloned().unwrap_or_default();
    let texts: Vec<String> = inputs.iter().map(|i| case::materialise(i["text"].as_str().unwrap_or(""), case)).collect();
    if texts.iter().any(|t| t.contains('\n') || t.contains("print") || t.contains("getline") || t.contains("std.fs") || t.contains("#marker")) || texts.is_empty() {
        stats.label("REPL executable: session not expressible as lines (skipped)");
        return Verdict::Pass;
    }
    // the embedding route against the whole of std (what the executable's interpreter holds)
    let mut interp = simplesl::Interpreter::with_stdlib();
    let mut expected: Vec<Option<String>> = vec![];
    for text in &texts {
        run::default_budget();
        stats.eval();
        let out = match run::parse_guarded(&interp, text) {
            Ok(Ok(code)) => run::exec_unscoped_guarded(&code, &mut interp),
            Ok(Err(kind)) => Outcome::Rejected(kind),
            Err(o) => o,
        };
        match out {
            Outcome::Value(v) => match run::guarded(|| format!("{v:?}")) {
                Ok(r) if !r.contains('\n') => expected.push(Some(r)),
                _ => return Verdict::Pass,
            },
            Outcome::Rejected(_) | Outcome::ExecError(_) => expected.push(None),
            Outcome::Aborted(_) => return Verdict::Pass,
            // a panic of the library route is the business of the comparison above and of C02
            _ => return Verdict::Pass,
        }
    }
    // when every input yields a value the inputs go in as they are (consecutive identical inputs stay
    // consecutive) and the answers are the lines of the output; otherwise a marker line follows each input
    let plain = case["markers"].as_bool() != Some(true) && expected.iter().all(Option::is_some);
    let mut input = String::new();
    for (k, t) in texts.iter().enumerate() {
        if plain {
            input += &format!("{t}\n");
        } else {
            input += &format!("{t}\n\"#marker{k}#\"\n");
        }
    }
    let Ok(mut child) = std::process::Command::new(&bin)
        .stdin(std::process::Stdio::piped())
        .stdout(std::process::Stdio::piped())
        .stderr(std::process::Stdio::null())
        .spawn()
    else {
        return Verdict::Inconclusive("REPL executable did not start");
    };
    let mut stdin = child.stdin.take().expect("stdin");
    let mut stdout = child.stdout.take().expect("stdout");
    let writer = std::thread::spawn(move || {
        let _ = stdin.write_all(input.as_bytes());
    });
    let reader = std::thread::spawn(move || {
        let mut bytes = vec![];
        let _ = stdout.read_to_end(&mut bytes);
        bytes
    });
    // the hooks (fuel) are off in the executable: a session that does not end within two minutes
    // although the library route ended within its budget is left undecided, never reported
    let started = std::time::Instant::now();
    let ended = loop {
        match child.try_wait() {
            Ok(Some(_)) => break true,
            Ok(None) if started.elapsed().as_secs() < 120 => std::thread::sleep(std::time::Duration::from_millis(2)),
            _ => break false,
        }
    };
    if !ended {
        let _ = child.kill();
        let _ = child.wait();
        let _ = writer.join();
        let _ = reader.join();
        return Verdict::Inconclusive("REPL executable did not finish within two minutes");
    }
    let _ = writer.join();
    let bytes = reader.join().unwrap_or_default();
    let out = String::from_utf8_lossy(&bytes).to_string();
    let mut rest = out.as_str();
    let sorted = |s: &str| {
        let mut c: Vec<char> = s.chars().collect();
        c.sort_unstable();
        c
    };
    stats.label("REPL executable: sessions answered");
    if plain {
        stats.label("REPL executable: sessions without marker lines");
        let answers: Vec<&str> = out.lines().collect();
        for (k, (text, want)) in texts.iter().zip(&expected).enumerate() {
            let want = want.as_deref().unwrap_or("");
            let got = answers.get(k).copied().unwrap_or("<no answer>");
            let same = if want.contains("struct{") || want.contains('|') { sorted(got) == sorted(want) } else { got == want };
            if !same {
                return fail(
                    "C17:repl-executable:answer",
                    format!("the REPL executable answers input {k} `{text}` with {got:?}; the embedding route (one interpreter, parse, exec_unscoped, {{:?}}) gives {want:?}; the whole session:\n     {}", texts.join("\n     ")),
                );
            }
        }
        if answers.len() != texts.len() {
            return fail("C17:repl-executable:answer", format!("the REPL executable wrote {} lines for the {} inputs of the session\n     {}", answers.len(), texts.len(), texts.join("\n     ")));
        }
        stats.nontrivial(&format!("repl-executable {}", texts.join(" ")));
        return Verdict::Pass;
    }
    for (k, (text, want)) in texts.iter().zip(&expected).enumerate() {
        let marker = format!("\"#marker{k}#\"\n");
        let history = || texts[..k].join("\n     ");
        let Some(at) = rest.find(&marker) else {
            return fail("C17:repl-executable:stopped", format!("the REPL executable stopped answering at input {k} `{text}` of the session\n     {}", history()));
        };
        let answer = &rest[..at];
        let same = match want {
            None => answer.is_empty(),
            Some(r) if r.contains("struct{") || r.contains('|') => sorted(answer) == sorted(&format!("{r}\n")),
            Some(r) => answer == format!("{r}\n"),
        };
        if !same {
            let wanted = match want {
                Some(r) => format!("{r:?} and a line end"),
                None => "nothing on stdout (the input is rejected or fails)".to_string(),
            };
            return fail(
                "C17:repl-executable:answer",
                format!("the REPL executable answers input {k} `{text}` with {answer:?}; the embedding route (one interpreter, parse, exec_unscoped, {{:?}}) gives {wanted}; earlier inputs:\n     {}", history()),
            );
        }
        rest = &rest[at + marker.len()..];
    }
    if !rest.is_empty() {
        return fail("C17:repl-executable:answer", format!("the REPL executable wrote {rest:?} after the last input of the session\n     {}", texts.join("\n     ")));
    }
    stats.nontrivial(&format!("repl-executable {}", texts.join(" ")));
    stats.sample(2, || json!({"repl_executable_session": texts, "answers": expected}));
    Verdict::Pass
}

fn check_call(case: &Json, stats: &mut Stats) -> Verdict {
    let program = case["program"].as_str().unwrap_or("");
    let mut arg_texts: Vec<String> = case["args"].as_array().into_iter().flatten().filter_map(|a| a.as_str().map(str::to_string)).collect();
    match case["arity"].as_u64().unwrap_or(0) {
        1 => arg_texts.push("1".into()),
        2 => {
            arg_texts.pop();
        }
        _ => {}
    }
    let f = match exec::run_program(program, false).outcome {
        Outcome::Value(Variable::Function(f)) => f,
        Outcome::Rejected(_) => return Verdict::Discard("function program rejected"),
        o => return fail(format!("C17:call:setup:{}", o.panic_sig().unwrap_or_default()), format!("`{program}`: {}", o.short())),
    };
    let mut args = vec![];
    for t in &arg_texts {
        match exec::run_program(t, false).outcome {
            Outcome::Value(v) => args.push(v),
            _ => return Verdict::Discard("argument text did not evaluate"),
        }
    }
    stats.evals(2);
    let host = exec::call_function(&f, args, false).outcome;
    let text = format!("{program}; f({})", arg_texts.join(", "));
    let lang = exec::run_program(&text, false).outcome;
    let label = match (&host, &lang) {
        (Outcome::Rejected(_), Outcome::Rejected(_)) => "both routes reject",
        (Outcome::Rejected(_), _) | (_, Outcome::Rejected(_)) => "one route rejects",
        _ => "both routes accept",
    };
    stats.label(label);
    if case["arity"].as_u64().unwrap_or(0) != 0 || label != "both routes accept" {
        stats.nontrivial(&text);
    }
    match (&host, &lang) {
        (Outcome::Aborted(_), _) | (_, Outcome::Aborted(_)) => Verdict::Inconclusive("budget"),
        (Outcome::Rejected(_), Outcome::Rejected(_)) => Verdict::Pass,
        (Outcome::Rejected(k), other) | (other, Outcome::Rejected(k)) if !run::EXEC_ERROR_KINDS.contains(&k.as_str()) => {
            let which = if matches!(host, Outcome::Rejected(_)) { "the host API rejects" } else { "the host API accepts" };
            fail(
                "C17:call:acceptance",
                format!("`{text}`: {which} this argument list ({}), the in-language call gives {} / host {}", k, lang.short(), other.short()),
            )
        }
        (h, l) => {
            let (hs, ls) = (shown(h), shown(l));
            // a constant failure may be reported at parse time on the in-language route
            let same = hs == ls
                || matches!((h, l), (Outcome::ExecError(a), Outcome::Rejected(b)) if a == b);
            if same {
                stats.sample(4, || json!({"call": text, "outcome": hs}));
                Verdict::Pass
            } else {
                fail("C17:call:result", format!("`{text}`\n  in-language: {ls}\n  host API:    {hs}"))
            }
        }
    }
}

pub fn run(session: &Session) -> i32 {
    crate::engine::run_regressions(session, &C17);
    // create_call vs in-language call: every accepted one-parameter matrix function x every catalogue value
    let mut cases = vec![];
    let step = session.tier.of(3, 1);
    for (xi, x) in CATALOGUE.iter().enumerate() {
        for (ti, t) in UNARY.iter().enumerate() {
            if (xi + ti) % step != 0 {
                continue;
            }
            for y in CATALOGUE {
                for v in y.values {
                    cases.push(json!({"kind": "call", "program": matrix::unary_program(x.ty, t), "args": [v], "arity": 0}));
                }
            }
        }
    }
    for text in FRESH_STATE.iter().map(|t| t.to_string()).chain(crate::props::c16::isolated_code_programs()) {
        cases.push(json!({"kind": "repeat", "text": text}));
    }
    // functions of every arity from 0 to 3 (user-written, native iterators, std functions) x
    // argument lists of 0 to 4 values
    let functions = [
        "f := () -> int { return 7; }",
        "f := () { }",
        "f := [1, 2]~",
        "f := [1, 2, 3]~ ? (x: int) -> bool { return x > 1; }",
        "f := [1.5]~ @ (x: float) -> float { return x * 2.0; }",
        "c := mut 0; f := () -> (bool, int) { c += 1; return (*c < 3, *c); }",
        "f := (a: any) -> any { return a; }",
        "f := (a: int, b: string) -> string { return b + a; }",
        "f := (a: int|string, b: [int]) -> any { return (a, b); }",
        "f := (a: int, b: int, c: int) -> int { return a + b * c; }",
        "f := std.len",
        "f := std.convert.to_float",
        // a parameter spelled like the function hides the function inside the body
        "f := (f: int) -> int { return f + 1; }",
        "f := (f: any) -> any { return f; }",
        "f := (n: int, f: int) -> int { return n * f; }",
        "f := (f: string, n: int) -> string { return f + n; }",
        // recursion and capture through the host call
        "f := (n: int) -> int { if n <= 0 { return 0; } return n + f(n - 1); }",
        "k := mut 10; f := (n: int) -> int { k += n; return *k; }",
        "g := (n: int) -> int { return n * 2; }; f := (n: int) -> int { return g(n) + 1; }",
        // `any` parameters before and between typed ones: every argument is checked against its own parameter
        "f := (k: any, n: int, s: string) -> string { return s; }",
        "f := (n: int, k: any, s: string) -> string { return s; }",
        "f := (k: any, s: string) -> string { return s; }",
        "f := (a: any, b: any, c: [int]) -> [int] { return c; }",
        "f := (u: int|string, k: any, n: float) -> float { return n; }",
    ];
    let pool = ["1", "\"s\"", "2.5", "[1]", "()", "true", "(1, 2)"];
    for program in functions {
        let mut lists: Vec<Vec<&str>> = vec![vec![]];
        for a in pool {
            lists.push(vec![a]);
            for b in pool {
                lists.push(vec![a, b]);
            }
        }
        for l in [vec!["1", "2", "3"], vec!["1", "\"s\"", "[1]"], vec!["1", "2", "3", "4"], vec!["()", "()", "()"], vec!["\"s\"", "[1]", "1", "2.5"]] {
            lists.push(l);
        }
        if program.matches(": ").count() >= 4 || program.contains("(a: int, b: int, c: int)") || program.contains(", k: any,") || program.contains("(k: any, n: int") || program.contains("b: any, c:") {
            // three parameters: every triple over a smaller pool
            let small = ["1", "\"s\"", "2.5", "[1]", "true"];
            for a in small {
                for b in small {
                    for c in small {
                        lists.push(vec![a, b, c]);
                    }
                }
            }
        }
        for l in lists {
            let arity = if l.is_empty() { 0 } else { 3 };
            cases.push(json!({"kind": "call", "program": program, "args": l, "arity": arity}));
        }
    }
    // a variable the batch route knows by its declared type (int|float) and the REPL route by its value
    for source in ["c := mut true; x := if *c { 1 } else { 2.5 };", "g := (b: bool) -> int|float { if b { return 1; } return 2.5; }; x := g(true);", "x := [1, 2.5][*(mut int 0)];"] {
        for consumer in crate::genr::nearmiss::union_typed_consumers() {
            // (`mut e` without a declared type is the recorded finding C17:probe:undeclared-cell-...: kept
            // out here, kept visible by its probe below)
            if consumer.iter().any(|st| st.contains("mut x") || st.contains("mut [x]")) {
                continue;
            }
            let mut inputs: Vec<Json> = source.split_inclusive(';').filter(|t| !t.trim().is_empty()).map(|t| {
                let name = t.trim().split(" :=").next().unwrap_or("").to_string();
                json!({"declares": [name], "text": t.trim()})
            }).collect();
            for st in &consumer {
                let declares: Vec<String> = if st.contains(" := ") && !st.starts_with('(') && !st.starts_with("match") && !st.starts_with("if") { vec![st.split(" :=").next().unwrap().to_string()] } else { vec![] };
                inputs.push(json!({"declares": declares, "text": format!("{st};")}));
            }
            cases.push(json!({"kind": "repl", "files": {}, "inputs": inputs, "binary": true}));
        }
    }
    // values whose declared types are unions: what a later input computes from them does not depend on
    // whether the input sees the declaration or the value (empty iterators behind a union of iterator
    // types, equal values behind overlapping unions)
    for inputs in [
        vec!["g := () -> () -> (bool, int) | () -> (bool, float) { return []~; };", "it := g();", "s := it $+;", "(s, 1)"],
        vec!["g := () -> () -> (bool, int) | () -> (bool, float) { return []~; };", "it := g();", "s := it $*;", "(s, 1)"],
        vec!["g := (k: int) -> () -> (bool, int) | () -> (bool, string) { if k > 0 { return [1]~; } return []~; };", "it := g(0);", "s := it $+;", "jt := g(1);", "(s, jt $+)"],
        vec!["f := () -> int|string { return 1; };", "g := () -> int|float { return 1; };", "a := f();", "b := g();", "(a == b, a != b, b == a)"],
        vec!["f := () -> int|string { return 1; };", "g := () -> int|float { return 1; };", "a := f(); b := g();", "m := match a { (b) => 1, => 0, };", "(m, [a] == [b])"],
        vec!["f := () -> [int]|string { return [1]; };", "g := () -> [int]|float { return [1]; };", "a := f();", "b := g();", "(a == b, a != b)"],
        vec!["f := () -> struct{a: int}|int { return struct{a := 1}; };", "g := () -> struct{a: int}|string { return struct{a := 1}; };", "a := f();", "b := g();", "(a == b, a != b)"],
    ] {
        let items: Vec<Json> = inputs
            .iter()
            .map(|t| {
                let names: Vec<String> = t.split(';').filter_map(|st| st.trim().split_once(" := ").map(|(n, _)| n.trim().to_string())).filter(|n| !n.contains('(') && !n.contains(' ')).collect();
                json!({"declares": names, "text": t})
            })
            .collect();
        cases.push(json!({"kind": "repl", "files": {}, "inputs": items, "binary": true}));
    }
    // a construct that binds a name locally to a run-time value and uses it, with the same name declared
    // outside as a constant, as a run-time value, as a value of another type or not at all: one statement
    // per input, two per input, and the whole as one input
    {
        let constructs: [(&str, &[&str]); 22] = [
            // destructuring: every name of the pattern is declared, from a constant tuple, a computed one and a nested one
            ("(v, w) := (10, 20); n := v + w;", &["v", "w", "n"]),
            ("(v, w) := (next(), 20); n := v + w;", &["v", "w", "n"]),
            ("(w, v) := (1, next()); n := v + w;", &["v", "w", "n"]),
            ("t := (10, 20); (v, w) := t; n := v + w;", &["t", "v", "w", "n"]),
            // what is called or pulled from has a local of its own spelled like the outer name, and what
            // runs next to it (a loop body, a mapper, a predicate, the rest of the expression) reads the outer one
            ("c := mut 0; it := () -> (bool, int) { v := *c; c += 1; return (v < 3, v); }; n := mut 0; for x in it { n += v + x; };", &["c", "it", "n"]),
            ("c := mut 0; it := () -> (bool, int) { v := *c; c += 1; return (v < 3, v); }; n := it $ 0 (a: int, x: int) -> int { return a + x + v; };", &["c", "it", "n"]),
            ("c := mut 0; it := () -> (bool, int) { v := *c; c += 1; return (v < 3, v); }; n := it @ (x: int) -> int { return x + v; } $];", &["c", "it", "n"]),
            ("c := mut 0; it := () -> (bool, int) { v := *c; c += 1; return (v < 3, v); }; n := it ? (x: int) -> bool { return x < v; } $];", &["c", "it", "n"]),
            ("c := mut 0; step := () -> int|string { v := *c; c += 1; if v < 3 { return v; } return \"end\"; }; n := mut 0; while x: int = step() { n += v + x; };", &["c", "step", "n"]),
            ("h := () -> int { v := 5; return v; }; n := h() + v + h();", &["h", "n"]),
            ("c := mut 0; it := () -> (bool, int) { v := *c; c += 1; return (v < 3, v); }; n := mut 0; for x in it { for y in [1]~ { n += v + y; }; };", &["c", "it", "n"]),
            ("n := match next() { v: int => v + 2, => 0, };", &["n"]),
            ("n := if v: int = next() { v + 2 } else { 0 };", &["n"]),
            ("n := mut 0; k := mut 0; while v: int = src(k) { n += v; k += 1; };", &["n", "k"]),
            ("n := mut 0; for v in [next(), 7]~ { n += v; };", &["n"]),
            ("g := (v: int) -> int { return v + 2; }; n := g(next());", &["g", "n"]),
            ("n := { v := next(); v + 2 };", &["n"]),
            ("n := [next()]~ @ (v: int) -> int { return v + 2; } $];", &["n"]),
            ("m := mod { v := next(); w := v + 2; }; n := m.w;", &["m", "n"]),
            ("n := match (next(), 1) { v: (int, int) => v.0 + 2, => 0, };", &["n"]),
            ("h := () -> int { r := match next() { v: int => v + 2, => 0, }; return r; }; n := h();", &["h", "n"]),
            ("n := [3]~ $ next() (v: int, w: int) -> int { return v + w; };", &["n"]),
        ];
        let outers: [(&str, &[&str]); 5] = [("v := 1;", &["v"]), ("v := next() + 1;", &["v"]), ("v := \"text\";", &["v"]), ("v := mut 1;", &["v"]), ("", &[])];
        let prelude = [
            json!({"declares": ["next"], "text": "next := () -> int { return 40; };"}),
            json!({"declares": ["src"], "text": "src := (k: mut int) -> int|string { if *k < 2 { return *k + 10; } return \"end\"; };"}),
        ];
        // the same with the underscore as the name (an identifier like any other)
        let renamed = |t: &str, name: &str| -> String {
            let mut out = String::new();
            let cs: Vec<char> = t.chars().collect();
            for (i, c) in cs.iter().enumerate() {
                let word = |k: Option<&char>| k.is_some_and(|c| c.is_alphanumeric() || *c == '_');
                if *c == 'v' && !word(i.checked_sub(1).and_then(|j| cs.get(j))) && !word(cs.get(i + 1)) {
                    out.push_str(name);
                } else {
                    out.push(*c);
                }
            }
            out
        };
        for name in ["v", "_"] {
        for (outer, onames) in outers {
            for (construct, cnames) in constructs {
                let (outer, construct) = (renamed(outer, name), renamed(construct, name));
                let (outer, construct) = (outer.as_str(), construct.as_str());
                let onames: Vec<String> = onames.iter().map(|n| if *n == "v" { name.to_string() } else { n.to_string() }).collect();
                let cnames: Vec<String> = cnames.iter().map(|n| if *n == "v" { name.to_string() } else { n.to_string() }).collect();
                let last = if outer.is_empty() { "(n, 0)".to_string() } else { format!("(n, {name})") };
                let last = last.as_str();
                let none: Vec<String> = vec![];
                let body = [(outer, &onames), (construct, &cnames), (last, &none)];
                // one statement per input
                let mut inputs: Vec<Json> = prelude.to_vec();
                for (text, names) in body.iter().filter(|(t, _)| !t.is_empty()) {
                    inputs.push(json!({"declares": names, "text": text}));
                }
                cases.push(json!({"kind": "repl", "files": {}, "inputs": inputs, "binary": true}));
                // the outer declaration and the construct in one input
                let mut inputs: Vec<Json> = prelude.to_vec();
                let names: Vec<&String> = onames.iter().chain(cnames.iter()).collect();
                inputs.push(json!({"declares": names, "text": format!("{outer} {construct}")}));
                inputs.push(json!({"declares": [], "text": last}));
                cases.push(json!({"kind": "repl", "files": {}, "inputs": inputs, "binary": true}));
            }
        }
        }
    }
    // a sequence whose label is wider than its elements comes out of one input and is sliced by a later
    // one (which knows it as a value): the slice is a sequence of the same kind on both routes, whatever
    // it selects - tested by the language's own type tests
    for (maker, ty) in [("() -> [int|string] { return [1, 2, \"s\"]; }", "[int]"), ("() -> [int|float] { return [1, 2, 2.5]; }", "[int]"), ("() -> [any] { return [1, 2]; }", "[int]"), ("() -> [[int]|int] { return [1, [2]]; }", "[int]")] {
        for slice in ["a[0:2]", "a[:1]", "a[::2][0:1]", "a[0:1] + a[1:2]", "a[5:]", "a[0:2][::-1]"] {
            let inputs = [
                format!("mk := {maker};"),
                "a := mk();".to_string(),
                format!("h := {slice};"),
                format!("kind := match h {{ x: {ty} => \"narrow\", => \"wide\", }};"),
                format!("t := if x: {ty} = h {{ 1 }} else {{ 0 }};"),
                "(kind, t, std.len(h))".to_string(),
            ];
            let items: Vec<Json> = inputs
                .iter()
                .map(|t| {
                    let names: Vec<String> = t.split(';').filter_map(|st| st.trim().split_once(" := ").map(|(n, _)| n.trim().to_string())).filter(|n| !n.contains('(') && !n.contains(' ')).collect();
                    json!({"declares": names, "text": t})
                })
                .collect();
            cases.push(json!({"kind": "repl", "files": {}, "inputs": items, "binary": true}));
        }
    }
    // the same input several times in a row (each time it means what it means then), inputs whose later
    // statement fails after an earlier one of the same input has run, and variables with names a console
    // might be tempted to use itself
    for inputs in [
        vec!["a := 0; b := 1;", "(a, b) := (b, a + b);", "(a, b) := (b, a + b);", "(a, b) := (b, a + b);", "(a, b)"],
        vec!["x := 1;", "x := x * 2;", "x := x * 2;", "x := x * 2;", "x"],
        vec!["c := mut 0;", "c += 1;", "c += 1;", "c += 1;", "*c"],
        vec!["s := \"a\";", "s := s + s;", "s := s + s;", "s"],
        vec!["it := [1, 2, 3]~;", "it()", "it()", "it()", "it()"],
        vec!["n := 1;", "f := () -> int { return n; };", "n := n + 1;", "f := () -> int { return n; };", "n := n + 1;", "f()"],
        vec!["zero := mut 0; x := 1;", "x := 2; y := 1 / *zero;", "x"],
        vec!["zero := mut 0; f := () -> int { return 1; };", "f := () -> int { return 2; }; y := [1][5 + *zero];", "f()"],
        vec!["zero := mut 0; c := mut 5;", "c += 1; d := 1 % *zero; c += 100;", "*c"],
        vec!["zero := mut 0; x := 1;", "x := 2; y := 1 / *zero; x := 3;", "x", "y := 7;", "(x, y)"],
        vec!["ans := 10;", "b := ans + 1;", "ans"],
        vec!["last := \"l\"; result := 1; it := 2;", "q := result + it;", "(last, result, it, q)"],
        vec!["_ := 5;", "k := _ + 1;", "(_, k)"],
        vec!["1 + 1", "ans := 5;", "2 + 2", "ans"],
    ] {
        let items: Vec<Json> = inputs
            .iter()
            .map(|t| {
                let names: Vec<String> = t.split(';').filter_map(|st| st.trim().split_once(" := ").map(|(n, _)| n.trim().to_string())).filter(|n| !n.contains('(') && !n.contains(' ')).collect();
                json!({"declares": names, "text": t})
            })
            .collect();
        cases.push(json!({"kind": "repl", "files": {}, "inputs": items, "binary": true}));
    }
    // recorded finding: the empty array literal carries the element type `!` wherever it flows, so a later
    // REPL input (which sees the value, not the declared type) sums it as ints
    cases.push(json!({"kind": "probe", "sig": "C17:probe:empty-literal-forgets-declared-element-type", "files": {}, "inputs": [
        {"declares": ["f"], "text": "f := () -> [float] { return []; };"},
        {"declares": ["e"], "text": "e := f();"},
        {"declares": [], "text": "e~ $+;"},
    ]}));
    // recorded finding: a cell made by `mut e` without a declared type takes the static type of e, and the
    // REPL route computes that from the value e has
    cases.push(json!({"kind": "probe", "sig": "C17:probe:undeclared-cell-type-follows-the-route", "files": {}, "inputs": [
        {"declares": ["c"], "text": "c := mut true;"},
        {"declares": ["x"], "text": "x := if *c { 1 } else { 2.5 };"},
        {"declares": ["m"], "text": "m := mut x;"},
        {"declares": [], "text": "if k: mut int = m { 1 } else { 0 };"},
    ]}));
    session.set_extra("enumerated_call_cases", json!(cases.len()));
    if !session.stopped() {
        session.run_enum(&C17, cases);
    }
    if !session.stopped() {
        session.run_tapes(&C17, session.tier.of(20_000, 600_000), 600, 0);
    }
    session.finish(
        "(repl) tape-generated typed programs are split into REPL inputs of 1-3 top-level statements; after every input the incremental route (parse against the live interpreter, exec_unscoped) is compared with the batch route (the whole prefix as one program into a fresh interpreter) on the last result and on the canonical value of every top-level variable, until the routes diverge in acceptance (allowed, counted) or end in the same error; the full program is then executed twice from one Code: equal canonical results, no cell of the first result is the same object as a cell of the second, and the interpreter the code was parsed against has none of the program's names. (call) every third (quick) / every (thorough) accepted one-parameter function of the operator x operand-type matrix x every value of every catalogue type, plus arity changes, and 24 functions of 0 to 3 parameters (all argument triples over 5 values for the three-parameter ones, incl. `any` parameters before typed ones) (user-written incl. parameters spelled like the function, recursion and captured cells, native and user-written iterators, std functions) x argument lists of 0 to 4 values: Function::create_call must accept exactly the argument lists the in-language call `f(v)` accepts and return the same value or error. Non-trivial = a later input mentions an earlier binding / an ill-typed or wrong-arity argument list; distinct by text.",
        false,
        &["acceptance differences between the routes of the REPL comparison are permitted by the property and end the comparison of that case"],
    )
}
