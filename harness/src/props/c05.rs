//! C05 — outcomes are deterministic: independent of hash order and run.
//! Every repetition runs on a fresh thread (std draws fresh hash keys per thread and bumps
//! them per map), so every repetition sees new iteration orders.
use crate::{
    canon,
    engine::{Property, Session, Stats, Tier, Verdict, fail},
    exec,
    genr::{
        ast::Hide,
        case,
        matrix::{self, BINARY, CATALOGUE, INFIX, UNARY},
        prog::Profile,
        types::{TyCfg, gen_ty},
    },
    run::{self, Outcome},
    tape::Tape,
    ty::Ty,
};
use serde_json::{Value as Json, json};
use simplesl::variable::Type;
use std::{
    hash::{Hash, Hasher},
    str::FromStr,
};

pub struct C05Prop;
pub static C05: C05Prop = C05Prop;

/// what one parse + run of a program looks like, with every order-dependent rendering normalised
fn outcome_of(text: &str) -> String {
    outcome_of_nth(text, 1)
}

/// the outcome of the n-th execution of one parsed program (every execution starts from fresh state)
fn outcome_of_nth(text: &str, n: usize) -> String {
    run::default_budget();
    let interp = exec::safe_interpreter();
    let code = match run::parse_guarded(&interp, text) {
        Ok(Ok(code)) => code,
        Ok(Err(kind)) => return format!("rejected {kind}"),
        Err(o) => return o.short(),
    };
    for _ in 1..n {
        let _ = exec::exec_code(&code, false);
        run::default_budget();
    }
    let run = exec::exec_code(&code, false);
    let static_type = run.static_type.map(|t| t.print()).unwrap_or_else(|| "<type panicked>".into());
    let result = match &run.outcome {
        Outcome::Value(v) => format!("value {}", canon::canon(v).show()),
        o => o.short(),
    };
    format!("accepted, type {static_type}, {result}")
}

/// child side of the cross-process comparison (`vcheck C05 child <list.json>`): one outcome per line
pub fn child(path: &str) -> i32 {
    let Ok(text) = std::fs::read_to_string(path) else {
        return 2;
    };
    let Ok(texts) = serde_json::from_str::<Vec<String>>(&text) else {
        return 2;
    };
    for t in texts {
        let o = on_fresh_thread(move || outcome_of(&t));
        println!("{}", serde_json::to_string(&o).unwrap());
    }
    0
}

/// the outcomes of `texts` in `children` fresh processes of this executable (process-wide state such
/// as lazily built statics gets new hash keys in each)
fn in_children(texts: &[String], children: usize, meanwhile: impl FnOnce()) -> Result<Vec<Vec<String>>, &'static str> {
    static N: std::sync::atomic::AtomicU64 = std::sync::atomic::AtomicU64::new(0);
    let dir = std::env::temp_dir().join(format!("vcheck-c05-{}", std::process::id()));
    std::fs::create_dir_all(&dir).map_err(|_| "scratch directory")?;
    let file = dir.join(format!("list{}.json", N.fetch_add(1, std::sync::atomic::Ordering::Relaxed)));
    std::fs::write(&file, serde_json::to_string(texts).unwrap()).map_err(|_| "scratch file")?;
    // (the running image itself, also when the file was rebuilt meanwhile)
    let exe = if std::path::Path::new("/proc/self/exe").exists() { std::path::PathBuf::from("/proc/self/exe") } else { std::env::current_exe().map_err(|_| "current_exe")? };
    let mut kids = vec![];
    for _ in 0..children {
        let kid = std::process::Command::new(&exe)
            .args(["C05", "child"])
            .arg(&file)
            .stdin(std::process::Stdio::null())
            .stdout(std::process::Stdio::piped())
            .stderr(std::process::Stdio::null())
            .spawn()
            .map_err(|_| "spawn child")?;
        // drain each child's output on a thread of its own (a full pipe would stall the child)
        kids.push(std::thread::spawn(move || kid.wait_with_output()));
    }
    meanwhile();
    let mut out = vec![];
    let mut failed = false;
    for kid in kids {
        match kid.join() {
            Ok(Ok(o)) => {
                let lines: Vec<String> = String::from_utf8_lossy(&o.stdout).lines().filter_map(|l| serde_json::from_str::<String>(l).ok()).collect();
                if !o.status.success() || lines.len() != texts.len() {
                    failed = true;
                }
                out.push(lines);
            }
            _ => failed = true,
        }
    }
    let _ = std::fs::remove_file(&file);
    if failed {
        return Err("child process did not finish its list");
    }
    Ok(out)
}

/// first program whose outcome in some child process differs from its outcome here
fn process_diff(texts: &[String], children: usize, stats: &mut Stats) -> Result<Option<(usize, String)>, &'static str> {
    let mut mine: Vec<String> = vec![];
    let theirs = in_children(texts, children, || {
        mine = texts
            .iter()
            .map(|t| {
                let t = t.clone();
                on_fresh_thread(move || outcome_of(&t))
            })
            .collect();
    })?;
    stats.evals((texts.len() * (children + 1)) as u64);
    for (i, t) in texts.iter().enumerate() {
        if has_order(t) {
            stats.nontrivial(t);
        }
        for (c, outs) in theirs.iter().enumerate() {
            if outs[i] != mine[i] {
                return Ok(Some((i, format!("`{t}`\n  in this process: {}\n  in child process {c}: {}", mine[i], outs[i]))));
            }
        }
    }
    Ok(None)
}

fn on_fresh_thread<T: Send + 'static>(f: impl FnOnce() -> T + Send + 'static) -> T {
    std::thread::Builder::new().stack_size(256 << 20).spawn(f).expect("spawn").join().expect("join")
}

fn fixed_hash<T: Hash>(t: &T) -> u64 {
    let mut h = std::collections::hash_map::DefaultHasher::new();
    t.hash(&mut h);
    h.finish()
}

fn has_order(text: &str) -> bool {
    // a union with >= 2 members or a struct type / value with >= 2 fields
    text.contains('|') || text.matches(":=").count() >= 2 || text.contains("struct{")
}

impl Property for C05Prop {
    fn id(&self) -> &'static str {
        "C05"
    }

    fn gen_case(&self, tape: &mut Tape, tier: Tier) -> Option<Json> {
        if tape.chance(1, 6) {
            // a union of 3-4 members of one kind whose components partially subsume each other: what
            // the checker derives from it (field, element, result, parameter types ...) is a fold over
            // the members in hash order
            // one kind for all members, or (wrap 9) a kind of its own for every member: the derived
            // types must then be "none" whatever member the fold meets first
            let wrap = tape.below(10);
            let n = 3 + tape.below(2);
            let members: Vec<String> = (0..n)
                .map(|_| {
                    let c = *tape.pick(&COMPONENTS);
                    let wrap = if wrap == 9 { tape.below(10) } else { wrap };
                    wrapped(c, wrap)
                })
                .collect();
            return Some(json!({"kind": "queries", "u": members.join("|"), "reps": tier.of(6, 24)}));
        }
        if tape.chance(1, 8) {
            // several programs run one after the other on one thread, three times round: what a program
            // yields does not depend on what ran before it
            let n = 2 + tape.below(3);
            let mut texts = vec![];
            for _ in 0..n {
                if tape.bool()
                    && let Ok(built) = case::build(tape, Profile::GENERAL)
                    && case::import_files(&built.program).is_empty()
                {
                    texts.push(case::print(&built.program, Hide::None));
                    continue;
                }
                texts.push(matrix_call(tape.below(CATALOGUE.len()), tape.below(UNARY.len()), tape.below(8)));
            }
            return Some(json!({"kind": "history", "texts": texts, "rounds": 3}));
        }
        match tape.weighted(&[3, 2, 2]) {
            0 => {
                let built = case::build(tape, Profile::GENERAL).ok()?;
                let files: serde_json::Map<String, Json> = case::import_files(&built.program).into_iter().map(|(n, t)| (n, json!(t))).collect();
                Some(json!({"kind": "program", "text": case::print(&built.program, Hide::None), "reps": tier.of(6, 24), "files": files}))
            }
            1 => {
                let cfg = TyCfg::full(tier.of(3, 4));
                let (a, b) = (gen_ty(tape, &cfg), gen_ty(tape, &cfg));
                Some(json!({"kind": "types", "a": a.print(), "b": b.print(), "reps": tier.of(4, 16)}))
            }
            _ => {
                let x = tape.below(CATALOGUE.len());
                let y = tape.below(CATALOGUE.len());
                let text = if tape.bool() {
                    matrix::infix_program(CATALOGUE[x].ty, CATALOGUE[y].ty, INFIX[tape.below(INFIX.len())])
                } else {
                    matrix::binary_program(CATALOGUE[x].ty, CATALOGUE[y].ty, BINARY[tape.below(BINARY.len())])
                };
                Some(json!({"kind": "program", "text": text, "reps": tier.of(6, 24)}))
            }
        }
    }

    fn check_case(&self, case: &Json, stats: &mut Stats) -> Verdict {
        let reps = case["reps"].as_u64().unwrap_or(6) as usize;
        match case["kind"].as_str().unwrap_or("") {
            "program" => {
                let text = case::materialise(case["text"].as_str().unwrap_or(""), case);
                if has_order(&text) {
                    stats.nontrivial(&text);
                }
                let first = {
                    let t = text.clone();
                    on_fresh_thread(move || outcome_of(&t))
                };
                stats.eval();
                stats.label(if first.starts_with("accepted") { "program accepted" } else { "program rejected" });
                if first.starts_with("rejected") {
                    // two parses of a rejected program give errors that are equal for the host too (and
                    // render alike up to the order in which union members and struct fields are printed)
                    let interp = exec::safe_interpreter();
                    let errors: Vec<simplesl::Error> = (0..3).filter_map(|_| run::guarded(|| simplesl::Code::parse(&interp, &text)).ok().and_then(|r| r.err())).collect();
                    stats.evals(3);
                    for e in errors.iter().skip(1) {
                        if *e != errors[0] {
                            return fail("C05:program:error-equality", format!("`{text}`: two parses are rejected with errors that are not equal to each other: `{}` / `{e}`", errors[0]));
                        }
                    }
                }
                for r in 1..reps {
                    let t = text.clone();
                    let again = on_fresh_thread(move || outcome_of(&t));
                    stats.eval();
                    if again != first {
                        let what = if first.starts_with("accepted") != again.starts_with("accepted") { "acceptance" } else { "outcome" };
                        return fail(
                            format!("C05:program:{what}"),
                            format!("`{text}`\n  repetition 0: {first}\n  repetition {r}: {again}"),
                        );
                    }
                }
                // the third execution of one parsed program gives what the first gives
                if first.starts_with("accepted") {
                    let t = text.clone();
                    let third = on_fresh_thread(move || outcome_of_nth(&t, 3));
                    stats.eval();
                    if third != first {
                        return fail("C05:program:re-execution", format!("`{text}`\n  first execution: {first}\n  third execution of the same parsed program: {third}"));
                    }
                }
                // the same program with its imported files at paths never used before in this process:
                // what a file means is read from the file, not remembered from an earlier import of its path
                if case["files"].as_object().is_some_and(|f| !f.is_empty()) {
                    static FRESH: std::sync::atomic::AtomicU64 = std::sync::atomic::AtomicU64::new(0);
                    let tag = format!("-fresh{}", FRESH.fetch_add(1, std::sync::atomic::Ordering::Relaxed));
                    let moved = case::materialise_in(case["text"].as_str().unwrap_or(""), case, &tag);
                    let dir_of = |t: &str| t.split("import \"").nth(1).and_then(|r| r.split("/lib").next()).map(str::to_string);
                    let (d0, d1) = (dir_of(&text), dir_of(&moved));
                    let m = moved.clone();
                    let elsewhere = on_fresh_thread(move || outcome_of(&m));
                    stats.eval();
                    if let Some(d1) = &d1 {
                        let _ = std::fs::remove_dir_all(d1);
                    }
                    let normal = |o: &str, d: &Option<String>| d.as_ref().map(|d| o.replace(d.as_str(), "@DIR@")).unwrap_or_else(|| o.to_string());
                    if normal(&first, &d0) != normal(&elsewhere, &d1) {
                        return fail(
                            "C05:program:import-path",
                            format!("`{text}`\n  imported files at their usual path: {first}\n  the same files at a path never imported before: {elsewhere}"),
                        );
                    }
                    stats.label("program with imports: also run with its files at a fresh path");
                }
                stats.sample(6, || json!({"program": text, "outcome": first, "repetitions": reps}));
                Verdict::Pass
            }
            "history" => {
                let texts: Vec<String> = case["texts"].as_array().map(|a| a.iter().filter_map(|t| t.as_str().map(str::to_string)).collect()).unwrap_or_default();
                let rounds = case["rounds"].as_u64().unwrap_or(3) as usize;
                if texts.is_empty() {
                    return Verdict::Discard("empty history");
                }
                let alone: Vec<String> = texts
                    .iter()
                    .map(|t| {
                        let t = t.clone();
                        on_fresh_thread(move || outcome_of(&t))
                    })
                    .collect();
                let t2 = texts.clone();
                let seen: Vec<String> = on_fresh_thread(move || {
                    let mut out = vec![];
                    for _ in 0..rounds {
                        for t in &t2 {
                            out.push(outcome_of(t));
                        }
                    }
                    out
                });
                stats.evals((texts.len() * (rounds + 1)) as u64);
                stats.label("history: programs run one after the other on one thread");
                if texts.iter().any(|t| has_order(t)) {
                    stats.nontrivial(&texts.join(" ;; "));
                }
                for (j, o) in seen.iter().enumerate() {
                    let i = j % texts.len();
                    if *o != alone[i] {
                        return fail(
                            "C05:history:outcome",
                            format!(
                                "`{}`\n  on a fresh thread: {}\n  as run number {} on a thread that ran the other programs of the case before: {o}\n  the programs, in order: {:?}",
                                texts[i],
                                alone[i],
                                j + 1,
                                texts
                            ),
                        );
                    }
                }
                stats.sample(3, || json!({"history": texts, "rounds": rounds}));
                Verdict::Pass
            }
            "process" => {
                let texts: Vec<String> = case["texts"].as_array().map(|a| a.iter().filter_map(|t| t.as_str().map(str::to_string)).collect()).unwrap_or_default();
                let children = case["children"].as_u64().unwrap_or(6) as usize;
                stats.label("process: programs run in fresh processes");
                match process_diff(&texts, children, stats) {
                    Err(why) => Verdict::Inconclusive(why),
                    Ok(Some((_, msg))) => fail("C05:process:outcome", msg),
                    Ok(None) => {
                        stats.sample(2, || json!({"programs_run_in_child_processes": texts.len(), "children": children, "first": texts.first()}));
                        Verdict::Pass
                    }
                }
            }
            "types" => {
                let (ta, tb) = (case["a"].as_str().unwrap_or("int").to_string(), case["b"].as_str().unwrap_or("int").to_string());
                if ta.contains('|') || ta.contains("struct{") || tb.contains('|') {
                    stats.nontrivial(&format!("{ta} / {tb}"));
                }
                // reference instance and answers on this thread
                let (Ok(a0), Ok(b0)) = (Type::from_str(&ta), Type::from_str(&tb)) else {
                    return fail("C05:types:parse", format!("{ta} or {tb} does not parse"));
                };
                let m0 = (a0.matches(&b0), b0.matches(&a0));
                let union0 = Ty::from_real(&(a0.clone() | b0.clone()));
                for r in 0..reps {
                    let (ta2, tb2) = (ta.clone(), tb.clone());
                    let (a, b) = on_fresh_thread(move || (Type::from_str(&ta2).unwrap(), Type::from_str(&tb2).unwrap()));
                    stats.evals(6);
                    if a != a0 || b != b0 {
                        return fail("C05:types:eq", format!("two parses of `{}` are not equal (repetition {r})", if a != a0 { &ta } else { &tb }));
                    }
                    if fixed_hash(&a) != fixed_hash(&a0) || fixed_hash(&b) != fixed_hash(&b0) {
                        return fail("C05:types:hash", format!("two equal instances of `{}` hash differently under one hasher", if fixed_hash(&a) != fixed_hash(&a0) { &ta } else { &tb }));
                    }
                    let m = (a.matches(&b), b.matches(&a), a.matches(&b0), a0.matches(&b));
                    if (m.0, m.1) != m0 || m.2 != m0.0 || m.3 != m0.0 {
                        return fail("C05:types:matches", format!("`{ta}` matches `{tb}` answered {m0:?} first and {m:?} on other instances"));
                    }
                    let (u1, u2) = (a.clone() | b.clone(), b.clone() | a.clone());
                    if u1 != u2 {
                        return fail("C05:types:union-commutes", format!("`{ta}` | `{tb}` != `{tb}` | `{ta}`"));
                    }
                    if Ty::from_real(&u1) != union0 {
                        return fail("C05:types:union", format!("`{ta}` | `{tb}` has structure {} first and {} later", union0.print(), Ty::from_real(&u1).print()));
                    }
                    if a.conjoin(&b) != a0.conjoin(&b0) {
                        return fail("C05:types:conjoin", format!("conjoin(`{ta}`, `{tb}`) differs between instances"));
                    }
                    // the default value of the type (filler of exhausted iterators, initial value of `? T`)
                    let default_of = |t: &Type| simplesl::variable::Variable::of_type(t).map(|v| canon::canon(&v).show());
                    for (t, t0, text) in [(&a, &a0, &ta), (&b, &b0, &tb), (&u1, &(a0.clone() | b0.clone()), &format!("{ta}|{tb}"))] {
                        if default_of(t) != default_of(t0) {
                            return fail("C05:types:default", format!("the default value of `{text}` is {:?} on one instance and {:?} on another", default_of(t0), default_of(t)));
                        }
                    }
                }
                stats.sample(3, || json!({"a": ta, "b": tb, "matches": m0.0}));
                Verdict::Pass
            }
            "queries" => {
                let u = case["u"].as_str().unwrap_or("int").to_string();
                let Ok(t0) = Type::from_str(&u) else {
                    return Verdict::Discard("union text does not parse");
                };
                stats.nontrivial(&u);
                let first = format!("{} | printed and read back: {}", queries(&t0), Ty::from_real(&t0).print());
                for r in 0..reps {
                    let u2 = u.clone();
                    // the text a type prints as lists union members in hash order: whatever order comes out,
                    // reading it back gives the same type
                    let again = on_fresh_thread(move || {
                        Type::from_str(&u2)
                            .map(|t| {
                                let back = Type::from_str(&t.to_string()).map(|b| Ty::from_real(&b).print()).unwrap_or_else(|_| format!("`{t}` does not parse"));
                                format!("{} | printed and read back: {back}", queries(&t))
                            })
                            .unwrap_or_else(|_| "does not parse".into())
                    });
                    stats.evals(14);
                    if again != first {
                        return fail("C05:types:queries", format!("what the checker derives from `{u}` differs between two parses (repetition {r})\n  first: {first}\n  later: {again}"));
                    }
                }
                stats.sample(3, || json!({"union": u, "derived": first}));
                Verdict::Pass
            }
            _ => Verdict::Discard("unknown kind"),
        }
    }
}

const ORDER_SENSITIVE: [&str; 19] = [
    "it := [1, \"a\"]~; it(); it(); it()",
    "it := [1, \"a\", 2.5, ()]~; it(); it(); it(); it(); it()",
    "c := mut 0; next := () -> int { c += 1; return *c; }; s := struct{a := next(), b := next(), c := next(), d := next()}; (s.a, s.b, s.c, s.d)",
    "f := (x: (int, int)|(int, int, int)|(int, int, int, int)) -> int { return x.2; }",
    "f := (x: (int, int)|(int, int, int)|(int, int, int, int)) -> int { return x.1; }; f((1, 2))",
    "x := if true { [1] } else { mut 1 }; x",
    "m := mod { a := 1; b := \"s\"; c := 2.5; d := [a]; }; (m.a, m.b, m.c, m.d)",
    "t := [1, \"a\", 2.5]~ ? int|string $]; t",
    "f := (x: int|string|float|()) -> int { return match x { i: int => 1, s: string => 2, o: float|() => 3, }; }; (f(1), f(\"s\"), f(2.5), f(()))",
    "f := (x: struct{a: int, b: string}|struct{a: float, b: string}) -> any { return x.a; }; f(struct{a := 1, b := \"s\"})",
    "f := (g: (int)->int|(float)->float) -> any { return g; }",
    "[mut 1, mut \"s\"]",
    "it := [mut 5]~ ? mut int; it(); c := it().1; c += 7; *c",
    "it := [1]~ ? mut int|mut string; it(); c := it().1; if k: mut int = c { k += 1; }; c",
    "t := [mut \"a\", \"b\", 1]~ ? string|mut string $]; t",
    "t := [mut 1, 2, \"b\"]~ ? mut int|int $]; t",
    "f := (x: string|mut string|int) -> any { return [x]~ ? mut string|string $]; }; (f(\"a\"), f(mut \"b\"), f(1))",
    "total := mut 0; s := [1, 2, 3]~ $ 0 (acc: int, x: int) -> int { total += x; return acc + x; }; (s, *total)",
    "(x: [int]|[string]) -> any { return x[0]; }",
];

/// component types that partially subsume each other (what the checker derives from a union of them
/// is a fold over the members in hash order)
const COMPONENTS: [&str; 18] = [
    "any",
    "int", "float", "string", "[int]", "[int|float]", "[int|float|string]", "[string]", "(int, [int])", "(int, [int|string])",
    "mut int", "mut (int|float)", "mut string", "()->int", "()->int|float", "struct{a: [int]}", "struct{a: [int|string]}", "()",
];

/// a `|` outside every bracket
fn top_level_union(c: &str) -> bool {
    let mut depth = 0i32;
    for ch in c.chars() {
        match ch {
            '(' | '[' | '{' => depth += 1,
            ')' | ']' | '}' => depth -= 1,
            '|' if depth == 0 => return true,
            _ => {}
        }
    }
    false
}

/// a component inside one of nine kinds of type
fn wrapped(c: &str, wrap: usize) -> String {
    match wrap {
        0 => format!("struct{{a: {c}}}"),
        1 => format!("struct{{a: {c}, b: int}}"),
        2 => format!("[{c}]"),
        3 => format!("({c}, int)"),
        4 => format!("(int, {c})"),
        // (a function type is never parenthesised: `mut ()->int|float` is a cell holding a function)
        5 => format!("mut {}", if top_level_union(c) && !c.contains("->") { format!("({c})") } else { c.to_string() }),
        6 => format!("()->{c}"),
        7 => format!("({c})->int"),
        8 => format!("()->(bool, {c})"),
        _ => c.to_string(),
    }
}

/// a cell of the unary matrix together with a call on one of the catalogue's values of the operand type
fn matrix_call(x: usize, t: usize, v: usize) -> String {
    let x = &CATALOGUE[x];
    let program = matrix::unary_program(x.ty, UNARY[t]);
    if x.values.is_empty() {
        return program;
    }
    format!("{program}; f({})", x.values[v % x.values.len()])
}

/// programs whose outcome hangs on process-wide or thread-wide state if anything does: empty sums and
/// products (the helper is chosen among lazily built types), structs built at run time and tested by
/// type (their types are recomputed per value), defaults of union types
const STATEFUL: [&str; 32] = [
    // fillers that are functions returning cells (or compounds holding cells), called and written to
    "it := [() -> mut int { return mut 0; }]~; it(); f := it().1; c := f(); c += 1; *c",
    "it := [() -> mut int { return mut 0; }]~; it(); f := it().1; g := it().1; c := f(); c += 1; d := g(); (*c, *d)",
    "it := [1]~ ? () -> mut int; f := it().1; c := f(); c += 3; *c",
    "it := [() -> (mut int, int) { return (mut 1, 2); }]~; it(); f := it().1; t := f(); c := t.0; c += 5; (*c, *f().0)",
    "it := [() -> [mut string] { return [mut \"a\"]; }]~; it(); f := it().1; a := f(); std.len(a)",
    "it := [() -> struct{c: mut float} { return struct{c := mut 0.5}; }]~; it(); f := it().1; s := f(); s.c += 1.0; (*s.c, *f().c)",
    "it := [(x: int) -> mut [int] { return mut [x]; }]~ @ (f: (int) -> mut [int]) -> (int) -> mut [int] { return f; }; it(); f := it().1; c := f(1); c += [2]; *c",
    // wide struct types tested one after the other (what a test answers is not remembered by address)
    "kind := (s: any) -> int { return match s { v: struct{x: int, y: int, w: int, h: int} => 1, => 0, }; }; (kind(struct{x := 1, y := 2, w := 3, h := 4}), kind(struct{x := \"a\", y := 2, w := 3, h := 4}), kind(struct{x := 1, y := 2, w := 3, h := 4}), kind(struct{x := 1.5, y := 2, w := 3, h := 4}), kind(struct{x := 1, y := 2, w := 3}))",
    "r := mut [int] []; for v in [struct{a := 1, b := 2, c := 3, d := 4, e := 5}, struct{a := \"s\", b := 2, c := 3, d := 4, e := 5}, struct{a := 1, b := 2, c := 3, d := 4, e := 5}, struct{a := 1, b := 2, c := 3, d := 4}]~ { r += [if q: struct{a: int, b: int, c: int, d: int, e: int} = v { 1 } else { 0 }]; }; *r",
    "m := mod { a := 1; b := 2.5; c := \"s\"; d := [1]; }; n := mod { a := \"x\"; b := 2.5; c := \"s\"; d := [1]; }; t := (x: any) -> int { return if q: struct{a: int, b: float, c: string, d: [int]} = x { 1 } else { 0 }; }; (t(m), t(n), t(m), t(n))",
    // fillers that are cells, written to (a filler is made for the iterator that yields it)
    "it := [mut 5]~; it(); f := it().1; f += 7; *f",
    "it := [mut 5]~; it(); f := it().1; g := it().1; f += 7; (*f, *g, f == g)",
    "it := [mut 5]~ ? mut int; it(); f := it().1; f += 7; *f",
    "it := [1]~ ? mut int; f := it().1; f += 7; *f",
    "it := [mut \"a\"]~ @ (c: mut string) -> mut string { return c; }; it(); f := it().1; f += \"x\"; *f",
    "it := [(mut 1, 2)]~; it(); t := it().1; c := t.0; c += 7; *c",
    "[]~ $+",
    "[]~ $*",
    "x := []~ $+; x + 1",
    "f := (a: [int]) -> int { return a~ $+; }; f([])",
    "f := (a: [float]) -> float { return a~ $*; }; f([])",
    "f := (a: [string]) -> string { return a~ $+; }; f([])",
    "f := (it: ()->(bool, int)|()->(bool, string)) -> any { return it $+; }; f([]~)",
    "c := mut 1; s := struct{a := *c + 1}; if v: struct{a: int} = s { \"int\" } else { \"not int\" }",
    "c := mut 1.5; s := struct{a := *c + 1.0}; if v: struct{a: int} = s { \"int\" } else { \"not int\" }",
    "c := mut \"text\"; s := struct{b := *c + \"\"}; if v: struct{b: string} = s { v.b } else { \"no field b\" }",
    "kind := (s: struct{a: int|float}) -> int { return match s { v: struct{a: int} => 0, v: struct{a: float} => 1, => 2, }; }; res := mut [int] []; for x in [1, 1.5, 2, 2.5, 3, 3.5, 4.5, 5]~ { res += [kind(struct{a := x})]; }; *res",
    "s := struct{a := 1 + 1}; if v: struct{a: int} = s { \"int\" } else { \"not int\" }",
    "s := struct{a := 1.5 + 1.0}; if v: struct{a: int} = s { \"int\" } else { \"not int\" }",
    "t := [struct{a := 1}, struct{a := \"s\"}, struct{b := 2}]~ ? struct{a: int} $]; t",
    "it := [1, \"a\"]~ ? float|bool|(); it()",
    "f := (x: any) -> int { return match x { v: [int] => 0, v: [any] => 1, v: struct{} => 2, => 3, }; }; (f([]), f([1]), f([\"s\"]), f(struct{a := 1}), f(1))",
];

/// everything the checker derives from a type when it is used as an operand
fn queries(t: &Type) -> String {
    let one = |f: &dyn Fn() -> Option<Type>| match std::panic::catch_unwind(std::panic::AssertUnwindSafe(f)) {
        Ok(Some(t)) => Ty::from_real(&t).print(),
        Ok(None) => "-".to_string(),
        Err(_) => "panic".to_string(),
    };
    let many = |f: &dyn Fn() -> Option<std::sync::Arc<[Type]>>| match std::panic::catch_unwind(std::panic::AssertUnwindSafe(f)) {
        Ok(Some(ts)) => format!("({})", ts.iter().map(|t| Ty::from_real(t).print()).collect::<Vec<_>>().join(", ")),
        Ok(None) => "-".to_string(),
        Err(_) => "panic".to_string(),
    };
    format!(
        "field a: {} | field b: {} | index: {} | element: {} | cell content: {} | iterator element: {} | result: {} | params: {} | .0: {} | .1: {} | flattened: {} | tuple len: {:?} / {:?}",
        one(&|| t.field_type("a")),
        one(&|| t.field_type("b")),
        one(&|| t.index_result()),
        one(&|| t.element_type()),
        one(&|| t.mut_element_type()),
        one(&|| t.iter_element()),
        one(&|| t.return_type()),
        many(&|| t.params()),
        one(&|| t.tuple_element_at(0)),
        one(&|| t.tuple_element_at(1)),
        many(&|| t.clone().flatten_tuple()),
        t.tuple_len(),
        t.min_tuple_len(),
    )
}

pub fn run(session: &Session) -> i32 {
    crate::engine::run_regressions(session, &C05);
    let reps = session.tier.of(6, 24);
    let mut cases = vec![];
    // every unary cell of the operator x operand-type matrix: acceptance and static types of
    // union-typed operands are where hash order can leak
    for x in CATALOGUE {
        for t in UNARY {
            cases.push(json!({"kind": "program", "text": matrix::unary_program(x.ty, t), "reps": reps}));
        }
    }
    for text in ORDER_SENSITIVE.iter().chain(STATEFUL.iter()) {
        cases.push(json!({"kind": "program", "text": text, "reps": reps * 4}));
    }
    // fillers of exhausted iterators over union types whose members contain unions themselves
    for (u, sample) in [
        ("(int|string, int)|(float|string, bool)", "(1, 2)"),
        ("[int|string]|[float|bool]", "[1]"),
        ("struct{a: int|string}|struct{a: float|(), b: int}", "struct{a := 1}"),
        ("(int|float)|(string|bool, int)|[int|()]", "1"),
        ("mut (int|string)|mut (float|bool)", "mut int|string 1"),
        ("()->(int|string)|()->(float|bool)", "() -> int|string { return 1; }"),
        ("((int|string, bool), int)|((float|(), bool), string)", "((1, true), 2)"),
        // members without any value (a tuple with a `!` component): the filler comes from the others
        ("(int, !)|int|string", "1"),
        ("(!, float)|string|bool|int", "\"s\""),
        ("struct{a: !}|float|[int]|bool", "2.5"),
        ("[(int, !)]|(!, !)|string|int|()", "1"),
        ("mut (int, !)|int|float|string", "1"),
    ] {
        for text in [
            format!("f := (a: [{u}]) -> any {{ it := a~; it(); return it(); }}; f([])"),
            format!("f := (a: [{u}]) -> any {{ it := a~; it(); return it(); }}; f([{sample}])"),
            format!("it := [1]~ @ ((x: int) -> {u} {{ return {sample}; }}); it(); it()"),
            format!("it := [1, \"a\"]~ ? {u}; it()"),
            format!("f := (a: [{u}]) -> any {{ return a~ ? {u} $]; }}; f([{sample}])"),
        ] {
            cases.push(json!({"kind": "program", "text": text, "reps": reps * 4}));
        }
    }
    for text in crate::props::c03::corpus() {
        cases.push(json!({"kind": "program", "text": text, "reps": reps}));
    }
    // every set of three component types inside every kind of type: what the checker derives from the union
    for wrap in 0..9 {
        for i in 0..COMPONENTS.len() {
            for j in i + 1..COMPONENTS.len() {
                for k in j + 1..COMPONENTS.len() {
                    let u = [COMPONENTS[i], COMPONENTS[j], COMPONENTS[k]].map(|c| wrapped(c, wrap)).join("|");
                    cases.push(json!({"kind": "queries", "u": u, "reps": reps}));
                }
            }
        }
    }
    // struct types over the same field names with different field types (two and three fields): their
    // meet, their join, and what the checker derives from a union of functions that take them
    {
        let xs = ["int", "int|float", "int|string", "float", "[int]"];
        let ys = ["int", "bool", "int|bool"];
        for x1 in xs {
            for x2 in xs {
                for y1 in ys {
                    for y2 in ys {
                        if x1 == x2 && y1 == y2 {
                            continue;
                        }
                        let (ta, tb) = (format!("struct{{a: {x1}, b: {y1}}}"), format!("struct{{a: {x2}, b: {y2}}}"));
                        cases.push(json!({"kind": "types", "a": ta, "b": tb, "reps": reps}));
                        cases.push(json!({"kind": "queries", "u": format!("({ta})->int|({tb})->int"), "reps": reps}));
                        if y1 == "int" {
                            let (ta, tb) = (format!("struct{{a: {x1}, b: {y2}, c: {x2}}}"), format!("struct{{a: {x2}, b: {y2}, c: {x1}}}"));
                            cases.push(json!({"kind": "types", "a": ta, "b": tb, "reps": reps}));
                            cases.push(json!({"kind": "queries", "u": format!("({ta}, int)->int|({tb}, int)->int|(struct{{a: int, b: int, c: int}}, int)->int"), "reps": reps}));
                        }
                    }
                }
            }
        }
    }
    session.set_extra("enumerated_cases", json!(cases.len()));
    session.set_extra("repetitions_per_case", json!(reps));
    if !session.stopped() {
        session.run_enum(&C05, cases);
    }
    if !session.stopped() {
        session.run_tapes(&C05, session.tier.of(6_000, 200_000), 600, 0);
    }
    // the result of a program that several threads of one process run on a shared cell is a function of
    // the program too: N increments add N whatever the schedule (the orbit, bit and append workloads of C16)
    {
        let reps = session.tier.of(3, 12);
        for case in [
            json!({"kind": "orbit", "op": "+=", "x0": 0, "k": 1, "threads": 8, "iters": 3000, "reps": reps}),
            json!({"kind": "orbit", "op": "-=", "x0": 0, "k": 3, "threads": 4, "iters": 3000, "reps": reps}),
            json!({"kind": "bits", "op": "|=", "threads": 8, "iters": 7, "reps": reps * 20}),
            json!({"kind": "append", "cell": "array", "threads": 8, "iters": 800, "reps": reps}),
            json!({"kind": "append", "cell": "string", "threads": 8, "iters": 500, "reps": reps}),
        ] {
            if !session.stopped() {
                session.run_one(&crate::props::c16::C16, &case);
            }
        }
    }
    // after unrelated work: the hand-written programs one after the other on one thread
    if !session.stopped() {
        let mut texts: Vec<String> = STATEFUL.iter().map(|t| t.to_string()).collect();
        texts.extend(ORDER_SENSITIVE.iter().map(|t| t.to_string()));
        let mut cases = vec![json!({"kind": "history", "texts": texts, "rounds": 4})];
        // after work that failed: programs that end in each run-time error many calls deep, inside
        // iterator helpers, inside a loop, while a cell is being updated and while a file is being
        // imported, followed by programs that succeed along the same paths - 12 rounds on one thread
        // (whatever an abandoned execution leaves behind adds up)
        {
            let failing = [
                "f := (n: int) -> int { if n == 0 { return [1][5]; } return f(n - 1) + 1; }; f(90)",
                "f := (n: int) -> int { if n == 0 { return 1 / (n - n); } return f(n - 1) + 1; }; f(80)",
                "f := (n: int) -> int { if n == 0 { return 1 << (n + 64); } return f(n - 1) + 1; }; f(70)",
                "f := (n: int) -> [int] { if n == 0 { return [0; n - 1]; } return f(n - 1); }; f(60)",
                "[3, 2, 1, 0]~ @ (x: int) -> int { return 6 / x; } $]",
                "[1, 2, 3]~ ? (x: int) -> bool { return [true][x]; } $]",
                "[1, 2, 0]~ $ 100 (a: int, x: int) -> int { return a % x; }",
                "c := mut 8; k := mut 0; while *k < 5 { k += 1; c /= 3 - *k; }; *c",
                "c := mut 1; for x in [1, 2, 64]~ { c <<= x; }; *c",
                "g := (n: int) -> int { if n == 0 { return 2 ** (n - 1); } return g(n - 1) * 2; }; [g(50)]",
                "m := mod { a := 1; b := [a][a]; }; m.a",
            ];
            let succeeding = [
                "f := (n: int) -> int { if n == 0 { return [1][0]; } return f(n - 1) + 1; }; f(150)",
                "f := (n: int) -> int { if n == 0 { return 0; } return f(n - 1) + 1; }; (f(100), f(120))",
                "[3, 2, 1]~ @ (x: int) -> int { return 6 / x; } $]",
                "[1, 2, 3]~ ? (x: int) -> bool { return [false, true, false, true][x]; } $]",
                "c := mut 8; k := mut 0; while *k < 2 { k += 1; c /= 3 - *k; }; *c",
                "g := (n: int) -> int { if n == 0 { return 1; } return g(n - 1) * 2; }; [g(50)]",
                "m := mod { a := 0; b := [a][a]; }; m.b",
                "odd := (k: int, ev: (int) -> int) -> int { if k <= 0 { return 0; } return 1 + ev(k - 1); }; even := (k: int) -> int { if k <= 0 { return 0; } return 1 + odd(k - 1, even); }; even(140)",
            ];
            let mut texts: Vec<String> = vec![];
            for (k, f) in failing.iter().enumerate() {
                texts.push(f.to_string());
                texts.push(succeeding[k % succeeding.len()].to_string());
            }
            cases.push(json!({"kind": "history", "texts": texts, "rounds": 12}));
            let mut texts: Vec<String> = failing.iter().map(|t| t.to_string()).collect();
            texts.extend(succeeding.iter().map(|t| t.to_string()));
            cases.push(json!({"kind": "history", "texts": texts, "rounds": 12}));
        }
        // imports that fail (a file with a syntax error, a type error, a missing name of the importer, a
        // cycle, an error in a file imported by the imported file) followed by imports of the same files
        // that succeed, on one thread, several rounds: what a failed import was doing is forgotten
        {
            let dir = std::env::temp_dir().join(format!("vcheck-c05-imports-{}", std::process::id()));
            let _ = std::fs::remove_dir_all(&dir);
            let _ = std::fs::create_dir_all(&dir);
            let d = dir.to_string_lossy().to_string();
            for (name, body) in [
                ("lib.sl", "value := k; pair := (k, k);".to_string()),
                ("syntax.sl", "p := := 1".to_string()),
                ("types.sl", "p := 1 + \"a\" * 2;".to_string()),
                ("fold.sl", "p := [1][5];".to_string()),
                ("outer.sl", format!("inner := import \"{d}/lib.sl\"; v := inner.value;")),
                ("outer_bad.sl", format!("first := import \"{d}/lib.sl\"; second := import \"{d}/types.sl\";")),
                ("cyc_a.sl", format!("b := import \"{d}/cyc_b.sl\"; x := 1;")),
                ("cyc_b.sl", format!("a := import \"{d}/cyc_a.sl\"; l := import \"{d}/lib.sl\";")),
                ("plain.sl", "one := 1; two := one + 1;".to_string()),
            ] {
                let _ = std::fs::write(dir.join(name), body);
            }
            let texts: Vec<String> = [
                "lib := import \"D/lib.sl\"; lib",
                "k := 2; lib := import \"D/lib.sl\"; lib.value + 1",
                "b := import \"D/syntax.sl\"; 1",
                "p := import \"D/plain.sl\"; p.two",
                "o := import \"D/outer.sl\"; o.v",
                "k := \"s\"; o := import \"D/outer.sl\"; o.v + \"t\"",
                "k := 1; o := import \"D/outer_bad.sl\"; o",
                "k := 1; lib := import \"D/lib.sl\"; t := import \"D/plain.sl\"; (lib.pair, t.one)",
                "a := import \"D/cyc_a.sl\"; a.x",
                "k := 5; b := import \"D/cyc_b.sl\"; b",
                "k := 5; lib := import \"D/lib.sl\"; lib.value",
                "f := import \"D/fold.sl\"; f",
                "k := [1]; o := import \"D/outer.sl\"; std.len(o.v)",
                "t := import \"D/types.sl\"; t",
                "k := 2.5; lib := import \"D/lib.sl\"; p := import \"D/plain.sl\"; (lib.value, p.two)",
            ]
            .iter()
            .map(|t| t.replace("D/", &format!("{d}/")))
            .collect();
            cases.push(json!({"kind": "history", "texts": texts, "rounds": 6}));
            let mut back = texts.clone();
            back.reverse();
            cases.push(json!({"kind": "history", "texts": back, "rounds": 6}));
        }
        for x in 0..CATALOGUE.len() {
            // every unary cell of one operand type, each called on a value of the type
            let texts: Vec<String> = (0..UNARY.len()).map(|t| matrix_call(x, t, t)).collect();
            cases.push(json!({"kind": "history", "texts": texts, "rounds": 2}));
        }
        session.run_enum(&C05, cases);
        let _ = std::fs::remove_dir_all(std::env::temp_dir().join(format!("vcheck-c05-imports-{}", std::process::id())));
    }
    // in other processes: the hand-written programs, the unary matrix with calls and generated programs
    if !session.stopped() {
        let mut texts: Vec<String> = STATEFUL.iter().map(|t| t.to_string()).collect();
        texts.extend(ORDER_SENSITIVE.iter().map(|t| t.to_string()));
        for x in 0..CATALOGUE.len() {
            for t in 0..UNARY.len() {
                texts.push(matrix_call(x, t, x + t));
            }
        }
        for data in session.sample_tapes(session.tier.of(600, 6000), 600, 7) {
            let mut tape = Tape::new(data);
            if let Ok(built) = case::build(&mut tape, Profile::GENERAL)
                && case::import_files(&built.program).is_empty()
            {
                texts.push(case::print(&built.program, Hide::None));
            }
        }
        let children = session.tier.of(6, 16);
        session.set_extra("programs_run_in_child_processes", json!(texts.len()));
        session.set_extra("child_processes", json!(children));
        let mut st = Stats::default();
        let diff = process_diff(&texts, children, &mut st);
        st.label("process: programs run in fresh processes");
        session.merge_stats(st);
        match diff {
            Ok(None) => {}
            Ok(Some((i, _))) => {
                // narrow to the one program (more children: the difference is a matter of chance)
                let single = json!({"kind": "process", "texts": [texts[i]], "children": children * 3});
                if !matches!(session.run_one(&C05, &single), Verdict::Fail(_)) {
                    session.run_one(&C05, &json!({"kind": "process", "texts": texts, "children": children}));
                }
            }
            Err(why) => {
                *session.harness_error.lock().unwrap() = Some(format!("cross-process comparison: {why}"));
            }
        }
    }
    session.finish(
        "each case is parsed and run 6 (quick) / 24 (thorough) times, every repetition on a fresh thread (fresh hash keys): all unary cells of the operator x operand-type matrix (60 operand types incl. unions of tuples of different lengths, of structs, muts, arrays, functions, iterators), a hand-written list of order-sensitive programs (exhausted iterators over union element types, struct literals with effectful initialisers, modules, tuple unions, type filters with unions; 4x the repetitions), the documentation corpus, tape-generated typed programs and random binary matrix cells; acceptance, error kind, static type (union members and struct fields sorted by the harness) and canonical value must be identical across repetitions. For unions of 3-4 members of one kind with partially subsuming components, everything the checker derives from the union (field, index, element, cell-content, iterator-element, result and parameter types, tuple components and lengths) must be the same structure on every parse. For pairs of generated types: instances parsed on different threads must be ==, hash equally under one fixed hasher, answer `matches`, `|` (both orders) and conjoin identically. Non-trivial = the case contains a union with >= 2 members or a struct with >= 2 fields; distinct by text.",
        false,
        &["hash keys come from the operating system: VERIF_SEED fixes the cases, not the iteration orders; on a correct tree the check is deterministic, detection of an order-dependent defect is probabilistic (>= 1 - 2^-(K-1) for a two-way choice)"],
    )
}
