//! C09 — indexing, slicing and len agree for all sequences and indices.
use crate::{
    engine::{Property, Session, Stats, Tier, Verdict, fail},
    lit,
    run::{self, Outcome},
    tape::Tape,
    ty::{self, Ty},
};
use serde_json::{Value as Json, json};
use simplesl::{function::Function, variable::Variable};
use std::{cell::RefCell, collections::HashMap, sync::Arc};

pub struct C09Prop;
pub static C09: C09Prop = C09Prop;

thread_local! {
    static FUNS: RefCell<HashMap<String, Option<Arc<Function>>>> = RefCell::new(HashMap::new());
}

fn function_for(text: &str, stdlib: bool) -> Option<Arc<Function>> {
    FUNS.with(|f| {
        f.borrow_mut()
            .entry(text.to_string())
            .or_insert_with(|| match run::run_text(text, stdlib) {
                Outcome::Value(Variable::Function(f)) => Some(f),
                _ => None,
            })
            .clone()
    })
}

/// Python's slice.indices + range, on i128 so that nothing overflows; step 0 selects nothing
fn py_slice(n: usize, start: Option<i64>, stop: Option<i64>, step: Option<i64>) -> Vec<usize> {
    let n = n as i128;
    let step = step.map(|s| s as i128).unwrap_or(1);
    if step == 0 {
        return vec![];
    }
    let (lower, upper) = if step > 0 { (0, n) } else { (-1, n - 1) };
    let clamp = |v: Option<i64>, default: i128| match v {
        None => default,
        Some(v) => {
            let v = v as i128;
            if v < 0 { (v + n).max(lower) } else { v.min(upper) }
        }
    };
    let start = clamp(start, if step < 0 { upper } else { lower });
    let stop = clamp(stop, if step < 0 { lower } else { upper });
    let mut out = vec![];
    let mut i = start;
    while (step > 0 && i < stop) || (step < 0 && i > stop) {
        out.push(i as usize);
        i += step;
    }
    out
}

fn seq_elems(seq: &Json) -> Vec<Json> {
    match seq {
        Json::Array(xs) => xs.clone(),
        Json::String(s) => s.chars().map(|c| json!(c.to_string())).collect(),
        _ => vec![],
    }
}

fn rebuild(seq: &Json, idx: &[usize]) -> Json {
    let elems = seq_elems(seq);
    match seq {
        Json::String(_) => json!(idx.iter().map(|i| elems[*i].as_str().unwrap().to_string()).collect::<String>()),
        _ => Json::Array(idx.iter().map(|i| elems[*i].clone()).collect()),
    }
}

fn opt_i(v: &Json) -> Option<i64> {
    v.as_i64()
}

fn bound_text(v: Option<i64>) -> String {
    v.map(|i| lit::to_text(&json!(i))).unwrap_or_default()
}

fn slice_suffix(a: Option<i64>, b: Option<i64>, c: Option<i64>, names: bool) -> String {
    let t = |v: Option<i64>, name: &str| {
        if names { v.map(|_| name.to_string()).unwrap_or_default() } else { bound_text(v) }
    };
    if c.is_some() {
        format!("[{}:{}:{}]", t(a, "a"), t(b, "b"), t(c, "c"))
    } else {
        format!("[{}:{}]", t(a, "a"), t(b, "b"))
    }
}

fn compare(o: &Outcome, expected: &Result<Json, &'static str>, folded: bool) -> Result<(), String> {
    match (o, expected) {
        (Outcome::Value(v), Ok(e)) => match lit::from_var(v) {
            Some(got) if got == *e => Ok(()),
            Some(got) => Err(format!("expected {}, got {}", lit::show(e), lit::show(&got))),
            None => Err(format!("expected {}, got {}", lit::show(e), ty::show(v))),
        },
        (Outcome::ExecError(k), Err(e)) if k == e => Ok(()),
        (Outcome::Rejected(k), Err(e)) if folded && k == e => Ok(()),
        (o, Ok(e)) => Err(format!("expected {}, got {}", lit::show(e), o.short())),
        (o, Err(e)) => Err(format!("expected error {e}, got {}", o.short())),
    }
}

impl Property for C09Prop {
    fn id(&self) -> &'static str {
        "C09"
    }

    fn gen_case(&self, tape: &mut Tape, _tier: Tier) -> Option<Json> {
        let seq = gen_seq(tape, 9);
        let n = seq_elems(&seq).len() as i64;
        let idx = |tape: &mut Tape| -> i64 {
            match tape.weighted(&[6, 2, 1]) {
                0 => tape.range(-n - 4, n + 4),
                1 => *tape.pick(&EXTREMES),
                _ => tape.u64() as i64,
            }
        };
        if tape.chance(1, 4) {
            let i = idx(tape);
            Some(json!({"seq": seq, "op": "at", "i": i}))
        } else {
            let mut b = [Json::Null, Json::Null, Json::Null];
            for slot in b.iter_mut() {
                if tape.chance(2, 3) {
                    *slot = json!(idx(tape));
                }
            }
            let colon2 = !b[2].is_null() || tape.bool();
            Some(json!({"seq": seq, "op": "slice", "a": b[0], "b": b[1], "c": b[2], "colon2": colon2}))
        }
    }

    fn check_case(&self, case: &Json, stats: &mut Stats) -> Verdict {
        let seq = &case["seq"];
        let is_str = seq.is_string();
        let elems = seq_elems(seq);
        let n = elems.len();
        let seq_text = lit::to_text(seq);
        let param_ty = if is_str { "string" } else { "[any]" };
        let op = case["op"].as_str().unwrap_or("");
        let key = case.to_string();
        let seq_var = match run::run_text(&seq_text, false) {
            Outcome::Value(v) => v,
            o => return fail("C09:literal", format!("sequence literal `{seq_text}` gave {}", o.short())),
        };
        match op {
            "history" => {
                // strings built at run time one after the other (each dropped before the next is made): the
                // length and the negative index of each are its own, whatever was measured before it
                let parts: Vec<(String, String)> = case["parts"]
                    .as_array()
                    .map(|a| a.iter().map(|p| (p[0].as_str().unwrap_or("").to_string(), p[1].as_str().unwrap_or("").to_string())).collect())
                    .unwrap_or_default();
                let filler = "g(\"p\", \"q\"); ".repeat(case["filler"].as_u64().unwrap_or(0) as usize);
                let mut expected = vec![];
                for (a, b) in &parts {
                    let whole = format!("{a}{b}");
                    expected.push(json!(whole.chars().count()));
                    expected.push(json!(whole.chars().last().map(String::from).unwrap_or_default()));
                    expected.push(json!(whole.chars().next().map(String::from).unwrap_or_default()));
                }
                let lits: Vec<(String, String)> = parts.iter().map(|(a, b)| (lit::to_text(&json!(a)), lit::to_text(&json!(b)))).collect();
                let text = if case["form"].as_u64().unwrap_or(0) == 0 {
                    let calls: Vec<String> = lits.iter().enumerate().map(|(k, (a, b))| format!("r{k} := f({a}, {b}); {filler}")).collect();
                    let sum: Vec<String> = (0..lits.len()).map(|k| format!("r{k}")).collect();
                    format!(
                        "g := (a: string, b: string) -> string {{ return a + b; }}; f := (a: string, b: string) -> [int|string] {{ s := a + b; return [std.len(s), s[-1], s[0 - std.len(s)]]; }}; {} {}",
                        calls.join(" "),
                        sum.join(" + ")
                    )
                } else {
                    let pairs: Vec<String> = lits.iter().map(|(a, b)| format!("({a}, {b})")).collect();
                    format!(
                        "g := (a: string, b: string) -> string {{ return a + b; }}; out := mut [int|string] []; for p in [{}]~ {{ s := p.0 + p.1; out += [std.len(s), s[-1], s[0 - std.len(s)]]; {filler}}}; *out",
                        pairs.join(", ")
                    )
                };
                stats.eval();
                stats.nontrivial(&key);
                stats.label("history of run-time strings");
                let o = run::run_text(&text, true);
                if let Err(why) = compare(&o, &Ok(Json::Array(expected)), false) {
                    return fail("C09:history", format!("`{text}`: {why}"));
                }
                Verdict::Pass
            }
            "len" => {
                stats.eval();
                stats.nontrivial(&key);
                stats.label(if is_str { "len string" } else { "len array" });
                let o = run::run_text(&format!("std.len({seq_text})"), true);
                if let Err(why) = compare(&o, &Ok(json!(n)), true) {
                    return fail("C09:len:folded", format!("`std.len({seq_text})`: {why}"));
                }
                let ftext = format!("(s: {param_ty}) -> int {{ return std.len(s); }}");
                let Some(f) = function_for(&ftext, true) else {
                    return fail("C09:len:function", format!("`{ftext}` not accepted"));
                };
                stats.eval();
                run::default_budget();
                let o = match run::guarded(|| f.clone().create_call(vec![seq_var.clone()])) {
                    Ok(Ok(code)) => run::exec_guarded(&code),
                    Ok(Err(e)) => Outcome::Rejected(run::error_kind(&e)),
                    Err(c) => Outcome::Panic { phase: "create_call", msg: format!("{c:?}"), loc: c.sig() },
                };
                if let Err(why) = compare(&o, &Ok(json!(n)), false) {
                    return fail("C09:len:runtime", format!("`{ftext}` on {seq_text}: {why}"));
                }
                Verdict::Pass
            }
            "at" => {
                let i = case["i"].as_i64().unwrap();
                let expected: Result<Json, &'static str> = if (i as i128) >= -(n as i128) && (i as i128) < n as i128 {
                    let k = if i < 0 { (n as i128 + i as i128) as usize } else { i as usize };
                    Ok(elems[k].clone())
                } else {
                    Err("IndexOutOfBounds")
                };
                let edge = i == -(n as i64) || i == n as i64 || i == n as i64 - 1 || i == -(n as i64) - 1 || EXTREMES.contains(&i);
                stats.label(if expected.is_ok() { "at in-bounds" } else { "at out-of-bounds" });
                if edge {
                    stats.label("at boundary index");
                    stats.nontrivial(&key);
                }
                if is_str && !seq.as_str().unwrap().is_ascii() {
                    stats.label("multi-byte string");
                    stats.nontrivial(&key);
                }
                stats.sample(3, || json!({"case": case, "text": format!("{seq_text}[{}]", bound_text(Some(i)))}));
                // folded
                let text = format!("{seq_text}[{}]", bound_text(Some(i)));
                stats.eval();
                let o = run::run_text(&text, false);
                if let Err(why) = compare(&o, &expected, true) {
                    return fail("C09:at:folded", format!("`{text}`: {why}"));
                }
                // run time through the host API
                let ftext = format!("(s: {param_ty}, i: int) -> any {{ return s[i]; }}");
                let Some(f) = function_for(&ftext, false) else {
                    return fail("C09:at:function", format!("`{ftext}` not accepted"));
                };
                stats.eval();
                run::default_budget();
                let args = vec![seq_var.clone(), Variable::Int(i)];
                let o = match run::guarded(|| f.clone().create_call(args)) {
                    Ok(Ok(code)) => run::exec_guarded(&code),
                    Ok(Err(e)) => Outcome::Rejected(run::error_kind(&e)),
                    Err(c) => Outcome::Panic { phase: "create_call", msg: format!("{c:?}"), loc: c.sig() },
                };
                if let Err(why) = compare(&o, &expected, false) {
                    return fail("C09:at:runtime", format!("`{ftext}` on ({seq_text}, {i}): {why}"));
                }
                // partially constant routes: constant index on a run-time sequence, and a literal
                // array with one run-time element indexed by a constant
                stats.eval();
                let text = format!("f := (s: {param_ty}) -> any {{ return s[{}]; }}; f({seq_text})", bound_text(Some(i)));
                let o = run::run_text(&text, false);
                if let Err(why) = compare(&o, &expected, true) {
                    return fail("C09:at:constant-index", format!("`{text}`: {why}"));
                }
                // a parameter that may be a string or an array (a union of two indexable types)
                stats.eval();
                let text = format!("f := (s: string|[any], i: int) -> any {{ return (s[i], std.len(s)); }}; f({seq_text}, {})", bound_text(Some(i)));
                let o = run::run_text(&text, true);
                let both = expected.clone().map(|e| lit::tuple(vec![e, json!(n)]));
                if let Err(why) = compare(&o, &both, true) {
                    return fail("C09:at:union-typed-sequence", format!("`{text}`: {why}"));
                }
                // inside closures: the sequence and the index are names of the enclosing scope
                for text in [
                    format!("s := *(mut {param_ty} {seq_text}); f := () -> any {{ return (s[{}], std.len(s)); }}; f()", bound_text(Some(i))),
                    format!("s := *(mut {param_ty} {seq_text}); i := *(mut int {}); f := () -> any {{ g := () -> any {{ return (s[i], std.len(s)); }}; return g(); }}; f()", bound_text(Some(i))),
                    format!("mk := (s: {param_ty}, i: int) -> () -> any {{ return () -> any {{ return (s[i], std.len(s)); }}; }}; mk({seq_text}, {})()", bound_text(Some(i))),
                ] {
                    stats.eval();
                    let o = run::run_text(&text, true);
                    if let Err(why) = compare(&o, &both, true) {
                        return fail("C09:at:captured", format!("`{text}`: {why}"));
                    }
                }
                // the index inside a stage of an iterator pipeline that is collected (the gather idiom): an
                // index out of bounds ends the collection with the error, not with what was gathered so far
                {
                    let text = format!("f := (s: {param_ty}, i: int) -> any {{ g := [0, i]~ @ (j: int) -> any {{ return s[j * 1]; }} $]; return (g[std.len(g) - 1], std.len(s), std.len(g)); }}; f({seq_text}, {})", bound_text(Some(i)));
                    stats.eval();
                    let o = run::run_text(&text, true);
                    let want: Result<Json, &'static str> = if n == 0 { Err("IndexOutOfBounds") } else { expected.clone().map(|e| lit::tuple(vec![e, json!(n), json!(2)])) };
                    if let Err(why) = compare(&o, &want, true) {
                        return fail("C09:at:gather", format!("`{text}`: {why}"));
                    }
                }
                // the index as the tested expression of an if-set / while-set: an index out of bounds is an
                // error there too, not a failed test
                for text in [
                    format!("f := (s: {param_ty}, i: int) -> any {{ if v: any = s[i] {{ return (v, std.len(s)); }} else {{ return \"else\"; }} }}; f({seq_text}, {})", bound_text(Some(i))),
                    format!("f := (s: {param_ty}, i: int) -> any {{ if v: string|int = s[i] {{ return (s[i], std.len(s)); }} return (s[i], std.len(s)); }}; f({seq_text}, {})", bound_text(Some(i))),
                    format!("f := (s: {param_ty}, i: int) -> any {{ while v: any = s[i] {{ return (v, std.len(s)); }}; return \"after\"; }}; f({seq_text}, {})", bound_text(Some(i))),
                ] {
                    stats.eval();
                    let o = run::run_text(&text, true);
                    if let Err(why) = compare(&o, &both, true) {
                        return fail("C09:at:tested-expression", format!("`{text}`: {why}"));
                    }
                }
                // the index as a statement whose value is discarded (it still fails out of bounds), and the
                // sequence reached through binders (match arm, if-set) spelled like outer constants
                let discarded = expected.clone().map(|_| json!(n));
                let kind_ty = if is_str { "string" } else { "[any]" };
                for (text, want) in [
                    (format!("f := (s: {param_ty}, i: int) -> any {{ s[i]; return std.len(s); }}; f({seq_text}, {})", bound_text(Some(i))), &discarded),
                    (format!("s := *(mut {param_ty} {seq_text}); i := *(mut int {}); r := {{ s[i]; std.len(s) }}; r", bound_text(Some(i))), &discarded),
                    (format!("f := (s: {param_ty}) -> any {{ if true {{ s[{}]; }}; return std.len(s); }}; f({seq_text})", bound_text(Some(i))), &discarded),
                    (
                        format!("s := \"sample\"; a := [9, 9, 9, 9, 9, 9, 9]; at := (v: string|[any], i: int) -> any {{ return match v {{ s: string => (s[i], std.len(s)), a: [any] => (a[i], std.len(a)), }}; }}; at({seq_text}, {})", bound_text(Some(i))),
                        &both,
                    ),
                    (
                        format!("s := \"sample\"; at := (v: string|[any], i: int) -> any {{ if s: {kind_ty} = v {{ return (s[i], std.len(s)); }} return 0; }}; at({seq_text}, {})", bound_text(Some(i))),
                        &both,
                    ),
                ] {
                    stats.eval();
                    let o = run::run_text(&text, true);
                    if let Err(why) = compare(&o, want, true) {
                        return fail("C09:at:statement-or-binder", format!("`{text}`: {why}"));
                    }
                }
                // `[v; k][i]`: a repeated constant behind a length known only at run time
                if !is_str && n > 0 && elems.iter().all(|e| e == &elems[0]) || (!is_str && n == 0) {
                    let v = if n > 0 { lit::to_text(&elems[0]) } else { "7".to_string() };
                    for text in [
                        format!("f := (k: int) -> any {{ return [{v}; k][{}]; }}; f({n})", bound_text(Some(i))),
                        format!("f := (k: int, i: int) -> any {{ return [{v}; k][i]; }}; f({n}, {})", bound_text(Some(i))),
                        format!("[{v}; {n}][{}]", bound_text(Some(i))),
                    ] {
                        stats.eval();
                        let o = run::run_text(&text, false);
                        let exp = if n == 0 { Err("IndexOutOfBounds") } else { expected.clone() };
                        if let Err(why) = compare(&o, &exp, true) {
                            return fail("C09:at:repeated", format!("`{text}`: {why}"));
                        }
                    }
                }
                if !is_str && n > 0 {
                    for hole in [0, n - 1] {
                        let mut parts: Vec<String> = elems.iter().map(lit::to_text).collect();
                        let arg = std::mem::replace(&mut parts[hole], "x".to_string());
                        let text = format!("f := (x: any) -> any {{ return [{}][{}]; }}; f({arg})", parts.join(", "), bound_text(Some(i)));
                        stats.eval();
                        let o = run::run_text(&text, false);
                        if let Err(why) = compare(&o, &expected, true) {
                            return fail("C09:at:literal-with-run-time-element", format!("`{text}`: {why}"));
                        }
                    }
                }
                Verdict::Pass
            }
            "slice" => {
                let (a, b, c) = (opt_i(&case["a"]), opt_i(&case["b"]), opt_i(&case["c"]));
                let colon2 = case["colon2"].as_bool().unwrap_or(false) || c.is_some();
                let idx = py_slice(n, a, b, c);
                let expected = rebuild(seq, &idx);
                let extreme = [a, b, c].iter().flatten().any(|v| EXTREMES.contains(v));
                let negative_step = c.is_some_and(|c| c < 0);
                stats.label(match (a.is_some(), b.is_some(), c.is_some()) {
                    (false, false, false) => "slice [:]",
                    (true, false, false) => "slice [a:]",
                    (false, true, false) => "slice [:b]",
                    (true, true, false) => "slice [a:b]",
                    (false, false, true) => "slice [::c]",
                    (true, false, true) => "slice [a::c]",
                    (false, true, true) => "slice [:b:c]",
                    (true, true, true) => "slice [a:b:c]",
                });
                if negative_step {
                    stats.label("negative step");
                }
                if c == Some(0) {
                    stats.label("zero step");
                }
                if extreme {
                    stats.label("extreme bound");
                }
                if a.is_some() || b.is_some() || c.is_some() {
                    stats.nontrivial(&key);
                }
                let suffix = {
                    let s = slice_suffix(a, b, c, false);
                    if colon2 && c.is_none() { format!("{}:]", s.trim_end_matches(']')) } else { s }
                };
                let text = format!("{seq_text}{suffix}");
                stats.sample(6, || json!({"case": case, "text": text, "expected": lit::show(&expected)}));
                // folded route + static type of the slice expression
                stats.eval();
                run::default_budget();
                let o = match run::parse_type(&text, false) {
                    Ok(Ok((code, static_type))) => {
                        let o = run::exec_guarded(&code);
                        if let Outcome::Value(v) = &o {
                            let st = Ty::from_real(&static_type);
                            if let Some(why) = ty::not_inhabits(v, &st, 0) {
                                return fail("C09:slice:type", format!("`{text}` has static type {} but {why}", st.print()));
                            }
                        }
                        o
                    }
                    Ok(Err(k)) => Outcome::Rejected(k),
                    Err(o) => o,
                };
                if let Err(why) = compare(&o, &Ok(expected.clone()), true) {
                    return fail("C09:slice:folded", format!("`{text}`: {why}"));
                }
                // a sequence of the same kind as s: the slice of an array of T is an array of T, whichever
                // elements it selects
                let same_kind = |o: &Outcome| -> Option<String> {
                    use simplesl::variable::Typed;
                    match o {
                        Outcome::Value(v) if v.as_type() != seq_var.as_type() => Some(format!("the slice is a {}, the sequence a {}", v.as_type(), seq_var.as_type())),
                        _ => None,
                    }
                };
                if let Some(why) = same_kind(&o) {
                    return fail("C09:slice:kind", format!("`{text}`: {why}"));
                }
                // run-time route: sequence and bounds are arguments
                let mut params = vec![format!("s: {param_ty}")];
                let mut args = vec![seq_var.clone()];
                for (name, v) in [("a", a), ("b", b), ("c", c)] {
                    if let Some(v) = v {
                        params.push(format!("{name}: int"));
                        args.push(Variable::Int(v));
                    }
                }
                let named = {
                    let s = slice_suffix(a, b, c, true);
                    if colon2 && c.is_none() { format!("{}:]", s.trim_end_matches(']')) } else { s }
                };
                let ret = if is_str { "string" } else { "[any]" };
                let ftext = format!("({}) -> {ret} {{ return s{named}; }}", params.join(", "));
                let Some(f) = function_for(&ftext, false) else {
                    return fail(
                        "C09:slice:function",
                        format!("`{ftext}` was not accepted although a slice of a {param_ty} is a {ret}"),
                    );
                };
                stats.eval();
                run::default_budget();
                let shown = format!("{args:?}");
                let o = match run::guarded(|| f.clone().create_call(args)) {
                    Ok(Ok(code)) => run::exec_guarded(&code),
                    Ok(Err(e)) => Outcome::Rejected(run::error_kind(&e)),
                    Err(c) => Outcome::Panic { phase: "create_call", msg: format!("{c:?}"), loc: c.sig() },
                };
                if let Err(why) = compare(&o, &Ok(expected.clone()), false) {
                    return fail("C09:slice:runtime", format!("`{ftext}` on {shown}: {why}"));
                }
                if let Some(why) = same_kind(&o) {
                    return fail("C09:slice:kind", format!("`{ftext}` on {shown}: {why}"));
                }
                // a parameter that may be a string or an array
                stats.eval();
                let text = format!("f := (s: string|[any]) -> any {{ return s{suffix}; }}; f({seq_text})");
                let o = run::run_text(&text, false);
                if let Err(why) = compare(&o, &Ok(expected.clone()), true) {
                    return fail("C09:slice:union-typed-sequence", format!("`{text}`: {why}"));
                }
                // constant bounds on a run-time sequence
                stats.eval();
                let text = format!("f := (s: {param_ty}) -> {ret} {{ return s{suffix}; }}; f({seq_text})");
                let o = run::run_text(&text, false);
                if let Err(why) = compare(&o, &Ok(expected.clone()), true) {
                    return fail("C09:slice:constant-bounds", format!("`{text}`: {why}"));
                }
                // the slice equals the sequence of the elements it selects, whichever side of `==` it is on
                // (a slice keeps what it knows about its source; equality is by content)
                let exp_text = lit::to_text(&expected);
                let eq_text = format!("f := (s: {param_ty}) -> any {{ x := s{suffix}; m := match ({exp_text}) {{ (x) => 1, => 0, }}; return ({exp_text} == x, x == {exp_text}, [x] == [{exp_text}], {exp_text} != x, m); }}; f({seq_text})");
                stats.eval();
                let o = run::run_text(&eq_text, true);
                let want = lit::tuple(vec![json!(true), json!(true), json!(true), json!(false), json!(1)]);
                if let Err(why) = compare(&o, &Ok(want), true) {
                    return fail("C09:slice:equality", format!("`{eq_text}`: {why}"));
                }
                // the sequence reached through binders spelled like outer constants
                let kind_ty = if is_str { "string" } else { "[any]" };
                for text in [
                    format!("s := \"sample\"; a := [9, 9, 9, 9, 9, 9, 9]; cut := (v: string|[any]) -> any {{ return match v {{ s: string => s{suffix}, a: [any] => a{suffix}, }}; }}; cut({seq_text})"),
                    format!("s := [8, 8, 8, 8, 8, 8]; cut := (v: string|[any]) -> any {{ if s: {kind_ty} = v {{ return s{suffix}; }} return 0; }}; cut({seq_text})"),
                ] {
                    stats.eval();
                    let o = run::run_text(&text, true);
                    if let Err(why) = compare(&o, &Ok(expected.clone()), true) {
                        return fail("C09:slice:binder", format!("`{text}`: {why}"));
                    }
                }
                // inside closures: the sequence and the bounds are names of the enclosing scope
                let decls: String = [("a", a), ("b", b), ("c", c)].iter().filter_map(|(n, v)| v.map(|v| format!("{n} := *(mut int {}); ", bound_text(Some(v))))).collect();
                let typed: String = [("a", a), ("b", b), ("c", c)].iter().filter_map(|(n, v)| v.map(|_| format!(", {n}: int"))).collect();
                let given: String = [a, b, c].iter().filter_map(|v| v.map(|v| format!(", {}", bound_text(Some(v))))).collect();
                for text in [
                    format!("s := *(mut {param_ty} {seq_text}); f := () -> any {{ return s{suffix}; }}; f()"),
                    format!("{decls}f := (s: {param_ty}) -> any {{ return s{named}; }}; f({seq_text})"),
                    format!("s := *(mut {param_ty} {seq_text}); {decls}f := () -> any {{ g := () -> any {{ return s{named}; }}; return g(); }}; f()"),
                    format!("mk := (s: {param_ty}{typed}) -> () -> any {{ return () -> any {{ return s{named}; }}; }}; mk({seq_text}{given})()"),
                ] {
                    stats.eval();
                    let o = run::run_text(&text, true);
                    if let Err(why) = compare(&o, &Ok(expected.clone()), true) {
                        return fail("C09:slice:captured", format!("`{text}`: {why}"));
                    }
                }
                // the slice used at once: indexed and sliced again inside the same expression (every index
                // of the result and one beyond each end; five second slices), sequence literal and parameter
                let m = idx.len() as i64;
                let tail = b.is_none() && c.is_none();
                if m <= 12 && (tail || a.unwrap_or(0).wrapping_add(b.unwrap_or(1).wrapping_mul(3)).wrapping_add(c.unwrap_or(2).wrapping_mul(7)).rem_euclid(4) == 0) {
                    stats.label("slice used at once (chained index / slice)");
                    let picked = seq_elems(&expected);
                    for k in -(m + 1)..=m {
                        let want: Result<Json, &'static str> = if k >= -m && k < m { Ok(picked[(if k < 0 { k + m } else { k }) as usize].clone()) } else { Err("IndexOutOfBounds") };
                        for text in [
                            format!("{seq_text}{suffix}[{k}]"),
                            format!("f := (s: {param_ty}) -> any {{ return s{suffix}[{k}]; }}; f({seq_text})"),
                            format!("f := (s: {param_ty}, i: int) -> any {{ return s{suffix}[i]; }}; f({seq_text}, {k})"),
                        ] {
                            stats.eval();
                            let o = run::run_text(&text, false);
                            if let Err(why) = compare(&o, &want, true) {
                                return fail("C09:slice:chained-index", format!("`{text}`: {why}"));
                            }
                        }
                    }
                    for (p, q, r) in [(Some(1), None, None), (None, Some(-1), None), (None, None, Some(-1)), (Some(-2), None, None), (Some(0), None, Some(2))] {
                        let want = rebuild(&expected, &py_slice(idx.len(), p, q, r));
                        let second = slice_suffix(p, q, r, false);
                        for text in [format!("{seq_text}{suffix}{second}"), format!("f := (s: {param_ty}) -> any {{ return s{suffix}{second}; }}; f({seq_text})")] {
                            stats.eval();
                            let o = run::run_text(&text, false);
                            if let Err(why) = compare(&o, &Ok(want.clone()), true) {
                                return fail("C09:slice:chained-slice", format!("`{text}`: {why}"));
                            }
                        }
                    }
                }
                // bounds that are themselves computed by slicing (and measuring) another sequence of the
                // same kind and of the other kind, while the outer operation is under way
                let small = |v: Option<i64>| v.is_none_or(|v| (-6..=6).contains(&v));
                if small(a) && small(b) && small(c) && (a.is_some() || b.is_some() || c.is_some()) {
                    stats.label("bounds computed from slices of another sequence");
                    for other in ["\"qwerty\"", "[7, 7, 7, 7, 7, 7]"] {
                        let bound = |v: Option<i64>| match v {
                            None => String::new(),
                            Some(v) if v >= 0 => format!("std.len({other}[{}:])", 6 - v),
                            Some(v) => format!("(0 - std.len({other}[{}:]))", 6 + v),
                        };
                        let inner = if c.is_some() || colon2 { format!("[{}:{}:{}]", bound(a), bound(b), bound(c)) } else { format!("[{}:{}]", bound(a), bound(b)) };
                        for text in [format!("{seq_text}{inner}"), format!("f := (s: {param_ty}) -> any {{ return s{inner}; }}; f({seq_text})")] {
                            stats.eval();
                            let o = run::run_text(&text, true);
                            if let Err(why) = compare(&o, &Ok(expected.clone()), true) {
                                return fail("C09:slice:computed-bounds", format!("`{text}`: {why}"));
                            }
                        }
                    }
                }
                Verdict::Pass
            }
            "program" => {
                // a program with the value the documented selection gives, written as a literal
                let text = case["text"].as_str().unwrap_or("");
                let expected = case["expected"].as_str().unwrap_or("");
                stats.evals(2);
                stats.nontrivial(text);
                stats.label("one slicing operation executed repeatedly with changing bounds");
                let (got, want) = (run::run_text(text, true), run::run_text(expected, true));
                match (&got, &want) {
                    (Outcome::Value(g), Outcome::Value(w)) if lit::from_var(g).is_some() && lit::from_var(g) == lit::from_var(w) => Verdict::Pass,
                    _ => fail("C09:slice:repeated", format!("`{text}`: expected {expected}, got {}", got.short())),
                }
            }
            _ => Verdict::Discard("unknown op"),
        }
    }
}

const EXTREMES: [i64; 10] = [
    i64::MIN,
    i64::MIN + 1,
    i64::MAX,
    i64::MAX - 1,
    1 << 32,
    -(1 << 32),
    (1 << 32) + 1,
    1 << 31,
    -(1 << 31) - 1,
    1 << 62,
];

const CHARS: [char; 4] = ['a', 'é', '€', '😀'];

/// scalars whose UTF-8 encoding has a first / last possible lead or continuation byte
/// (80, BF in every position; the ends of the 1-, 2-, 3- and 4-byte ranges)
const BOUNDARY_CHARS: [char; 14] = [
    '\u{7f}', '\u{80}', '\u{bf}', '\u{ff}', '\u{43f}', '\u{7ff}', '\u{800}', '\u{d7ff}', '\u{e000}', '\u{fffd}', '\u{ffff}', '\u{10000}',
    '\u{3ffff}', '\u{10ffff}',
];

fn mixed_elem(k: usize) -> Json {
    match k % 6 {
        0 => json!(k as i64 * 10),
        1 => lit::float(k as f64 + 0.5),
        2 => json!(format!("s{k}")),
        3 => json!(k % 2 == 0),
        4 => json!([k as i64]),
        _ => Json::Null,
    }
}

fn gen_seq(tape: &mut Tape, max: i64) -> Json {
    let n = tape.range(0, max) as usize;
    match tape.weighted(&[3, 2, 3]) {
        0 => Json::Array((0..n).map(|k| json!(k as i64 * 10)).collect()),
        1 => Json::Array((0..n).map(|k| mixed_elem(k + tape.below(6))).collect()),
        _ => json!((0..n).map(|_| if tape.chance(1, 4) { *tape.pick(&BOUNDARY_CHARS) } else { *tape.pick(&CHARS) }).collect::<String>()),
    }
}

fn sequences(max: usize) -> Vec<Json> {
    let mut out = vec![];
    for n in 0..=max {
        out.push(Json::Array((0..n).map(|k| json!(k as i64 * 10)).collect()));
        if n > 0 {
            out.push(Json::Array((0..n).map(mixed_elem).collect()));
        }
    }
    // every string over the four character classes up to length 3, a sample of longer ones
    let mut strings = vec![String::new()];
    let mut frontier = vec![String::new()];
    for _ in 0..3 {
        let mut next = vec![];
        for s in &frontier {
            for c in CHARS {
                next.push(format!("{s}{c}"));
            }
        }
        strings.extend(next.iter().cloned());
        frontier = next;
    }
    for n in 4..=max {
        strings.push((0..n).map(|k| CHARS[(k * 7 + n) % 4]).collect());
        strings.push((0..n).map(|k| CHARS[(k + 1) % 4]).collect());
    }
    for n in 0..=max.min(4) {
        out.push(Json::Array((0..n).map(|_| json!(7)).collect()));
    }
    // boundary scalars alone, next to ASCII and next to each other
    for c in BOUNDARY_CHARS {
        strings.push(c.to_string());
        strings.push(format!("a{c}"));
        strings.push(format!("{c}a"));
        for d in BOUNDARY_CHARS {
            strings.push(format!("{c}{d}"));
        }
    }
    out.extend(strings.into_iter().map(|s| json!(s)));
    out
}

pub fn run(session: &Session) -> i32 {
    crate::engine::run_regressions(session, &C09);
    let max = session.tier.of(4, 6);
    let mut cases = vec![];
    for seq in sequences(max) {
        let n = seq_elems(&seq).len() as i64;
        cases.push(json!({"seq": seq, "op": "len"}));
        let mut indices: Vec<i64> = (-n - 3..=n + 3).collect();
        indices.extend(EXTREMES);
        for i in &indices {
            cases.push(json!({"seq": seq, "op": "at", "i": i}));
        }
        // strings longer than 2 only get the full slice sweep in the thorough tier (arrays always do)
        if seq.is_string() && n > 2 && session.tier == Tier::Quick && !seq.as_str().unwrap().starts_with("aé") {
            continue;
        }
        let mut bounds: Vec<Json> = vec![Json::Null];
        bounds.extend((-n - 2..=n + 2).map(|v| json!(v)));
        bounds.push(json!(i64::MIN));
        bounds.push(json!(i64::MAX));
        let mut steps = bounds.clone();
        steps.push(json!(i64::MIN + 1));
        for a in &bounds {
            for b in &bounds {
                for c in &steps {
                    cases.push(json!({"seq": seq, "op": "slice", "a": a, "b": b, "c": c, "colon2": !c.is_null()}));
                }
                cases.push(json!({"seq": seq, "op": "slice", "a": a, "b": b, "c": null, "colon2": true}));
            }
        }
    }
    // long sequences (lengths around 64, 128, 256, 1000; strings of ASCII and of mixed widths, arrays):
    // len, the indices at both ends and around the powers of two, a handful of slices
    for n in [63usize, 64, 65, 66, 127, 128, 129, 255, 256, 257, 1000] {
        let ascii: String = (0..n).map(|k| char::from(b'a' + (k % 26) as u8)).collect();
        let mixed: String = (0..n).map(|k| CHARS[k % 4]).collect();
        let array: Vec<Json> = (0..n as i64).map(|k| json!(k * 3 + 1)).collect();
        for seq in [json!(ascii), json!(mixed), json!(array)] {
            cases.push(json!({"seq": seq, "op": "len"}));
            let n = n as i64;
            for i in [0, 1, 62, 63, 64, 65, n - 2, n - 1, n, -1, -2, -n, -n - 1, -64, -65] {
                cases.push(json!({"seq": seq, "op": "at", "i": i}));
            }
            for (a, b, c) in [(Json::Null, Json::Null, Json::Null), (json!(0), Json::Null, Json::Null), (json!(1), Json::Null, Json::Null), (json!(60), Json::Null, Json::Null), (Json::Null, json!(-1), Json::Null), (json!(62), json!(67), Json::Null), (Json::Null, Json::Null, json!(-1)), (json!(-3), Json::Null, Json::Null), (Json::Null, Json::Null, json!(7)), (json!(64), json!(2), json!(-9))] {
                cases.push(json!({"seq": seq, "op": "slice", "a": a, "b": b, "c": c, "colon2": !c.is_null()}));
            }
        }
    }
    // one slicing operation executed again and again with bounds that change between the executions while
    // the sequence stays (a captured constant, a literal, a parameter): each execution selects by its own bounds
    for (seq_text, is_str, len) in [("[10, 11, 12, 13, 14, 15, 16]", false, 7usize), ("\"abcdefg\"", true, 7)] {
        let elems: Vec<Json> = if is_str { "abcdefg".chars().map(|c| json!(c.to_string())).collect() } else { (10..17).map(|k| json!(k)).collect() };
        let render = |idx: Vec<usize>| -> String {
            if is_str { format!("\"{}\"", idx.iter().map(|i| elems[*i].as_str().unwrap()).collect::<String>()) } else { format!("[{}]", idx.iter().map(|i| elems[*i].to_string()).collect::<Vec<_>>().join(", ")) }
        };
        for (form, which) in [("s[::k]", 2), ("s[k:]", 0), ("s[:k]", 1), ("s[k::2]", 0), ("s[1:k:1]", 1), ("s[5:0:k]", 2)] {
            let values: &[i64] = if which == 2 { &[1, 2, -1, 3, -2, 1] } else { &[0, 2, -1, 5, 9, -9, 0] };
            let want: Vec<String> = values
                .iter()
                .map(|k| {
                    let (a, b, c) = match form {
                        "s[::k]" => (None, None, Some(*k)),
                        "s[k:]" => (Some(*k), None, None),
                        "s[:k]" => (None, Some(*k), None),
                        "s[k::2]" => (Some(*k), None, Some(2)),
                        "s[1:k:1]" => (Some(1), Some(*k), Some(1)),
                        _ => (Some(5), Some(0), Some(*k)),
                    };
                    render(py_slice(len, a, b, c))
                })
                .collect();
            let calls: Vec<String> = values.iter().map(|k| format!("f({k})")).collect();
            let expected = format!("({})", want.join(", "));
            for text in [
                format!("s := {seq_text}; f := (k: int) -> any {{ return {form}; }}; ({})", calls.join(", ")),
                format!("f := (k: int) -> any {{ return {}; }}; ({})", form.replace("s[", &format!("{seq_text}[")), calls.join(", ")),
                format!("s := *(mut any {seq_text}); g := (s: {}, k: int) -> any {{ return {form}; }}; f := (k: int) -> any {{ return g({seq_text}, k); }}; ({})", if is_str { "string" } else { "[int]" }, calls.join(", ")),
                format!("s := {seq_text}; out := mut [any] []; for k in [{}]~ {{ out += [{form}]; }}; ks := *out; ({})", values.iter().map(|k| k.to_string()).collect::<Vec<_>>().join(", "), (0..values.len()).map(|i| format!("ks[{i}]")).collect::<Vec<_>>().join(", ")),
            ] {
                cases.push(json!({"op": "program", "seq": "", "text": text, "expected": expected}));
            }
        }
    }
    {
        // histories of strings with the same number of bytes and different numbers of scalars
        let classes: [&[&str]; 4] = [&["ab", "é", "xy"], &["abc", "aé", "éa", "€", "xyz", "ßq"], &["abcd", "éé", "a€", "𝄞", "aéb", "€a"], &["abcdef", "€€", "ééé", "𝄞é", "aé€"]];
        for class in classes {
            for x in class {
                for y in class {
                    if x == y {
                        continue;
                    }
                    for filler in 0..4 {
                        for form in 0..2 {
                            // each string split after its first scalar, and taken whole
                            let split = |s: &str| {
                                let k = s.chars().next().map(char::len_utf8).unwrap_or(0);
                                json!([s[..k], s[k..]])
                            };
                            let whole = |s: &str| json!([s, ""]);
                            cases.push(json!({"seq": "", "op": "history", "parts": [split(x), split(y), split(x), whole(y), whole(x), split(y)], "filler": filler, "form": form}));
                        }
                    }
                }
            }
        }
    }
    session.set_extra("enumerated_cases", json!(cases.len()));
    session.set_extra("max_length_swept", json!(max));
    if !session.stopped() {
        session.run_enum(&C09, cases);
    }
    if !session.stopped() {
        session.run_tapes(&C09, session.tier.of(40_000, 2_000_000), 40, 0);
    }
    session.finish(
        "all arrays (distinct ints; mixed element types) of length 0..=max and all strings over {ASCII, 2-, 3-, 4-byte scalar} up to length 3 (+ samples up to max) and all strings of length 1-2 over 14 scalars whose UTF-8 encoding has a boundary lead or continuation byte (80 / BF in each position, ends of the 1-4 byte ranges) x every index in [-n-3, n+3] plus 10 extreme i64 values x every (start, stop, step) with each bound absent or in [-n-2, n+2] or MIN/MAX (exhaustive), plus tape-generated longer sequences and random bounds; oracle = Python's slice.indices re-implemented on i128, `[]` for step 0, index ok iff -n <= i < n, std.len = number of scalars; folded route (literal text, incl. the static type of the slice admitting the value), partially constant routes (constant index / bounds on a run-time sequence; literal array with one run-time element; `[v; k][i]` with k known only at run time), a parameter typed `string|[any]` and run-time route (function value called through create_call with the sequence and bounds as arguments; the function is declared to return the same kind as its argument). Non-trivial = a slice with at least one bound, an index on/next to a boundary or extreme, or a multi-byte string; distinct by case.",
        true,
        &["exhaustive over the stated small scope only; longer sequences are sampled"],
    )
}
