//! C10 — the subtype relation obeys its laws and is sound for values.
use crate::{
    engine::{Property, Session, Stats, Tier, Verdict, fail},
    genr::types::{TyCfg, gen_ty, gen_ty_at, narrow, perturb, widen},
    run,
    sem,
    tape::Tape,
    ty::Ty,
};
use serde_json::{Value as Json, json};
use simplesl::variable::{Type, Typed};
use std::str::FromStr;

pub struct C10Prop;
pub static C10: C10Prop = C10Prop;

fn real(text: &str) -> Option<Type> {
    Type::from_str(text).ok()
}

/// `a.matches(b)` under the panic guard
fn matches(a: &Type, b: &Type) -> Result<bool, String> {
    run::guarded(|| a.matches(b)).map_err(|c| c.sig())
}

fn union_real(members: &[Type]) -> Result<Type, String> {
    run::guarded(|| {
        let mut it = members.iter().cloned();
        let first = it.next().unwrap();
        it.fold(first, |acc, t| acc | t)
    })
    .map_err(|c| c.sig())
}

macro_rules! law {
    ($cond:expr, $sig:expr, $($msg:tt)*) => {
        if !$cond {
            return fail(format!("C10:{}", $sig), format!($($msg)*));
        }
    };
}

macro_rules! tri {
    ($e:expr, $what:expr) => {
        match $e {
            Ok(v) => v,
            Err(sig) => return fail(format!("C10:panic:{}", sig), format!("{} panicked ({sig})", $what)),
        }
    };
}

impl Property for C10Prop {
    fn id(&self) -> &'static str {
        "C10"
    }

    fn gen_case(&self, tape: &mut Tape, tier: Tier) -> Option<Json> {
        let cfg = TyCfg::full(tier.of(3, 4));
        let a = gen_ty(tape, &cfg);
        let mode = tape.weighted(&[4, 3, 2, 2]);
        let (b, c, how) = match mode {
            0 => {
                // chain by derivation: A <= B <= C expected
                let mut b = a.clone();
                for _ in 0..=tape.below(2) {
                    b = widen(tape, &b, &cfg);
                }
                let mut c = b.clone();
                for _ in 0..=tape.below(2) {
                    c = widen(tape, &c, &cfg);
                }
                (b, c, "widened")
            }
            1 => {
                let b = perturb(tape, &a, &cfg);
                let c = widen(tape, &b, &cfg);
                (b, c, "perturbed")
            }
            2 => {
                let b = narrow(tape, &a);
                let c = gen_ty_at(tape, &cfg, 2);
                (b, c, "narrowed")
            }
            _ => (gen_ty(tape, &cfg), gen_ty_at(tape, &cfg, 2), "independent"),
        };
        Some(json!({"a": a.print(), "b": b.print(), "c": c.print(), "how": how}))
    }

    fn check_case(&self, case: &Json, stats: &mut Stats) -> Verdict {
        if case["kind"].as_str() == Some("membership") {
            return check_membership(case, stats);
        }
        if case["kind"].as_str() == Some("default") {
            return check_default(case, stats);
        }
        if case["kind"].as_str() == Some("derived") {
            // a value made at run time from an operand that is narrower than the declared type of its
            // position (a `[string]` for a parameter `[int|string]`, a predicate over `int|float` on an
            // iterator over int): what is made belongs to the type the checker gives it, and so does
            // everything it yields later - judged by the type monitor of C01 on every expression
            let text = case["text"].as_str().unwrap_or("");
            return match crate::props::soundness::C01.check_case(&json!({"kind": "program", "text": text}), stats) {
                Verdict::Fail(f) => fail(format!("C10:derived-value:{}", f.sig), f.msg),
                v => v,
            };
        }
        let (ta, tb, tc) = (
            case["a"].as_str().unwrap_or("int"),
            case["b"].as_str().unwrap_or("int"),
            case["c"].as_str().unwrap_or("int"),
        );
        let (Some(a), Some(b), Some(c)) = (real(ta), real(tb), real(tc)) else {
            return fail("C10:parse", format!("a generated type text did not parse: {ta} / {tb} / {tc}"));
        };
        let (ha, hb, hc) = (Ty::from_real(&a), Ty::from_real(&b), Ty::from_real(&c));
        let how = case["how"].as_str().unwrap_or("?");
        stats.label(&format!("pair {how}"));
        let key = format!("{ta} <: {tb} <: {tc}");
        let never = Type::Never;
        let any = Type::Any;

        // 1. reflexivity (same instance and a second, independently built instance)
        stats.evals(2);
        law!(tri!(matches(&a, &a), "matches"), "reflexive", "{ta} does not match itself");
        let a2 = real(ta).unwrap();
        law!(tri!(matches(&a, &a2), "matches"), "reflexive2", "{ta} does not match a second parse of the same text");
        law!(tri!(matches(&a2, &a), "matches"), "reflexive2", "a second parse of {ta} does not match the first");
        // 2. bounds
        stats.evals(2);
        law!(tri!(matches(&never, &a), "matches"), "bottom", "! does not match {ta}");
        law!(tri!(matches(&a, &any), "matches"), "top", "{ta} does not match any");

        let ab = tri!(matches(&a, &b), "matches");
        let bc = tri!(matches(&b, &c), "matches");
        let ac = tri!(matches(&a, &c), "matches");
        stats.evals(3);
        stats.label(if ab { "A<=B affirmed" } else { "A<=B denied" });
        let trivial = ha == hb || hb == Ty::Any || ha == Ty::Never;
        if !trivial {
            stats.nontrivial(&key);
        }
        stats.sample(8, || json!({"a": ta, "b": tb, "c": tc, "how": how, "a<=b": ab, "b<=c": bc}));
        // 3. transitivity where the implementation itself affirmed both links
        if ab && bc {
            stats.label("chain A<=B<=C");
            law!(ac, "transitive", "{ta} matches {tb} and {tb} matches {tc}, but {ta} does not match {tc}");
        }
        // 8. value soundness: A matches B but some value of A is not a value of B
        if ab && let Some(w) = sem::find_witness(&ha, &hb) {
            return fail(
                "C10:value-soundness",
                format!("{ta} matches {tb}, but the value {} belongs to {ta} and not to {tb}", w.text()),
            );
        }
        if ab {
            stats.label("value soundness checked");
        }
        // 4. congruences as equivalences
        stats.evals(6);
        let arr = |t: &Type| Type::Array(t.clone().into());
        let cong = tri!(matches(&arr(&a), &arr(&b)), "matches");
        law!(cong == ab, "array-covariant", "[{ta}] matches [{tb}] is {cong} although {ta} matches {tb} is {ab}");
        let tup = |t: &Type| Type::Tuple([Type::Int, t.clone()].into());
        let cong = tri!(matches(&tup(&a), &tup(&b)), "matches");
        law!(cong == ab, "tuple-covariant", "(int, {ta}) matches (int, {tb}) is {cong} although {ta} matches {tb} is {ab}");
        let st = |t: &Type| real(&format!("struct{{a: int, f: {}}}", Ty::from_real(t).print())).unwrap();
        let (sa, sb) = (st(&a), st(&b));
        let cong = tri!(matches(&sa, &sb), "matches");
        law!(cong == ab, "struct-covariant", "struct{{a: int, f: {ta}}} matches struct{{a: int, f: {tb}}} is {cong} although {ta} matches {tb} is {ab}");
        // width: more fields is a subtype of fewer fields, never the other way round
        let narrow_struct = real(&format!("struct{{f: {}}}", hb.print())).unwrap();
        let cong = tri!(matches(&sa, &narrow_struct), "matches");
        law!(cong == ab, "struct-width", "struct{{a: int, f: {ta}}} matches struct{{f: {tb}}} is {cong} although {ta} matches {tb} is {ab}");
        let back = tri!(matches(&narrow_struct, &sb), "matches");
        law!(!back, "struct-width-reverse", "struct{{f: {tb}}} matches struct{{a: int, f: {tb}}} although the field a is missing");
        let fres = |t: &Type| real(&format!("(int)->{}", Ty::from_real(t).print_paren())).unwrap();
        let cong = tri!(matches(&fres(&a), &fres(&b)), "matches");
        law!(cong == ab, "result-covariant", "(int)->{ta} matches (int)->{tb} is {cong} although {ta} matches {tb} is {ab}");
        let fpar = |t: &Type| real(&format!("({}, int)->int", Ty::from_real(t).print())).unwrap();
        let cong = tri!(matches(&fpar(&b), &fpar(&a)), "matches");
        law!(cong == ab, "param-contravariant", "({tb}, int)->int matches ({ta}, int)->int is {cong} although {ta} matches {tb} is {ab}");
        // mut: invariant
        stats.evals(2);
        let cell = |t: &Type| Type::Mut(t.clone().into());
        let mab = tri!(matches(&cell(&a), &cell(&b)), "matches");
        if mab {
            let ba = tri!(matches(&b, &a), "matches");
            law!(ab && ba, "mut-invariant", "mut {ta} matches mut {tb} although the contents are not equivalent ({ta} <= {tb}: {ab}, {tb} <= {ta}: {ba})");
        }
        law!(tri!(matches(&cell(&a), &cell(&a2)), "matches"), "mut-reflexive", "mut {ta} does not match mut of an equal type");
        // 5. a union (built with the implementation's `|`, incrementally and in several orders)
        //    is an upper bound of its members
        stats.evals(6);
        for order in [[&a, &b, &c], [&c, &b, &a], [&b, &c, &a]] {
            let members: Vec<Type> = order.iter().map(|t| (*t).clone()).collect();
            let u = tri!(union_real(&members), "type union");
            for m in &members {
                let hm = Ty::from_real(m).print();
                law!(
                    tri!(matches(m, &u), "matches"),
                    "union-upper-bound",
                    "{hm} does not match the union {} built from [{}]",
                    Ty::from_real(&u).print(),
                    members.iter().map(|t| Ty::from_real(t).print()).collect::<Vec<_>>().join(" | ")
                );
            }
        }
        // 6. (A|B) <= C  <=>  A <= C and B <= C
        let u = tri!(union_real(&[a.clone(), b.clone()]), "type union");
        let uc = tri!(matches(&u, &c), "matches");
        law!(uc == (ac && bc), "union-least", "({ta})|({tb}) matches {tc} is {uc}, but {ta} matches {tc} is {ac} and {tb} matches {tc} is {bc}");
        // 7. the meet is a lower bound
        stats.evals(2);
        let meet = tri!(run::guarded(|| a.conjoin(&b)).map_err(|c| c.sig()), "conjoin");
        let hm = Ty::from_real(&meet).print();
        law!(tri!(matches(&meet, &a), "matches"), "meet-lower-bound", "conjoin({ta}, {tb}) = {hm} does not match {ta}");
        law!(tri!(matches(&meet, &b), "matches"), "meet-lower-bound", "conjoin({ta}, {tb}) = {hm} does not match {tb}");
        let _ = hc;
        // 9. a type value with a history is the type it denotes: a union that was asked every public
        //    question (printed, compared, its parameter / result / element / field types derived) and
        //    then widened with `|` or `|=` answers every question with a type equivalent to the answer of
        //    the same union built in one go (`|=` may absorb members that lie below others, so answers
        //    are compared up to mutual `matches`, not by structure)
        stats.evals(3);
        type Answers = Vec<(&'static str, Option<Type>)>;
        let questions = |t: &Type| -> Result<Answers, String> {
            run::guarded(|| {
                let mut out: Answers = vec![
                    ("its printed text read back", Type::from_str(&t.to_string()).ok()),
                    ("result type", t.return_type()),
                    ("element type", t.element_type()),
                    ("index result", t.index_result()),
                    ("cell content type", t.mut_element_type()),
                    ("iterator element type", t.iter_element()),
                    ("component 0", t.tuple_element_at(0)),
                    ("component 1", t.tuple_element_at(1)),
                    ("field a", t.field_type("a")),
                    ("field f", t.field_type("f")),
                    ("itself", Some(t.clone())),
                ];
                match t.params() {
                    Some(ps) => {
                        for (k, p) in ps.iter().enumerate().take(3) {
                            out.push((["parameter 0", "parameter 1", "parameter 2"][k], Some(p.clone())));
                        }
                        out.push(("number of parameters", Some(Type::Tuple(ps.iter().map(|_| Type::Int).collect::<Vec<_>>().into()))));
                    }
                    None => out.push(("parameter 0", None)),
                }
                out
            })
            .map_err(|c| c.sig())
        };
        // the parameter types a union of functions answers with are a meet: C10 asks of it only that it
        // lie below the corresponding parameter of every member (with absorbed members the meet may be
        // another lower bound than the one the unabsorbed union gives), so they are judged by that
        let all_members: Vec<Type> = vec![a.clone(), b.clone(), c.clone()];
        let two_members: Vec<Type> = vec![a.clone(), b.clone()];
        let meet_ok = |x: &Answers, members: &[Type]| -> Result<Option<String>, String> {
            run::guarded(|| {
                for (name, ax) in x {
                    let Some(k) = name.strip_prefix("parameter ").and_then(|k| k.parse::<usize>().ok()) else { continue };
                    let Some(p) = ax else { continue };
                    for m in members {
                        if let Some(ps) = m.params()
                            && let Some(mp) = ps.get(k)
                            && !p.matches(mp)
                        {
                            return Some(format!("parameter {k}: {} does not lie below the parameter {} of the member {}", Ty::from_real(p).print(), Ty::from_real(mp).print(), Ty::from_real(m).print()));
                        }
                    }
                }
                None
            })
            .map_err(|c| c.sig())
        };
        let same_for = |x: &Answers, y: &Answers, members: &[Type]| -> Result<Option<String>, String> {
            if let Some(bad) = meet_ok(x, members)? {
                return Ok(Some(bad));
            }
            run::guarded(|| {
                for (name, ax) in x {
                    if name.starts_with("parameter ") || *name == "number of parameters" {
                        continue;
                    }
                    let ay = y.iter().find(|(n, _)| n == name).and_then(|(_, a)| a.clone());
                    let agree = match (ax, &ay) {
                        (None, None) => true,
                        (Some(p), Some(q)) => p.matches(q) && q.matches(p),
                        _ => false,
                    };
                    if !agree {
                        let show = |o: &Option<Type>| o.as_ref().map(|t| Ty::from_real(t).print()).unwrap_or_else(|| "none".into());
                        return Some(format!("{name}: {} against {}", show(ax), show(&ay)));
                    }
                }
                None
            })
            .map_err(|c| c.sig())
        };
        let fresh = tri!(union_real(&[a.clone(), b.clone(), c.clone()]), "type union");
        let want = tri!(questions(&fresh), "type queries");
        let first = tri!(union_real(&[a.clone(), b.clone()]), "type union");
        let _ = tri!(questions(&first), "type queries");
        let grown = tri!(run::guarded(|| first | c.clone()).map_err(|c| c.sig()), "type union");
        let got = tri!(questions(&grown), "type queries");
        if let Some(diff) = tri!(same_for(&got, &want, &all_members), "matches") {
            return fail("C10:type-with-history", format!("({ta})|({tb}) was asked about and then joined with {tc}: it differs from the union built in one go in {diff}"));
        }
        let mut second = tri!(union_real(&[b.clone(), a.clone()]), "type union");
        let _ = tri!(questions(&second), "type queries");
        let keep = second.clone();
        tri!(run::guarded(|| second |= c.clone()).map_err(|c| c.sig()), "type union");
        let got = tri!(questions(&second), "type queries");
        if let Some(diff) = tri!(same_for(&got, &want, &all_members), "matches") {
            return fail("C10:type-with-history", format!("({tb})|({ta}) was asked about and then widened by |= {tc}: it differs from the union built in one go in {diff}"));
        }
        let kept = tri!(questions(&keep), "type queries");
        let again = tri!(questions(&tri!(union_real(&[a.clone(), b.clone()]), "type union")), "type queries");
        if let Some(diff) = tri!(same_for(&kept, &again, &two_members), "matches") {
            return fail("C10:type-with-history", format!("a copy of ({tb})|({ta}) taken before the original was widened differs from that union in {diff}"));
        }
        Verdict::Pass
    }
}

/// every value of the operand catalogue, evaluated once: (text, value, its run-time type)
fn catalogue_values() -> &'static Vec<(&'static str, simplesl::variable::Variable, Ty)> {
    static V: std::sync::OnceLock<Vec<(&'static str, simplesl::variable::Variable, Ty)>> = std::sync::OnceLock::new();
    V.get_or_init(|| {
        let mut out: Vec<(&'static str, simplesl::variable::Variable, Ty)> = vec![];
        // (beyond the catalogue: values whose types differ from catalogue types in a component only)
        const MORE: [&str; 34] = [
            "[1, 2]", "[\"s\", \"t\"]", "[2.5]", "(1, true)", "(\"s\", true)", "(2.5, false)", "[[1], [2]]", "[[\"s\"]]", "(1, \"s\")", "(\"s\", 1)",
            "[[], [1]]", "[[1], [1, \"s\"]]", "[struct{a := 1, b := 2}, struct{a := 3}]", "[(1, []), (2, [\"s\"])]", "[[1, 2], [2.5]]", "[mut 1, mut 2.5]",
            "struct{a := \"s\"}", "struct{a := 2.5}", "struct{a := 1, b := 2}", "struct{b := 1}", "struct{a := [1]}", "struct{a := 1, c := 2}", "struct{b := 1, c := 2, d := 3}", "[1, \"s\"]", "[2.5, true]", "[1, 2.5]", "[[1], [\"s\"]]",
            "(1, \"s\")", "(1, 2, 3)", "(2.5, 1)", "mut int|string 1", "mut float|bool true", "(x: int) -> int { return x; }", "(x: string) -> int { return 1; }",
        ];
        let more = crate::genr::matrix::Operand { ty: "any", values: &MORE };
        // (the look-alike values first: the selection below takes the first few values of every kind)
        for o in [&more].into_iter().chain(crate::genr::matrix::CATALOGUE.iter()) {
            for text in o.values {
                if out.iter().any(|(t, ..)| t == text) {
                    continue;
                }
                if let run::Outcome::Value(v) = crate::exec::run_program(text, false).outcome {
                    let t = Ty::from_real(&v.as_type());
                    out.push((text, v, t));
                }
            }
        }
        out
    })
}

/// the language's own membership test (if-set, type arm of match) of a value against a type T answers
/// what the relation answers for the value's type, whatever the declared type S of the tested
/// expression is and whatever the same test answered for the values before it
pub(crate) fn check_membership(case: &Json, stats: &mut Stats) -> Verdict {
    let (ts, tt) = (case["s"].as_str().unwrap_or("any"), case["t"].as_str().unwrap_or("any"));
    let form = case["form"].as_u64().unwrap_or(0);
    let texts: Vec<&str> = case["values"].as_array().map(|a| a.iter().filter_map(|v| v.as_str()).collect()).unwrap_or_default();
    let Some(t) = Ty::parse(tt) else {
        return Verdict::Discard("tested type not read by the harness");
    };
    let mut expected: Vec<Json> = vec![];
    for text in &texts {
        let Some((_, v, _)) = catalogue_values().iter().find(|(x, ..)| x == text) else {
            return Verdict::Discard("value text outside the catalogue");
        };
        expected.push(json!(if crate::ty::not_inhabits(v, &t, 0).is_none() { 1 } else { 0 }));
    }
    if form == 7 {
        // the host API admits a value for a parameter of type T exactly when the value belongs to T
        let program = format!("g := (x: {tt}) -> int {{ return 1; }}; g");
        let g = match crate::exec::run_program(&program, false).outcome {
            run::Outcome::Value(simplesl::variable::Variable::Function(g)) => g,
            _ => return Verdict::Discard("parameter type not accepted"),
        };
        stats.label("membership: host call admission");
        for (text, want) in texts.iter().zip(&expected) {
            let Some((_, v, _)) = catalogue_values().iter().find(|(x, ..)| x == text) else { continue };
            stats.eval();
            let admitted = match run::guarded(|| g.clone().create_call(vec![v.clone()])) {
                Ok(r) => r.is_ok(),
                Err(c) => return fail(format!("C10:membership:form7:{}", c.sig()), format!("create_call of `{program}` with {text} panicked")),
            };
            if json!(if admitted { 1 } else { 0 }) != *want {
                return fail(
                    "C10:membership:form7",
                    format!("`{program}` called through the host API with {text}: {} although the value {} {tt}", if admitted { "admitted" } else { "refused" }, if *want == json!(1) { "belongs to" } else { "does not belong to" }),
                );
            }
        }
        stats.nontrivial(&format!("{program} <- {texts:?}"));
        return Verdict::Pass;
    }
    let body = match form {
        0 => format!("if v: {tt} = x {{ return 1; }} return 0;"),
        1 => format!("return match x {{ v: {tt} => 1, => 0, }};"),
        2 => format!("r := mut 0; while v: {tt} = x {{ r = 1; break; }}; return *r;"),
        3 => format!("if v: {tt} = x {{ return 1; }} else {{ return 0; }}"),
        // a type filter keeps exactly the elements that belong to the type
        4 => format!("return std.len([x]~ ? {tt} $]);"),
        // two filters in a row keep what belongs to both (x belongs to its declared type)
        5 => format!("return std.len([x]~ ? {ts} ? {tt} $]);"),
        // a cell made from x without a declared type is a cell of x's static type: it belongs to `mut T`
        // exactly when T is that type (cells are invariant), whatever x holds
        _ => format!("c := mut x; if v: {} = c {{ return 1; }} return 0;", cell_of(tt)),
    };
    if form == 6 {
        if tt.contains("->") && cell_of(&tt.replace("->", "")).starts_with("mut (") {
            // (a union of function types after `mut` is not written unambiguously by this harness)
            return Verdict::Discard("union of function types as cell content");
        }
        let Some(hs) = Ty::parse(ts) else {
            return Verdict::Discard("declared type not read by the harness");
        };
        // (equivalent but differently written content types, e.g. a union with a redundant member, are
        // left to the implementation: it may be stricter than equivalence, never laxer)
        let equivalent = crate::ty::sub(&hs, &t) && crate::ty::sub(&t, &hs);
        if equivalent && hs != t {
            return Verdict::Discard("cell content types equivalent but not identical");
        }
        for e in expected.iter_mut() {
            *e = json!(if hs == t { 1 } else { 0 });
        }
    }
    let calls: Vec<String> = texts.iter().map(|v| format!("f({v})")).collect();
    let text = format!("f := (x: {ts}) -> int {{ {body} }}; [{}]", calls.join(", "));
    stats.eval();
    let o = crate::exec::run_program(&text, false).outcome;
    match &o {
        run::Outcome::Rejected(_) => return Verdict::Discard("membership program rejected by the checker"),
        run::Outcome::Aborted(_) => return Verdict::Inconclusive("budget"),
        _ => {}
    }
    stats.label("membership programs executed");
    stats.nontrivial(&text);
    let want = Json::Array(expected);
    let got = match &o {
        run::Outcome::Value(v) => crate::lit::from_var(v),
        _ => None,
    };
    if got.as_ref() != Some(&want) {
        return fail(
            format!("C10:membership:form{form}"),
            format!("`{text}`: expected {} (1 where the value belongs to {tt}), got {}", crate::lit::show(&want), o.short()),
        );
    }
    stats.sample(6, || json!({"program": text, "answers": want}));
    Verdict::Pass
}

/// the value the library makes for a type when it needs one (the filler of exhausted iterators, the
/// start value of `it ? T`) belongs to the type: by the harness's membership test, by `matches` on its
/// run-time type, and by the language's own test on the filler of an exhausted filter
fn check_default(case: &Json, stats: &mut Stats) -> Verdict {
    let tt = case["t"].as_str().unwrap_or("int");
    let (Some(t), Some(h)) = (real(tt), Ty::parse(tt)) else {
        return Verdict::Discard("type text not read");
    };
    stats.eval();
    let made = match run::guarded(|| simplesl::variable::Variable::of_type(&t)) {
        Ok(v) => v,
        Err(c) => return fail(format!("C10:panic:{}", c.sig()), format!("Variable::of_type({tt}) panicked")),
    };
    let Some(v) = made else {
        stats.label("type without a default value");
        return Verdict::Pass;
    };
    stats.nontrivial(tt);
    stats.label("default value checked against its type");
    if let Some(why) = crate::ty::not_inhabits(&v, &h, 0) {
        return fail("C10:default:membership", format!("the default value of {tt} is {}, which does not belong to it: {why}", crate::ty::show(&v)));
    }
    if !tri!(matches(&v.as_type(), &t), "matches") {
        return fail("C10:default:matches", format!("the default value of {tt} has type {}, which does not match {tt}", Ty::from_real(&v.as_type()).print()));
    }
    // the filler of an exhausted filter for the type, tested by the language
    let text = format!("it := [] ~ ? {tt}; r := it().1; n := if q: {tt} = r {{ 1 }} else {{ 0 }}; n");
    match crate::exec::run_program(&text, false).outcome {
        run::Outcome::Rejected(_) => {}
        run::Outcome::Value(simplesl::variable::Variable::Int(1)) => {}
        o => return fail("C10:default:filler", format!("`{text}`: {} (the filler of an exhausted filter for {tt} does not pass the test for {tt})", o.short())),
    }
    Verdict::Pass
}

fn default_cases() -> Vec<Json> {
    let mut out = vec![];
    for o in crate::genr::matrix::CATALOGUE {
        let t = o.ty;
        let paren = if t.contains('|') && !t.contains("->") || t.starts_with("mut ") { format!("({t})") } else { t.to_string() };
        for text in [t.to_string(), format!("mut {paren}"), format!("[{t}]"), format!("(int, {t})"), format!("struct{{f: {t}}}"), format!("[mut {paren}]"), format!("()->{t}"), format!("mut {paren}|()"), format!("({t}, mut {paren})")] {
            out.push(json!({"kind": "default", "t": text}));
        }
    }
    out
}

/// `mut T` in type syntax (a union content is parenthesised, a function type never is)
fn cell_of(t: &str) -> String {
    let mut depth = 0i32;
    let mut top_union = false;
    for ch in t.chars() {
        match ch {
            '(' | '[' | '{' => depth += 1,
            ')' | ']' | '}' => depth -= 1,
            '|' if depth == 0 => top_union = true,
            _ => {}
        }
    }
    if top_union && !t.contains("->") { format!("mut ({t})") } else { format!("mut {t}") }
}

pub(crate) fn membership_cases() -> Vec<Json> {
    use crate::genr::matrix::CATALOGUE;
    let extra = ["[[string]]", "[[int]]", "[[]]", "[struct{a: int, b: int}]", "[struct{a: int}]", "[[int]|[float]]", "[(int, [])]", "[any]|string", "struct{a: int}|int", "struct{}", "struct{a: int}", "struct{b: int}", "struct{a: float}", "struct{a: int, b: int}", "()->!", "()->int", "()->float", "(int)->int", "[any]", "[!]", "(any, any)", "(int, int)", "(int, int, int)", "mut any", "!"];
    // compound types whose components are partially overlapping unions (a value in the overlap passes
    // the test although neither type lies below the other)
    let overlap = ["[int|string]", "[int|float]", "(int|string, bool)", "(int|float, bool)", "struct{a: int|string}", "struct{a: int|float}", "[[int|string]]", "[[int|float]]", "(int|string, int|string)", "(int|float, int|string)"];
    let tested: Vec<&str> = CATALOGUE.iter().map(|o| o.ty).chain(extra).chain(overlap).collect();
    let mut cases = vec![];
    let declared: Vec<&str> = CATALOGUE.iter().map(|o| o.ty).chain(["struct{}", "struct{a: int}", "()->any", "[any]", "(any, any)"]).chain(overlap).collect();
    fn shape(t: &Ty) -> u8 {
        match t {
            Ty::Struct(_) => 1,
            Ty::Arr(_) => 2,
            Ty::Tup(_) => 3,
            Ty::Fun(..) => 4,
            Ty::Mut(_) => 5,
            _ => 0,
        }
    }
    for (k, s) in declared.iter().enumerate() {
        let Some(hs) = Ty::parse(s) else { continue };
        // values the declared type admits
        let admitted: Vec<&(&'static str, simplesl::variable::Variable, Ty)> = catalogue_values().iter().filter(|(_, _, vt)| crate::ty::sub(vt, &hs)).collect();
        if admitted.is_empty() {
            continue;
        }
        for (j, t) in tested.iter().enumerate() {
            let Some(ht) = Ty::parse(t) else { continue };
            let shapes: Vec<u8> = ht.members().iter().map(|m| shape(m)).collect();
            // up to three members of T and up to five other values, those of T's shape first (distinct types)
            let mut inside: Vec<&str> = vec![];
            let mut outside: Vec<(&str, &Ty)> = vec![];
            for near in [true, false] {
                for (text, v, vt) in admitted.iter().map(|x| (x.0, &x.1, &x.2)) {
                    if shapes.contains(&shape(vt)) != near {
                        continue;
                    }
                    if crate::ty::not_inhabits(v, &ht, 0).is_none() {
                        if inside.len() < 3 && !inside.contains(&text) {
                            inside.push(text);
                        }
                    } else if outside.len() < 5 && !outside.iter().any(|(_, t)| *t == vt) {
                        outside.push((text, vt));
                    }
                }
            }
            let mut values: Vec<&str> = vec![];
            let mut outs = outside.iter().map(|(t, _)| *t);
            for m in &inside {
                values.push(m);
                values.extend(outs.by_ref().take(2));
            }
            values.extend(outs);
            if values.is_empty() {
                continue;
            }
            let mut turned = values.clone();
            turned.rotate_left(values.len() / 2);
            cases.push(json!({"kind": "membership", "s": s, "t": t, "values": values, "form": (k + j) % 5}));
            cases.push(json!({"kind": "membership", "s": s, "t": t, "values": values, "form": 4}));
            cases.push(json!({"kind": "membership", "s": s, "t": t, "values": values, "form": 5}));
            cases.push(json!({"kind": "membership", "s": s, "t": t, "values": values, "form": 6}));
            if k % 4 == 0 {
                cases.push(json!({"kind": "membership", "s": "any", "t": t, "values": values, "form": 7}));
            }
            cases.push(json!({"kind": "membership", "s": s, "t": t, "values": turned, "form": (k + j + 1) % 2}));
        }
    }
    cases
}

fn derived_cases() -> Vec<Json> {
    let arrays = ["[1, 2]", "[\"a\"]", "[1, \"a\"]", "[1.5]", "[[1]]", "[]", "[1; 0]"];
    let params = [("[int]", "int"), ("[int|string]", "int|string"), ("[any]", "any"), ("[int|float|string]", "int|float|string"), ("[int|string|[int]]", "int|string|[int]"), ("[string|float]", "string|float")];
    let wider = ["any", "int|float|string|[int]"];
    let mut out = vec![];
    for (pt, et) in params {
        let mut ops: Vec<String> = vec!["a~".to_string(), "a[0:1]~".to_string(), "(a + a)~".to_string(), "(a~ $])~".to_string()];
        for w in std::iter::once(et).chain(wider) {
            ops.push(format!("a~ ? (x: {w}) -> bool {{ return true; }}"));
            ops.push(format!("a~ ? (x: {w}) -> bool {{ return false; }}"));
            ops.push(format!("a~ @ (x: {w}) -> {w} {{ return x; }}"));
            ops.push(format!("(a~ \\ (x: {w}) -> bool {{ return true; }}).0~"));
            ops.push(format!("a~ ? {et}"));
        }
        for op in &ops {
            for arr in arrays {
                // pulled past its end, collected, and tested against the element type it was made for
                out.push(json!({"kind": "derived", "text": format!("f := (a: {pt}) -> any {{ it := {op}; r1 := it(); r2 := it(); r3 := it(); c := it $]; k := if v: [{et}] = c {{ 1 }} else {{ 0 }}; return (r1, r2, r3, c, k); }}; f({arr})")}));
                out.push(json!({"kind": "derived", "text": format!("f := (a: {pt}) -> any {{ it := {op}; g := (i: () -> (bool, {et})) -> any {{ x := i(); y := i(); z := i(); return (x.1, y.1, z.1); }}; return g(it); }}; f({arr})")}));
            }
        }
    }
    out
}

pub fn run(session: &Session) -> i32 {
    crate::engine::run_regressions(session, &C10);
    // a small hand-picked exhaustive core: all ordered triples over a basis of types
    let basis = [
        "int", "float", "string", "bool", "()", "any", "!", "int|float", "int|string|()", "[int]", "[any]", "[]",
        "[int|float]", "(int, float)", "(int|float, any)", "(int, float, int)", "struct{}", "struct{a: int}",
        "struct{a: int, b: float}", "struct{a: int|float}", "()->int", "(int)->int", "(any)->int", "(int)->(int|float)",
        "(int|float)->int", "mut int", "mut (int|float)", "mut any", "[mut int]", "[int]|[float]", "()->(bool, int)",
        "()->(bool, any)", "int|[int]|[any]", "struct{a: int, b: int}|struct{a: int}",
    ];
    let mut cases = vec![];
    let n = session.tier.of(12, basis.len());
    for a in basis {
        for b in basis {
            for c in basis.iter().take(n) {
                cases.push(json!({"a": a, "b": b, "c": c, "how": "basis"}));
            }
        }
    }
    // a compound of unions against the union of the compounds (a product of sums is wider than the sum
    // of the products): tuples, structs, arrays, cells, function results and parameters over every pair
    // of scalars, with the mixed compound as the value in between
    {
        let scalars = ["int", "float", "string", "bool", "()", "[int]"];
        let mut n = 0;
        for (i, x) in scalars.iter().enumerate() {
            for y in scalars.iter().skip(i + 1) {
                let families: Vec<(String, String, Vec<String>)> = vec![
                    (format!("({x}|{y}, {x}|{y})"), format!("({x}, {x})|({y}, {y})"), vec![format!("({x}, {y})"), format!("({y}, {x})"), format!("({x}, {x})")]),
                    (format!("({x}|{y}, {x}|{y}, int)"), format!("({x}, {x}, int)|({y}, {y}, int)"), vec![format!("({x}, {y}, int)")]),
                    (format!("(int, {x}|{y}, {x}|{y})"), format!("(int, {x}, {y})|(int, {y}, {x})"), vec![format!("(int, {x}, {x})")]),
                    (format!("struct{{a: {x}|{y}, b: {x}|{y}}}"), format!("struct{{a: {x}, b: {x}}}|struct{{a: {y}, b: {y}}}"), vec![format!("struct{{a: {x}, b: {y}}}")]),
                    (format!("[{x}|{y}]"), format!("[{x}]|[{y}]"), vec![format!("[{x}]"), format!("[{y}|{x}]")]),
                    (format!("[({x}|{y}, {x}|{y})]"), format!("[({x}, {x})|({y}, {y})]"), vec![format!("[({x}, {y})]")]),
                    (format!("mut ({x}|{y})"), format!("mut {x}|mut {y}"), vec![format!("mut {x}")]),
                    (format!("()->({x}|{y}, {x}|{y})"), format!("()->(({x}, {x})|({y}, {y}))"), vec![format!("()->({x}, {y})")]),
                    (format!("(({x}, {x})|({y}, {y}))->int"), format!("(({x}|{y}, {x}|{y}))->int"), vec![format!("(({x}, {y}))->int")]),
                ];
                for (wide, narrow, between) in families {
                    for (a, b, c) in [(wide.clone(), narrow.clone(), "any".to_string()), (narrow.clone(), wide.clone(), "any".to_string())] {
                        cases.push(json!({"a": a, "b": b, "c": c, "how": "product of sums"}));
                        n += 1;
                    }
                    for m in between {
                        cases.push(json!({"a": m, "b": wide, "c": narrow, "how": "product of sums"}));
                        cases.push(json!({"a": m, "b": narrow, "c": wide, "how": "product of sums"}));
                        n += 2;
                    }
                }
            }
        }
        session.set_extra("product_of_sums_triples", json!(n));
    }
    session.set_extra("basis_triples", json!(cases.len()));
    let membership = membership_cases();
    session.set_extra("membership_cases", json!(membership.len()));
    cases.extend(membership);
    let derived = derived_cases();
    session.set_extra("derived_value_cases", json!(derived.len()));
    cases.extend(derived);
    let defaults = default_cases();
    session.set_extra("default_value_cases", json!(defaults.len()));
    cases.extend(defaults);
    if !session.stopped() {
        session.run_enum(&C10, cases);
    }
    if !session.stopped() {
        session.run_tapes(&C10, session.tier.of(240_000, 3_000_000), 160, 0);
    }
    session.finish(
        "type triples (A, B, C) from a universe closed under every constructor (scalars, (), any, !, arrays, 2-3-tuples, structs over 3 field names, functions of arity 0-2, mut, unions of 2-3) to depth 3 (quick) / 4 (thorough): B derived from A by widening steps (so A <= B is expected), by near-miss perturbation (missing struct field, widened parameter, changed mut content, tuple arity) or by narrowing, C from B; plus all ordered triples over a 34-type basis (exhaustive). Laws checked on the public API: reflexivity (also across two instances), ! <= T <= any, transitivity on chains the implementation affirmed, covariance of arrays/tuples/struct fields/results and contravariance of parameters as equivalences, struct width, mut invariance, union built with `|` in three insertion orders is an upper bound of each member, (A|B) <= C iff both, conjoin is a lower bound, and value soundness by semantic witness (a value of A that is certainly not a value of B whenever A matches B). Non-trivial = pair not decided by identity / any / ! alone; distinct by the triple's text.",
        false,
        &["value soundness uses the harness's own membership semantics (sem.rs); it only reports when a concrete witness value exists"],
    )
}
