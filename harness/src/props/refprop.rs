//! Properties decided against the reference interpreter (C06, C07, C11, C12, C13) and the
//! constant-hiding twin comparison (C04), all over tape-generated typed programs.
use crate::{
    canon,
    engine::{Property, Session, Stats, Tier, Verdict, fail},
    exec,
    genr::{
        ast::Hide,
        case::{self, Skip},
        prog::Profile,
        refi::Counters,
    },
    run::{self, Outcome},
    tape::Tape,
};
use serde_json::{Value as Json, json};

pub struct RefProp {
    pub id: &'static str,
    pub profile: Profile,
    /// is the case non-trivial for this property (by the reference's counters / labels)
    pub nontrivial: fn(&Json) -> bool,
    pub twin: bool,
}

fn counters_json(c: &Counters, log_len: usize) -> Json {
    json!({
        "steps": c.steps, "calls": c.calls, "loop_iterations": c.loop_iterations, "shadowings": c.shadowings,
        "captures_then_redeclared": c.captures_then_redeclared, "closures_created": c.closures_created,
        "cells_created": c.cells_created, "writes": c.writes, "aliased_reads": c.aliased_reads,
        "failed_compound": c.failed_compound, "nonlocal_exits": c.nonlocal_exits, "arms_not_first": c.arms_not_first,
        "short_circuits": c.short_circuits, "iterator_pulls": c.iterator_pulls,
        "iterators_with_locals_consumed": c.iterators_with_locals_consumed, "ticks": c.ticks,
        "type_dispatches": c.type_dispatches, "log_len": log_len,
    })
}

fn n(case: &Json, key: &str) -> u64 {
    case["counters"][key].as_u64().unwrap_or(0)
}

pub static C06: RefProp = RefProp {
    id: "C06",
    profile: Profile::SCOPING,
    nontrivial: |c| n(c, "shadowings") > 0 || n(c, "captures_then_redeclared") > 0 || n(c, "iterators_with_locals_consumed") > 0,
    twin: false,
};
pub static C07: RefProp = RefProp { id: "C07", profile: Profile::EFFECTS, nontrivial: |c| n(c, "ticks") >= 2, twin: false };
pub static C11: RefProp = RefProp { id: "C11", profile: Profile::ITERATORS, nontrivial: |c| n(c, "iterator_pulls") > 0, twin: false };
pub static C12: RefProp = RefProp {
    id: "C12",
    profile: Profile::CONTROL,
    nontrivial: |c| n(c, "nonlocal_exits") > 0 || n(c, "arms_not_first") > 0 || n(c, "type_dispatches") > 0,
    twin: false,
};
pub static C13: RefProp = RefProp {
    id: "C13",
    profile: Profile::CELLS,
    nontrivial: |c| (n(c, "writes") >= 2 && n(c, "aliased_reads") > 0) || n(c, "failed_compound") > 0,
    twin: false,
};
pub static C04: RefProp = RefProp { id: "C04", profile: Profile::CONSTANTS, nontrivial: |c| c["literals"].as_u64().unwrap_or(0) > 0, twin: true };

fn rss_mb() -> u64 {
    std::fs::read_to_string("/proc/self/statm")
        .ok()
        .and_then(|s| s.split_whitespace().nth(1).and_then(|p| p.parse::<u64>().ok()))
        .map(|pages| pages * 4096 / (1 << 20))
        .unwrap_or(0)
}

use crate::genr::case::{cleanup_import_dirs, materialise};

fn observe(text: &str) -> (String, Outcome) {

    let (shown, outcome, _) = observe_state(text, &[]);
    (shown, outcome)
}

/// also reports, after a run-time error, the canonical value of (0, *log, names...) as the
/// host sees it in the interpreter the program ran in
fn observe_state(text: &str, names: &[String]) -> (String, Outcome, Option<String>) {
    run::set_thread_fuel(8_000);
    let rss_before = rss_mb();
    let (outcome, interp) = exec::run_program_keep(text);
    run::set_thread_fuel(run::FUEL);
    if std::env::var("VERIF_TRACE").is_ok() {
        let after = rss_mb();
        if after > rss_before + 300 {
            eprintln!("RSS {rss_before} -> {after} MB: {text}");
        }
    }
    let shown = match &outcome {
        Outcome::Value(v) => format!("value {}", canon::canon(v).show()),
        Outcome::ExecError(k) => format!("run-time error {k}"),
        o => o.short(),
    };
    let state = if matches!(outcome, Outcome::ExecError(_)) {
        let mut items = vec![simplesl::variable::Variable::Int(0)];
        let log = match interp.get_variable("log") {
            Some(simplesl::variable::Variable::Mut(m)) => m.variable.read().ok().map(|g| g.clone()),
            _ => None,
        };
        items.push(log.unwrap_or(simplesl::variable::Variable::Void));
        let mut missing = None;
        for n in names {
            match interp.get_variable(n) {
                Some(v) => items.push(v.clone()),
                None => missing = Some(n.clone()),
            }
        }
        Some(match missing {
            Some(n) => format!("<the name {n} is not bound>"),
            None => format!("value {}", canon::canon(&simplesl::variable::Variable::Tuple(items.into())).show()),
        })
    } else {
        None
    };
    (shown, outcome, state)
}

impl RefProp {
    fn judge_against_reference(&self, text: &str, case: &Json, stats: &mut Stats) -> Verdict {
        let expected = case["expected"].as_str().unwrap_or("");
        let permitted: Vec<&str> = case["permitted"].as_array().map(|a| a.iter().filter_map(|k| k.as_str()).collect()).unwrap_or_default();
        stats.eval();
        let names: Vec<String> = case["error_names"].as_array().map(|a| a.iter().filter_map(|n| n.as_str().map(str::to_string)).collect()).unwrap_or_default();
        let (shown, outcome, state) = observe_state(text, &names);
        match &outcome {
            Outcome::Value(_) | Outcome::ExecError(_) => {
                if shown == expected {
                    // after a run-time error the host still sees the names bound before the
                    // failing statement; cells must hold what the reference's cells hold
                    if let (Some(want), Some(got)) = (case["error_state"].as_str(), state.as_deref())
                        && want != got
                    {
                        return fail(
                            format!("{}:state-after-error", self.id),
                            format!("`{text}`\n  fails with {shown} as expected, but afterwards (0, *log, {}) is\n  reference: {want}\n  real:      {got}", names.join(", ")),
                        );
                    }
                    if case["error_state"].is_string() {
                        stats.label("state after a run-time error compared");
                    }
                    Verdict::Pass
                } else {
                    let what = if expected.starts_with("run-time error") || shown.starts_with("run-time error") { "error" } else { "value" };
                    fail(format!("{}:{what}", self.id), format!("`{text}`\n  reference: {expected}\n  real:      {shown}"))
                }
            }
            Outcome::Rejected(k) if run::EXEC_ERROR_KINDS.contains(&k.as_str()) => {
                if permitted.contains(&k.as_str()) {
                    Verdict::Discard("a constant operation that always fails was reported at parse time")
                } else {
                    fail(
                        format!("{}:parse-time-error:{k}", self.id),
                        format!("`{text}`\n  is rejected with {k} although no operation of that kind has failing constant operands; reference: {expected}"),
                    )
                }
            }
            Outcome::Rejected(k) => {
                if std::env::var("VERIF_DEBUG").is_ok() {
                    eprintln!("REJECTED({k}): {text}");
                }
                stats.label(&format!("generator: rejected by the checker ({k})"));
                if k == "IO" {
                    return Verdict::Discard("rejected by the checker");
                }
                // the generator only builds programs that are well-typed by the documented rules, and the
                // reference ran this one: a checker that refuses it misreads a scope or a type somewhere
                fail(
                    format!("{}:unexpected-rejection:{k}", self.id),
                    format!("`{text}`
  is well-typed (reference: {expected}) but was rejected: {k}"),
                )
            }
            Outcome::Panic { .. } => fail(
                format!("{}:{}", self.id, outcome.panic_sig().unwrap_or_default()),
                format!("`{text}`\n  reference: {expected}\n  real:      {}", outcome.short()),
            ),
            Outcome::Aborted(w) => {
                stats.label(&format!("budget exhausted ({w})"));
                Verdict::Inconclusive("budget")
            }
        }
    }
}

impl Property for RefProp {
    fn id(&self) -> &'static str {
        self.id
    }

    fn gen_case(&self, tape: &mut Tape, _tier: Tier) -> Option<Json> {
        // twins are compared with each other (the reference is only the referee): run-time type tests on
        // arrays, whose answer depends on how the array was labelled when it was built, are fair game
        let profile = if self.twin && tape.bool() { self.profile.with_free_dispatch() } else { self.profile };
        let built = match case::build(tape, profile) {
            Ok(b) => b,
            Err(Skip::Unspecified) | Err(Skip::Budget) | Err(Skip::Unsupported(_)) => return None,
        };
        let hide = match tape.weighted(&[3, 2, 3]) {
            0 => Hide::None,
            1 => Hide::All,
            _ => Hide::Mask(tape.u64()),
        };
        let mut literals = 0usize;
        for s in &built.program.body {
            crate::genr::ast::walk_stmt(s, &mut |e| literals += crate::genr::ast::count_literals_expr(e).min(1));
        }
        let mut case = json!({
            "expected": built.expected.show(),
            "permitted": case::constant_failures(&built.program.body),
            "counters": counters_json(&built.counters, built.log_len),
            "labels": built.program.labels,
            "literals": literals,
        });
        let files: serde_json::Map<String, Json> = case::import_files(&built.program).into_iter().map(|(n, t)| (n, json!(t))).collect();
        if !files.is_empty() {
            case["files"] = Json::Object(files);
        }
        if let Some((names, state)) = &built.error_state {
            case["error_names"] = json!(names);
            case["error_state"] = json!(format!("value {}", state.show()));
        }
        if self.twin {
            case["plain"] = json!(case::print(&built.program, Hide::None));
            case["hidden"] = json!(case::print(&built.program, Hide::All));
            case["partly_hidden"] = json!(case::print(&built.program, Hide::Mask(tape.u64())));
        } else {
            case["text"] = json!(case::print(&built.program, hide));
        }
        Some(case)
    }

    fn check_case(&self, case: &Json, stats: &mut Stats) -> Verdict {
        if self.id() == "C13" && matches!(case["kind"].as_str(), Some("unary" | "infix" | "binary" | "near-miss" | "program")) {
            // a case of the cell-typing part (matrix / near misses under the monitor)
            return crate::props::soundness::C13_CELLS.check_case(case, stats);
        }
        if case["kind"].as_str() == Some("repl-executable") {
            // sessions through the REPL executable: what a name denotes on a later line is what the lines
            // before it declared, also when a line failed after declaring something
            return match crate::props::c17::check_repl_executable(case, stats) {
                Verdict::Fail(f) => fail(format!("C06:repl-executable:{}", f.sig.rsplit(':').next().unwrap_or("answer")), f.msg),
                v => v,
            };
        }
        if case["kind"].as_str() == Some("type-test") {
            // run-time type tests (if-set, type arms, while-set, type filter) on values of compound types
            // whose components overlap partly with the tested type: decided by the value's run-time type
            let mut c = case.clone();
            c["kind"] = json!("membership");
            return match crate::props::c10::check_membership(&c, stats) {
                Verdict::Fail(f) => fail(format!("C12:type-test:{}", f.sig.rsplit(':').next().unwrap_or("form")), f.msg),
                v => v,
            };
        }
        if case["kind"].as_str() == Some("coverage") {
            return check_coverage(case, stats);
        }
        if case["kind"].as_str() == Some("host-scope") {
            return check_host_scope(case, stats);
        }
        if case["kind"].as_str() == Some("session") {
            let inputs: Vec<&str> = case["inputs"].as_array().map(|a| a.iter().filter_map(|i| i.as_str()).collect()).unwrap_or_default();
            stats.evals(2);
            stats.nontrivial(&inputs.join(" "));
            // one program
            let (batch, _) = observe(&inputs.join(" "));
            // input by input into one interpreter
            run::default_budget();
            let mut interp = exec::safe_interpreter();
            let mut last = String::from("nothing");
            for text in &inputs {
                let outcome = match run::parse_guarded(&interp, text) {
                    Ok(Ok(code)) => run::exec_unscoped_guarded(&code, &mut interp),
                    Ok(Err(kind)) => Outcome::Rejected(kind),
                    Err(o) => o,
                };
                last = match &outcome {
                    Outcome::Value(v) => format!("value {}", canon::canon(v).show()),
                    Outcome::ExecError(k) => format!("run-time error {k}"),
                    o => o.short(),
                };
                if !matches!(outcome, Outcome::Value(_)) {
                    // an error ends the batch program; the session goes on with the next input
                    if batch == last {
                        return Verdict::Pass;
                    }
                }
            }
            // (after a run-time error the batch program stops, a session continues: only error-free
            // sessions and sessions ending in the error are compared)
            return if batch == last || batch.starts_with("run-time error") {
                Verdict::Pass
            } else {
                fail(case["sig"].as_str().unwrap_or("C13:session").to_string(), format!("inputs {inputs:?}\n  as one program: {batch}\n  input by input into one interpreter: {last}"))
            };
        }
        if case["kind"].as_str() == Some("scope") {
            // a construct that binds `v` locally, between a declaration of `v` and a use of it: the
            // program means what it means without the construct
            let (with, without) = (case["with"].as_str().unwrap_or(""), case["without"].as_str().unwrap_or(""));
            stats.evals(2);
            stats.nontrivial(with);
            let (a, _) = observe(with);
            let (b, _) = observe(without);
            return if a == b {
                Verdict::Pass
            } else {
                fail(
                    case["sig"].as_str().unwrap_or("C06:binder-scope").to_string(),
                    format!("`{with}`\n  gives {a}\n  without the inner construct, `{without}`\n  gives {b}"),
                )
            };
        }
        if case["kind"].as_str() == Some("probe") {
            // a fixed program with its documented outcome and a signature of its own
            let text = case["text"].as_str().unwrap_or("");
            let expected = case["expected"].as_str().unwrap_or("");
            stats.eval();
            stats.nontrivial(text);
            let (shown, _) = observe(text);
            return if shown == expected {
                Verdict::Pass
            } else {
                fail(
                    case["sig"].as_str().unwrap_or("probe").to_string(),
                    format!("probe `{text}`\n  documented: {expected}\n  real:       {shown}"),
                )
            };
        }
        if let Some(labels) = case["labels"].as_array() {
            for l in labels {
                stats.label(&format!("construct: {}", l.as_str().unwrap_or("?")));
            }
        }
        let nontrivial = (self.nontrivial)(case);
        if !self.twin {
            let text = &materialise(case["text"].as_str().unwrap_or(""), case);
            let v = self.judge_against_reference(text, case, stats);
            if matches!(v, Verdict::Pass) {
                if nontrivial {
                    stats.nontrivial(text);
                }
                stats.sample(6, || json!({"program": text, "expected": case["expected"]}));
            }
            return v;
        }
        // constant-hiding twins
        let plain = &materialise(case["plain"].as_str().unwrap_or(""), case);
        let permitted: Vec<&str> = case["permitted"].as_array().map(|a| a.iter().filter_map(|k| k.as_str()).collect()).unwrap_or_default();
        let expected = case["expected"].as_str().unwrap_or("");
        stats.eval();
        let (p_shown, p_out) = observe(plain);
        for key in ["hidden", "partly_hidden"] {
            let hidden = &materialise(case[key].as_str().unwrap_or(""), case);
            stats.eval();
            let (h_shown, h_out) = observe(hidden);
            match (&p_out, &h_out) {
                (Outcome::Aborted(_), _) | (_, Outcome::Aborted(_)) => return Verdict::Inconclusive("budget"),
                (Outcome::Panic { .. }, _) | (_, Outcome::Panic { .. }) => {
                    let (which, o) = if matches!(p_out, Outcome::Panic { .. }) { ("literal", &p_out) } else { (key, &h_out) };
                    return fail(
                        format!("C04:{}", o.panic_sig().unwrap_or_default()),
                        format!("the {which} version panicked: {}\n  literal: `{plain}`\n  {key}: `{hidden}`", o.short()),
                    );
                }
                (Outcome::Rejected(k), _) if run::EXEC_ERROR_KINDS.contains(&k.as_str()) => {
                    if permitted.contains(&k.as_str()) {
                        stats.label("constant failure reported at parse time (permitted)");
                        return Verdict::Discard("a constant operation that always fails was reported at parse time");
                    }
                    return fail(
                        format!("C04:parse-time-error:{k}"),
                        format!("the literal version is rejected with {k} although no operation of that kind has failing constant operands\n  literal: `{plain}`\n  twin ({key}) gives: {h_shown}"),
                    );
                }
                (_, Outcome::Rejected(k)) if run::EXEC_ERROR_KINDS.contains(&k.as_str()) && key == "partly_hidden" => {
                    if permitted.contains(&k.as_str()) {
                        continue;
                    }
                    return fail(
                        format!("C04:parse-time-error:{k}"),
                        format!("the partly hidden version is rejected with {k} although no operation of that kind has failing constant operands\n  `{hidden}`"),
                    );
                }
                (Outcome::Rejected(k), _) | (_, Outcome::Rejected(k)) => {
                    // the property starts from two accepted programs
                    stats.label(&format!("twin differs in acceptance or both rejected ({k})"));
                    return Verdict::Discard("not both accepted");
                }
                _ => {
                    if p_shown != h_shown {
                        let referee = if p_shown == expected {
                            "the reference agrees with the literal version"
                        } else if h_shown == expected {
                            "the reference agrees with the hidden version"
                        } else {
                            "the reference agrees with neither"
                        };
                        return fail(
                            "C04:twin-differs",
                            format!("literal: `{plain}`\n  gives {p_shown}\n  {key}: `{hidden}`\n  gives {h_shown}\n  ({referee}: {expected})"),
                        );
                    }
                }
            }
        }
        // where the harness can compute the value itself, the twins agree with it too (a rewrite that
        // changes both twins alike is invisible to the comparison of the twins)
        if let Some(model) = case["model"].as_str()
            && matches!(p_out, Outcome::Value(_))
            && p_shown != model
        {
            return fail("C04:twin-vs-model", format!("literal: `{plain}`\n  gives {p_shown}\n  the documented meaning of the operators gives {model}"));
        }
        // the twins agree on every execution of the parsed program, not only on the first (what the
        // folding pass builds ahead of time belongs to no particular execution)
        if matches!(p_out, Outcome::Value(_)) {
            let hidden = &materialise(case["hidden"].as_str().unwrap_or(""), case);
            let again = |text: &str| -> Option<String> {
                run::default_budget();
                let interp = crate::exec::safe_interpreter();
                let Ok(Ok(code)) = run::parse_guarded(&interp, text) else { return None };
                let _ = run::exec_guarded(&code);
                run::default_budget();
                let _ = run::exec_guarded(&code);
                run::default_budget();
                match run::exec_guarded(&code) {
                    Outcome::Value(v) => Some(format!("value {}", crate::canon::canon(&v).show())),
                    Outcome::Aborted(_) => None,
                    o => Some(o.short()),
                }
            };
            stats.evals(2);
            if let (Some(p3), Some(h3)) = (again(plain), again(hidden))
                && p3 != h3
            {
                return fail(
                    "C04:twin-differs:third-execution",
                    format!("third execution of one parsed program
  literal: `{plain}`
  gives {p3}
  hidden: `{hidden}`
  gives {h3}
  (the first executions agreed on {p_shown})"),
                );
            }
        }
        if nontrivial {
            stats.nontrivial(plain);
        }
        stats.sample(6, || json!({"literal": plain, "outcome": p_shown}));
        Verdict::Pass
    }
}

/// C04: every infix operator with one operand (or two of three in a chain) known while the program is
/// read and the other known only at run time, over boundary values: the literal spelling, the spelling
/// with the constant in a cell and the spelling with the constant bound to a name first agree. A
/// rejection while the program is read is permitted only for a constant right operand that makes the
/// operation fail whatever the other operand is (the documented errors).
fn partial_constant_cases() -> Vec<Json> {
    fn int_text(v: i64) -> String {
        if v == i64::MIN {
            "(-9223372036854775807 - 1)".into()
        } else if v < 0 {
            format!("(-{})", -(v as i128))
        } else {
            v.to_string()
        }
    }
    fn float_text(v: f64) -> String {
        if v.is_nan() {
            "(0.0 / 0.0)".into()
        } else if v.is_infinite() {
            if v > 0.0 { "(1.0 / 0.0)".into() } else { "(-1.0 / 0.0)".into() }
        } else if v.is_sign_negative() {
            format!("(-{:?})", -v)
        } else {
            format!("{v:?}")
        }
    }
    /// the documented error a constant right operand makes certain
    fn certain(op: &str, k: i64) -> Option<&'static str> {
        match op {
            "/" if k == 0 => Some("ZeroDivision"),
            "%" if k == 0 => Some("ZeroModulo"),
            "<<" | ">>" if !(0..=63).contains(&k) => Some("OverflowShift"),
            "**" if k < 0 => Some("NegativeExponent"),
            _ => None,
        }
    }
    let mut cases = vec![];
    let mut push = |ty: &str, v: &str, consts: &[&str], template: &str, permitted: Vec<&'static str>| {
        // template: {x} is the run-time operand, {0} {1} the constants
        let fill = |how: u8| {
            let mut decls = String::new();
            let mut t = template.to_string();
            for (i, k) in consts.iter().enumerate() {
                let shown = match how {
                    0 => k.to_string(),
                    1 => format!("*(mut {ty} {k})"),
                    _ => {
                        decls += &format!("k{i} := {k}; ");
                        format!("k{i}")
                    }
                };
                t = t.replace(&format!("{{{i}}}"), &shown);
            }
            (decls, t)
        };
        for form in 0..2 {
            let program = |how: u8| {
                let (decls, t) = fill(how);
                if form == 0 {
                    format!("{decls}x := *(mut {ty} {v}); {}", t.replace("{x}", "x"))
                } else {
                    format!("{decls}f := (x: {ty}) -> any {{ return {}; }}; f({v})", t.replace("{x}", "x"))
                }
            };
            cases.push(json!({"plain": program(0), "hidden": program(1), "partly_hidden": program(2), "expected": "", "permitted": permitted, "labels": ["partial-constant catalogue"], "counters": {}, "literals": consts.len()}));
        }
    };
    let ints: [i64; 19] = [0, 1, -1, 2, -2, 3, -3, 5, -5, 7, -7, 8, -8, 63, 64, -64, i64::MAX, i64::MIN + 1, i64::MIN];
    let consts: [i64; 15] = [0, 1, -1, 2, -2, 3, 4, -4, 8, 16, 63, 64, -64, i64::MAX, i64::MIN];
    let int_ops = ["+", "-", "*", "/", "%", "&", "|", "^", "<<", ">>", "**", "==", "!=", "<", "<=", ">", ">="];
    for op in int_ops {
        for v in ints {
            for k in consts {
                push("int", &int_text(v), &[&int_text(k)], &format!("{{x}} {op} {{0}}"), certain(op, k).into_iter().collect());
                push("int", &int_text(v), &[&int_text(k)], &format!("{{0}} {op} {{x}}"), vec![]);
            }
        }
    }
    // chains of operators of one level (grouping and re-association)
    let groups: [&[&str]; 6] = [&["+", "-"], &["*", "/", "%"], &["<<", ">>"], &["&"], &["|"], &["^"]];
    let small: [i64; 7] = [0, 1, -1, 7, -7, i64::MAX, i64::MIN];
    let ks: [i64; 7] = [0, 1, -1, 2, 3, i64::MAX, i64::MIN];
    for g in groups {
        for o1 in g {
            for o2 in g {
                for v in small {
                    for k1 in ks {
                        for k2 in ks {
                            let (a, b) = (int_text(k1), int_text(k2));
                            let both: Vec<&'static str> = certain(o1, k1).into_iter().chain(certain(o2, k2)).collect();
                            push("int", &int_text(v), &[&a, &b], &format!("{{x}} {o1} {{0}} {o2} {{1}}"), both);
                            push("int", &int_text(v), &[&a, &b], &format!("{{0}} {o1} {{x}} {o2} {{1}}"), certain(o2, k2).into_iter().collect());
                            push("int", &int_text(v), &[&a, &b], &format!("{{0}} {o1} {{1}} {o2} {{x}}"), certain(o1, k2).into_iter().collect());
                        }
                    }
                }
            }
        }
    }
    // chains across levels: an arithmetic operation with a constant operand inside a comparison (or a
    // shift, a bitwise operation) with a constant - moving constants across the comparison is wrong where
    // the arithmetic wraps
    let edge: [i64; 9] = [i64::MAX, i64::MAX - 1, i64::MIN, i64::MIN + 1, -1, 0, 1, 5, -5];
    let shifts: [i64; 6] = [1, 2, -1, -2, i64::MAX, i64::MIN];
    let bounds: [i64; 7] = [0, 1, -1, 5, i64::MAX, i64::MIN, i64::MIN + 2];
    for arith in ["+", "-", "*"] {
        for cmp in ["<", "<=", ">", ">=", "==", "!=", "&", ">>"] {
            for v in edge {
                for k1 in shifts {
                    for k2 in bounds {
                        let (a, b) = (int_text(k1), int_text(k2));
                        let perm: Vec<&'static str> = certain(cmp, k2).into_iter().collect();
                        push("int", &int_text(v), &[&a, &b], &format!("{{x}} {arith} {{0}} {cmp} {{1}}"), perm.clone());
                        push("int", &int_text(v), &[&a, &b], &format!("{{0}} {arith} {{x}} {cmp} {{1}}"), perm);
                        push("int", &int_text(v), &[&a, &b], &format!("{{1}} {cmp} {{x}} {arith} {{0}}"), vec![]);
                    }
                }
            }
        }
    }
    let floats: [f64; 17] = [0.0, -0.0, 1.0, -1.0, 0.5, 2.0, -2.5, 0.1, 0.2, 0.3, 1e16, -1e16, 1e308, 5e-324, f64::INFINITY, f64::NEG_INFINITY, f64::NAN];
    let fconsts: [f64; 13] = [0.0, -0.0, 1.0, -1.0, 0.5, 2.0, 3.0, 0.1, 0.2, 0.3, 1e16, -1e16, 1e308];
    for op in ["+", "-", "*", "/", "%", "**", "==", "!=", "<", "<=", ">", ">="] {
        for v in floats {
            for k in fconsts {
                push("float", &float_text(v), &[&float_text(k)], &format!("{{x}} {op} {{0}}"), vec![]);
                push("float", &float_text(v), &[&float_text(k)], &format!("{{0}} {op} {{x}}"), vec![]);
            }
        }
    }
    let fgroups: [&[&str]; 2] = [&["+", "-"], &["*", "/"]];
    let fsmall: [f64; 5] = [1.0, 0.1, -1e16, 1e308, -0.0];
    let fks: [f64; 7] = [1e16, -1e16, 0.1, 0.2, 0.3, 1e308, 3.0];
    for g in fgroups {
        for o1 in g {
            for o2 in g {
                for v in fsmall {
                    for k1 in fks {
                        for k2 in fks {
                            let (a, b) = (float_text(k1), float_text(k2));
                            for t in ["{x} {o1} {0} {o2} {1}", "{0} {o1} {x} {o2} {1}", "{0} {o1} {1} {o2} {x}"] {
                                push("float", &float_text(v), &[&a, &b], &t.replace("{o1}", o1).replace("{o2}", o2), vec![]);
                            }
                        }
                    }
                }
            }
        }
    }
    for op in ["&&", "||", "&", "|", "^", "==", "!="] {
        for v in ["true", "false"] {
            for k in ["true", "false"] {
                push("bool", v, &[k], &format!("{{x}} {op} {{0}}"), vec![]);
                push("bool", v, &[k], &format!("{{0}} {op} {{x}}"), vec![]);
                for k2 in ["true", "false"] {
                    push("bool", v, &[k, k2], &format!("{{x}} {op} {{0}} {op} {{1}}"), vec![]);
                    push("bool", v, &[k, k2], &format!("{{0}} {op} {{1}} {op} {{x}}"), vec![]);
                }
            }
        }
    }
    for (v, a, b) in [("\"x\"", "\"\"", "\"é\""), ("\"\"", "\"a\"", "\"b\"")] {
        push("string", v, &[a, b], "{x} + {0} + {1}", vec![]);
        push("string", v, &[a, b], "{0} + {x} + {1}", vec![]);
        push("string", v, &[a, b], "{0} + {1} + {x}", vec![]);
        push("string", v, &[a], "{x} == {0}", vec![]);
    }
    // compound literals whose parts are all constants (a later part with the name of an earlier one
    // replaces it, whoever builds the value)
    for t in [
        "struct{a := {0}, b := {1}, a := {2}}.a",
        "struct{a := {0}, a := {1}, a := {2}}.a + {x}",
        "struct{b := {0}, a := {1}, b := {2}, a := {0}}.b",
        "struct{a := {0}, b := {1}}.b",
        "[struct{a := {0}, a := {1}}][0].a",
        "(struct{a := {0}, a := {1}}, {2}).0.a",
        "struct{a := struct{b := {0}, b := {1}}, a := struct{b := {2}, b := {0}}}.a.b",
        "struct{a := ({0}, {1}), a := ({1}, {2})}.a.0",
        "({0}, {1}, {2}).1",
        "[{0}, {1}, {2}][1]",
        "[{0}; 3][2] + [{1}, {2}][-1]",
        "struct{a := {0} + {1}, a := {1} * {2}}.a",
    ] {
        push("int", "5", &["1", "10", "2"], t, vec![]);
    }
    for (v, a, b) in [("[1]", "[]", "[2, 3]"), ("[0; 0]", "[4]", "[]")] {
        push("[int]", v, &[a, b], "{x} + {0} + {1}", vec![]);
        push("[int]", v, &[a, b], "{0} + {x} + {1}", vec![]);
        push("[int]", v, &[a, b], "{0} + {1} + {x}", vec![]);
    }
    // a comparison under `!`: negating a comparison is not the opposite comparison where NaN is involved.
    // Both twins keep x for run time, so a rewrite of the unfolded form changes them alike: these cases
    // carry the value computed here (IEEE comparisons) as a model
    fn cmp_f(op: &str, a: f64, b: f64) -> bool {
        match op {
            "<" => a < b,
            "<=" => a <= b,
            ">" => a > b,
            ">=" => a >= b,
            "==" => a == b,
            _ => a != b,
        }
    }
    fn cmp_i(op: &str, a: i64, b: i64) -> bool {
        match op {
            "<" => a < b,
            "<=" => a <= b,
            ">" => a > b,
            ">=" => a >= b,
            "==" => a == b,
            _ => a != b,
        }
    }
    let mut modelled = |ty: &str, v: &str, k: &str, template: &str, model: bool| {
        for form in 0..2 {
            let program = |how: u8| {
                let (decls, shown) = match how {
                    0 => (String::new(), k.to_string()),
                    1 => (String::new(), format!("*(mut {ty} {k})")),
                    _ => (format!("k0 := {k}; "), "k0".to_string()),
                };
                let t = template.replace("{0}", &shown).replace("{x}", "x");
                if form == 0 { format!("{decls}x := *(mut {ty} {v}); {t}") } else { format!("{decls}f := (x: {ty}) -> any {{ return {t}; }}; f({v})") }
            };
            cases.push(json!({"plain": program(0), "hidden": program(1), "partly_hidden": program(2), "expected": "", "model": format!("value {model}"), "permitted": [], "labels": ["partial-constant catalogue", "comparison under ! with a model value"], "counters": {}, "literals": 1}));
        }
    };
    for op in ["<", "<=", ">", ">=", "==", "!="] {
        for v in [f64::NAN, 1.0, -0.0, f64::INFINITY, 0.5] {
            for k in [1.0, 0.0, f64::NAN] {
                modelled("float", &float_text(v), &float_text(k), &format!("!({{x}} {op} {{0}})"), !cmp_f(op, v, k));
                modelled("float", &float_text(v), &float_text(k), &format!("!({{0}} {op} {{x}})"), !cmp_f(op, k, v));
                modelled("float", &float_text(v), &float_text(k), &format!("!({{x}} {op} {{x}}) == ({{0}} {op} {{x}})"), (!cmp_f(op, v, v)) == cmp_f(op, k, v));
                modelled("float", &float_text(v), &float_text(k), &format!("if !({{x}} {op} {{0}}) {{ 1 }} else {{ 0 }} == 1"), !cmp_f(op, v, k));
            }
        }
        for v in [0i64, 1, -1, i64::MAX, i64::MIN] {
            for k in [0i64, 1, i64::MIN] {
                modelled("int", &int_text(v), &int_text(k), &format!("!({{x}} {op} {{0}})"), !cmp_i(op, v, k));
            }
        }
    }
    cases
}

/// C06 through the host API: a call built with `Function::create_call` and run with `exec_unscoped` into
/// the interpreter the function lives in binds the parameters, the function's own name and the body's
/// locals for the call only: afterwards every name of the host means what it meant before, and no name
/// of the body has appeared.
fn check_host_scope(case: &Json, stats: &mut Stats) -> Verdict {
    let setup = case["setup"].as_str().unwrap_or("");
    let args: Vec<i64> = case["args"].as_array().map(|a| a.iter().filter_map(|x| x.as_i64()).collect()).unwrap_or_default();
    let names: Vec<&str> = case["names"].as_array().map(|a| a.iter().filter_map(|x| x.as_str()).collect()).unwrap_or_default();
    run::default_budget();
    let mut host = crate::exec::safe_interpreter();
    match run::parse_guarded(&host, setup) {
        Ok(Ok(code)) => {
            if !matches!(run::exec_unscoped_guarded(&code, &mut host), Outcome::Value(_)) {
                return fail("C06:host-scope:setup", format!("`{setup}` did not run"));
            }
        }
        _ => return fail("C06:host-scope:setup", format!("`{setup}` was not accepted")),
    }
    let Some(simplesl::variable::Variable::Function(f)) = host.get_variable("f").cloned() else {
        return fail("C06:host-scope:setup", format!("`{setup}` declares no function f"));
    };
    let view = |host: &simplesl::Interpreter| -> Vec<String> {
        names.iter().map(|n| match host.get_variable(n) { Some(v) => format!("{n} = {}", crate::canon::canon(v).show()), None => format!("{n} unbound") }).collect()
    };
    let before = view(&host);
    let call = format!("f({})", args.iter().map(|a| a.to_string()).collect::<Vec<_>>().join(", "));
    // what the call gives when written in the language (a fresh parse of setup and call)
    let (in_language, _) = observe(&format!("{setup} {call}"));
    stats.evals(2);
    stats.nontrivial(&format!("{setup} {call}"));
    stats.label("host-scope: create_call run unscoped into the function's own interpreter");
    let code = match run::guarded(|| f.clone().create_call(args.iter().map(|a| simplesl::variable::Variable::Int(*a)).collect())) {
        Ok(Ok(code)) => code,
        Ok(Err(e)) => return fail("C06:host-scope:create_call", format!("`{setup}`: {call} refused by create_call: {}", run::error_kind(&e))),
        Err(c) => return fail(format!("C06:host-scope:{}", c.sig()), format!("`{setup}`: create_call for {call} panicked")),
    };
    let got = match run::exec_unscoped_guarded(&code, &mut host) {
        Outcome::Value(v) => format!("value {}", crate::canon::canon(&v).show()),
        o => o.short(),
    };
    if got != in_language {
        return fail("C06:host-scope:result", format!("`{setup}`: {call} through create_call + exec_unscoped gives {got}, written in the language {in_language}"));
    }
    let after = view(&host);
    if before != after {
        return fail(
            "C06:host-scope:names",
            format!("`{setup}`: after {call} through create_call + exec_unscoped the host's names are {after:?}, before the call {before:?}"),
        );
    }
    stats.sample(3, || json!({"setup": setup, "call": call, "host_names": before}));
    Verdict::Pass
}

fn host_scope_cases() -> Vec<Json> {
    let names = json!(["x", "n", "y", "k", "v", "w", "a", "b", "g", "acc", "it", "m", "i", "f2"]);
    let bodies: [(&str, &str, usize); 14] = [
        ("(n: int) -> int", "x := n * 3; y := x + 1; return y;", 1),
        ("(x: int, y: int) -> int", "n := x - y; return n;", 2),
        ("(k: int) -> int", "if k <= 0 { return 0; } return k + f(k - 1);", 1),
        ("(n: int) -> int", "g := (x: int) -> int { y := x * 2; return y; }; return g(n) + g(1);", 1),
        ("(n: int) -> int", "(a, b) := (n, n + 1); (x, y) := (b, a); return x * 10 + y;", 1),
        ("(n: int) -> int", "acc := mut 0; for v in [n, 2, 3]~ { w := v * 2; acc += w; } return *acc;", 1),
        ("(n: int) -> int", "r := match n { v: int => v + 1, }; x := r; return x;", 1),
        ("(n: int) -> int", "if v: int = n { x := v + 5; return x; } return 0;", 1),
        ("(n: int) -> int", "k := mut 0; it := () -> (bool, int) { k += 1; return (*k < 3, *k); }; y := it $+; return y + n;", 1),
        ("(n: int) -> int", "m := mod { x := 5; y := x + 1; }; return m.y + n;", 1),
        ("(n: int) -> int", "x := [n, 1]~ @ (v: int) -> int { w := v + 1; return w; } $]; return x[0] + x[1];", 1),
        ("(n: int) -> int", "{ x := n; y := x; }; i := mut 0; while *i < 2 { b := *i; i += 1; } return *i + n;", 1),
        ("(f2: int) -> int", "f2 := f2 + 1; return f2;", 1),
        ("(n: int) -> any", "x := n; return () -> int { return x; };", 1),
    ];
    let hosts = [
        "x := 100; n := 200; y := 300; k := mut 400; v := \"v\"; w := [1]; a := (1, 2); b := true; g := 2.5; acc := \"acc\"; it := [7]~; m := 9; i := 1; f2 := 3;",
        "x := mut 1; y := () -> int { return 5; };",
        "",
    ];
    let mut out = vec![];
    for host in hosts {
        for (sig, body, arity) in bodies {
            let args: Vec<i64> = (0..arity).map(|k| 4 + k as i64).collect();
            out.push(json!({"kind": "host-scope", "setup": format!("{host} f := {sig} {{ {body} }};"), "args": args, "names": names}));
        }
    }
    out
}

/// C06: every construct that binds a name locally (match arm, if-set, while-set, for, block, function
/// parameter, module, closure, destructuring inside a block) between a declaration of the same name
/// and a later use of it, in function bodies, at the top level and in modules
fn scope_cases() -> Vec<Json> {
    let binders = [
        "n := match v { v: int => 1, => 0, }",
        "match 5 { v: int => { v }, }",
        "if v: int = 5 { v + 1 }",
        "n := if v: int = 5 { v } else { 0 }",
        "if v: string = 5 { 1 } else { 2 }",
        "k := mut 0; while v: int = src(k) { k += 1; }",
        "for v in [1, 2]~ { v + 1 }",
        "for v in [1, 2]~ { for v in [true]~ { v } }",
        "{ v := 5; v + 1 }",
        "n := { v := 5; v }",
        "if true { v := 5; }",
        "loop { v := 5; break; }",
        "g := (v: int) -> int { return v + 1; }; g(1)",
        "m := mod { v := 5; }",
        "(() { v := 5; })()",
        "[1]~ @ (v: int) -> int { return v; } $]",
        "{ (v, w) := (5, 6); }",
        "[1, 2]~ $ 0 (v: int, w: int) -> int { return v + w; }",
        "it := [1, 2]~ ? (v: int) -> bool { return v > 1; }; it $]",
    ];
    let src = "src := (k: mut int) -> int|string { if *k < 2 { return *k; } return \"end\"; }; h := () -> string { return \"text\"; }; ";
    let mut out = vec![];
    // constructs binding a name `z` that is declared nowhere else, at the top level of a module: `z` is
    // not a field of the module (a type test on the module value tells)
    for b in [
        "n := match 5 { z: int => 1, => 0, }",
        "if z: int = 5 { z + 1 }",
        "k := mut 0; while z: int = src(k) { k += 1; }",
        "for z in [1, 2]~ { z + 1 }",
        "for i in [1, 2]~ { for z in [true]~ { z } }",
        "{ z := 5; z + 1 }",
        "n := { z := 5; z }",
        "if true { z := 5; }",
        "loop { z := 5; break; }",
        "g := (z: int) -> int { return z + 1; }; g(1)",
        "m := mod { z := 5; }",
        "(() { z := 5; })()",
        "[1]~ @ (z: int) -> int { return z; } $]",
        "{ (z, w) := (5, 6); }",
        "[1, 2]~ $ 0 (z: int, w: int) -> int { return z + w; }",
    ] {
        let probe = |extra: &str| format!("{src}m0 := mod {{ a := h(); {extra}}}; x := match m0 {{ s: struct{{a: string, z: any}} => \"z is a field\", => \"no z\", }}; (x, m0.a)");
        out.push(json!({"kind": "scope", "with": probe(&format!("{b}; ")), "without": probe("")}));
        // and in a function body / at the top level the name is unknown afterwards
        out.push(json!({"kind": "scope", "with": format!("{src}f := () -> any {{ {b}; return z; }}; f()"), "without": format!("{src}f := () -> any {{ return z; }}; f()")}));
        out.push(json!({"kind": "scope", "with": format!("{src}{b}; z"), "without": format!("{src}z")}));
    }
    for b in binders {
        // (the outer `v` is a string and is used as a string afterwards; modules are compared field by field)
        for (decl, wrap_open, wrap_close, last) in [
            ("", "f := (v: string) -> any { ", "return v + \"!\"; }; f(\"text\")", ""),
            ("", "f := (v: string) -> string { ", "return v; }; f(\"text\")", ""),
            ("v := h(); ", "", "", "v + \"!\""),
            ("v := \"text\"; ", "", "", "v + \"!\""),
            ("", "m0 := mod { v := h(); ", "r := v + \"!\"; }; (m0.v, m0.r)", ""),
            ("v := h(); ", "f := () -> any { ", "return v + \"!\"; }; f()", ""),
            ("", "f := () -> any { v := h(); g0 := () -> string { return v; }; ", "return g0(); }; f()", ""),
        ] {
            let with = format!("{src}{decl}{wrap_open}{b}; {wrap_close}{last}");
            let without = format!("{src}{decl}{wrap_open}{wrap_close}{last}");
            out.push(json!({"kind": "scope", "with": with, "without": without}));
        }
    }
    out
}

/// C12, "an accepted match always has such an arm": matches without a default arm over a compound
/// type of a union, one type arm per member. Whether such a match covers the type depends on the
/// constructor (tuples and structs distribute over unions of their components, arrays, cells,
/// functions and iterators do not). Whatever the checker accepts is run on member-wise and mixed values.
fn coverage_cases() -> Vec<Json> {
    let unions: [&[(&str, &str)]; 4] = [
        &[("int", "1"), ("string", "\"a\"")],
        &[("int", "1"), ("float", "2.5"), ("string", "\"a\"")],
        &[("[int]", "[1]"), ("string", "\"a\"")],
        &[("int", "1"), ("()", "()")],
    ];
    let mut out = vec![];
    for u in unions {
        let ut = u.iter().map(|(t, _)| *t).collect::<Vec<_>>().join("|");
        let (v1, v2) = (u[0].1, u[1].1);
        // (scrutinee type, arm types, values of the scrutinee type)
        let mut shapes: Vec<(String, Vec<String>, Vec<String>)> = vec![];
        let per = |f: &dyn Fn(&str) -> String| u.iter().map(|(t, _)| f(t)).collect::<Vec<String>>();
        let vals = |f: &dyn Fn(&str) -> String| u.iter().map(|(_, v)| f(v)).collect::<Vec<String>>();
        shapes.push((ut.clone(), per(&|t| t.to_string()), vals(&|v| v.to_string())));
        shapes.push((ut.clone(), per(&|t| t.to_string())[..u.len() - 1].to_vec(), vals(&|v| v.to_string())));
        let mut arr_vals = vals(&|v| format!("[{v}]"));
        arr_vals.extend([format!("[{v1}, {v2}]"), "[]".to_string()]);
        shapes.push((format!("[{ut}]"), per(&|t| format!("[{t}]")), arr_vals));
        shapes.push((format!("[[{ut}]]"), per(&|t| format!("[[{t}]]")), vec![format!("[[{v1}], [{v2}]]"), format!("[[{v1}, {v2}]]"), format!("[[{v1}]]"), "[[]]".into()]));
        shapes.push((format!("mut ({ut})"), per(&|t| format!("mut {}", if t.contains('|') { format!("({t})") } else { t.to_string() })), vals(&|v| format!("mut {ut} {v}"))));
        shapes.push((format!("({ut}, int)"), per(&|t| format!("({t}, int)")), vals(&|v| format!("({v}, 1)"))));
        shapes.push((format!("({ut}, {ut})"), per(&|t| format!("({t}, {t})")), vec![format!("({v1}, {v1})"), format!("({v1}, {v2})"), format!("({v2}, {v1})")]));
        shapes.push((format!("struct{{a: {ut}}}"), per(&|t| format!("struct{{a: {t}}}")), vals(&|v| format!("struct{{a := {v}}}"))));
        shapes.push((
            format!("struct{{a: {ut}, b: {ut}}}"),
            per(&|t| format!("struct{{a: {t}, b: {t}}}")),
            vec![format!("struct{{a := {v1}, b := {v1}}}"), format!("struct{{a := {v1}, b := {v2}}}")],
        ));
        shapes.push((format!("()->{ut}"), per(&|t| format!("()->{t}")), vals(&|v| format!("() -> {ut} {{ return {v}; }}"))));
        shapes.push((format!("()->(bool, {ut})"), per(&|t| format!("()->(bool, {t})")), vec![format!("[{v1}, {v2}]~"), format!("[{v1}]~")]));
        shapes.push((format!("[mut ({ut})]"), per(&|t| format!("[mut {}]", if t.contains('|') { format!("({t})") } else { t.to_string() })), vec![format!("[mut {ut} {v1}]"), format!("[mut {ut} {v1}, mut {ut} {v2}]")]));
        shapes.push((format!("[({ut}, int)]"), per(&|t| format!("[({t}, int)]")), vec![format!("[({v1}, 1), ({v2}, 1)]"), format!("[({v1}, 1)]")]));
        shapes.push((format!("[struct{{a: {ut}}}]"), per(&|t| format!("[struct{{a: {t}}}]")), vec![format!("[struct{{a := {v1}}}, struct{{a := {v2}}}]")]));
        for (ty, arms, values) in shapes {
            let arm_text: String = arms.iter().enumerate().map(|(k, a)| format!("a{k}: {a} => {k}, ")).collect();
            for v in values {
                for wrapper in 0..2 {
                    let program = if wrapper == 0 {
                        format!("f := (x: {ty}) -> int {{ r := match x {{ {arm_text}}}; return r; }}; f({v})")
                    } else {
                        format!("f := (x: {ty}) -> int {{ match x {{ {} }}; return -1; }}; f({v})", arms.iter().enumerate().map(|(k, a)| format!("a{k}: {a} => {{ return {k}; }}, ")).collect::<String>())
                    };
                    out.push(json!({"kind": "coverage", "text": program, "arms": arms.len()}));
                }
            }
        }
    }
    out
}

fn check_coverage(case: &Json, stats: &mut Stats) -> Verdict {
    let text = case["text"].as_str().unwrap_or("");
    let arms = case["arms"].as_i64().unwrap_or(0);
    stats.eval();
    match crate::exec::run_program(text, false).outcome {
        Outcome::Rejected(_) => {
            stats.label("match coverage: rejected by the checker");
            Verdict::Pass
        }
        Outcome::Value(simplesl::variable::Variable::Int(k)) if (0..arms).contains(&k) => {
            stats.label("match coverage: accepted, an arm ran");
            stats.nontrivial(text);
            Verdict::Pass
        }
        o => fail("C12:coverage:no-arm", format!("`{text}` was accepted, but running it gave {} instead of the index of an arm", o.short())),
    }
}

/// (properties, signature tail, program, documented outcome)
const PROBES: [(&[&str], &str, &str, &str); 3] = [
    (
        // (the hidden twin, `b := *(mut bool true); x := if b { [] } else { [1] }; ...`, gives 2: there `x~` is an
        // iterator over int and the collected empty array is an `[int]`)
        &["C04"],
        "pruned-branch-narrows-empty-array-label",
        "x := if true { [] } else { [1] }; y := x~ $]; r := if z: [string] = y { 1 } else { 2 }; r",
        "value 2",
    ),
    (
        &["C04", "C07"],
        "closure-creation-folds-failing-operation",
        "x := struct{n := 0}.n; f := (() -> int { return 1 / x; }); 5",
        "value 5",
    ),
    (
        &["C04"],
        "closure-creation-folds-failing-operation-literal-twin",
        "v := if 0 == 1 { 64 } else { 0 }; g := (() -> int { return 3 / (v << 5); }); 7",
        "value 7",
    ),
];

pub fn run(session: &Session, prop: &'static RefProp, rule: &str) -> i32 {
    crate::engine::run_regressions(session, prop);
    // probes of recorded findings (each keeps its own signature)
    for (ids, sig_tail, text, expected) in PROBES {
        if ids.contains(&prop.id) && !session.stopped() {
            session.run_one(prop, &json!({"kind": "probe", "sig": format!("{}:probe:{sig_tail}", prop.id), "text": text, "expected": expected}));
        }
    }
    if prop.id == "C13" && !session.stopped() {
        crate::props::soundness::run_cells(session);
    }
    if prop.id == "C07" && !session.stopped() {
        // callees that an earlier input left in the interpreter (REPL / embedding), called by a later
        // input with arguments that have effects: each argument is evaluated exactly once, whatever
        // the callee does with it - as in the same statements run as one program
        let setup = "log := mut [int] []; note := (k: int) -> int { log = *log + [k]; return k; }; c := mut 0;";
        let callees = [
            "ignore := (x: any) {}; drop2 := (a: any, b: any) {};",
            "ignore := (x: any) { return; }; drop2 := (a: any, b: any) { return; };",
            "ignore := (x: any) -> any { return x; }; drop2 := (a: any, b: any) -> any { return b; };",
            "ignore := (x: any) -> int { return 0; }; drop2 := (a: any, b: any) -> int { return 0; };",
            "ignore := ((x: any) {}); drop2 := ((a: any, b: any) {});",
            "z := (x: any) {}; ignore := z; y := (a: any, b: any) {}; drop2 := y;",
            "m := mod { ignore := (x: any) {}; drop2 := (a: any, b: any) {}; }; ignore := m.ignore; drop2 := m.drop2;",
        ];
        let calls = [
            "ignore(c += 1);",
            "drop2(note(1), note(2));",
            "ignore(note(3)); ignore(note(4));",
            "ignore([note(1), note(2)]);",
            "f := () { ignore(note(5)); drop2(c += 2, note(6)); }; f(); f();",
            "ignore(ignore(note(1)));",
            "[note(1), note(2)]~ @ ignore $];",
            "r := ignore(note(7)); x := [r, drop2(note(8), c *= 3)];",
            "for k in [1, 2]~ { ignore(note(k)); }",
            "g := (h: (any) -> any) -> any { return h(note(9)); }; g(ignore);",
            "ignore(struct{a := note(1), b := (c += 5)});",
            "if true { ignore(note(1)); } else { ignore(note(2)); }",
        ];
        for callee in callees {
            for call in calls {
                for split in 0..3 {
                    let inputs: Vec<String> = match split {
                        0 => vec![format!("{setup} {callee}"), call.to_string(), "(*log, *c)".to_string()],
                        1 => vec![setup.to_string(), callee.to_string(), format!("{call} (*log, *c)")],
                        _ => vec![setup.to_string(), callee.to_string(), call.to_string(), call.to_string(), "(*log, *c)".to_string()],
                    };
                    if !session.stopped() {
                        session.run_one(prop, &json!({"kind": "session", "sig": "C07:session-callee", "inputs": inputs}));
                    }
                }
            }
        }
    }
    if prop.id == "C13" && !session.stopped() {
        // cells that live in the interpreter across several parsed inputs (REPL / embedding): reads and
        // writes of a later input go to the cell, not to what it held when the input was parsed
        let sessions: [&[&str]; 10] = [
            &["c := mut 0;", "c += 5; *c"],
            &["c := mut 0;", "c += 5;", "*c"],
            &["counter := mut 10;", "counter += 1;", "counter += 1;", "counter += 1; *counter"],
            &["cs := [mut 1, mut 2];", "cs[1] = 42;", "get := () -> int { return *cs[1]; };", "cs[1] += 1;", "get()"],
            &["c := mut 1; d := c;", "d = 7;", "(*c, *d)"],
            &["c := mut [int] [];", "c += [1];", "c += [2];", "(*c, std.len(*c))"],
            &["c := mut 3;", "f := () -> int { c *= 2; return *c; };", "f();", "(f(), *c)"],
            &["s := struct{c := mut 0};", "s.c += 4;", "t := s;", "t.c += 1; *s.c"],
            &["c := mut int|string 1;", "c = \"s\";", "match *c { i: int => i, x: string => 0, }"],
            &["c := mut 0;", "c /= 0;", "c += 1; *c"],
        ];
        for inputs in sessions {
            if !session.stopped() {
                session.run_one(prop, &json!({"kind": "session", "inputs": inputs}));
            }
        }
    }
    if prop.id == "C13" && !session.stopped() {
        // `c op= v` is computed from the content at the moment of the update: updates that race on one
        // cell must not lose each other (the orbit / bit / append workloads of C16, a few repetitions)
        let reps = session.tier.of(3, 20);
        for case in [
            json!({"kind": "orbit", "op": "+=", "x0": 0, "k": 1, "threads": 8, "iters": 3000, "reps": reps}),
            json!({"kind": "orbit", "op": "*=", "x0": 1, "k": 3, "threads": 8, "iters": 1500, "reps": reps}),
            json!({"kind": "orbit", "op": "^=", "x0": 0, "k": 0x55, "threads": 8, "iters": 1500, "reps": reps}),
            json!({"kind": "bits", "op": "|=", "threads": 8, "iters": 7, "reps": reps * 20}),
            json!({"kind": "append", "cell": "array", "threads": 8, "iters": 800, "reps": reps}),
        ] {
            if !session.stopped() {
                session.run_one(&crate::props::c16::C16, &case);
            }
        }
    }
    if prop.id == "C04" && !session.stopped() {
        // union-typed constants (literal: folded to one member; hidden: decided at run time) in front of
        // consumers whose answer depends on run-time types
        let sources = [
            ("[{i1}, {f25}][{i0}]", "x"),
            ("if {bt} { {i1} } else { {f25} }", "x"),
            ("match {i1} { {i1} => {i1}, => {f25}, }", "x"),
            ("[{f25}, {i1}][-{i1}]", "x"),
        ];
        let lit = |t: &str, hidden: bool| {
            let wrap = |ty: &str, v: &str| if hidden { format!("*(mut {ty} {v})") } else { v.to_string() };
            t.replace("{i1}", &wrap("int", "1")).replace("{i0}", &wrap("int", "0")).replace("{f25}", &wrap("float", "2.5")).replace("{bt}", &wrap("bool", "true"))
        };
        let mut cases = vec![];
        for (src, name) in sources {
            for consumer in crate::genr::nearmiss::union_typed_consumers() {
                let (body, last) = consumer.split_at(consumer.len() - 1);
                for (open, close) in [("", ""), ("w := () -> any { ", "}; w()")] {
                    let program = |hidden: bool| {
                        let decl = format!("{name} := {};", lit(src, hidden));
                        let stmts: String = body.iter().map(|b| format!(" {b};")).collect();
                        if open.is_empty() { format!("{decl}{stmts} {}", last[0]) } else { format!("{open}{decl}{stmts} return {}; {close}", last[0]) }
                    };
                    cases.push(json!({"plain": program(false), "hidden": program(true), "partly_hidden": program(true), "expected": "", "permitted": [], "labels": ["twin catalogue"], "counters": {}, "literals": 4}));
                }
            }
        }
        // loops whose exit (or whose repetition) is decided by a constant, with a jump somewhere else in the
        // body - inside a match arm, an if-set, an if, a block - and a loop of each kind around them: the
        // jump belongs to the inner loop whether or not the folding pass can see that the loop runs once
        let lit2 = |t: &str, hidden: bool| lit(t, hidden).replace("{bf}", &if hidden { "*(mut bool false)".to_string() } else { "false".to_string() });
        let outers = [
            ("while *o < 3 { o += 1; ", " n += 10; }"),
            ("for q in [1, 2, 3]~ { o += 1; ", " n += 10; }"),
            ("loop { o += 1; if *o > 3 { break; }; ", " n += 10; }"),
            ("g := () { ", " n += 10; }; g(); g(); o += 2;"),
        ];
        let inners = [("loop { ", " }"), ("while {bt} { ", " }"), ("while !({bf}) { ", " }")];
        let holders = [
            "match *n % 3 { 0 => { JUMP; }, => { }, }",
            "if z: int = *n { if z % 3 == 0 { JUMP; }; }",
            "if *n % 3 == 0 { JUMP; }",
            "{ if *n % 3 == 0 { JUMP; }; }",
            "match *n % 3 { 0 => { if z: int = *n { JUMP; }; }, 1 => { }, => { }, }",
        ];
        let exits = ["if {bt} { break; }", "if !({bf}) { break; }", "match {i1} { {i1} => { break; }, => { }, }", "if {bf} { } else { break; }"];
        for (oo, oc) in outers {
            for (io, ic) in inners {
                for holder in holders {
                    for jump in ["continue", "break"] {
                        for exit in exits {
                            let program = |hidden: bool| {
                                let body = format!("{io}n += 1; {}; {exit};{ic};", holder.replace("JUMP", jump));
                                lit2(&format!("n := mut 0; o := mut 0; {oo}{body}{oc}; (*n, *o)"), hidden)
                            };
                            cases.push(json!({"plain": program(false), "hidden": program(true), "partly_hidden": program(true), "expected": "", "permitted": [], "labels": ["constant-exit loop catalogue"], "counters": {}, "literals": 2}));
                        }
                    }
                }
            }
        }
        session.set_extra("twin_catalogue_cases", json!(cases.len()));
        session.run_enum(prop, cases);
    }
    if prop.id == "C04" && !session.stopped() {
        let cases = partial_constant_cases();
        session.set_extra("partial_constant_cases", json!(cases.len()));
        session.run_enum(prop, cases);
    }
    if prop.id == "C06" && !session.stopped() {
        // the part of a binding construct that does not bind the name (else branch, other arms, the tested
        // expression) still sees the outer meaning of the name: a captured run-time value, a parameter, a cell
        let outer = [
            ("h := () -> string { return \"text\"; }; v := h(); f := () -> any { @ }; f()", "\"text\""),
            ("f := (v: string) -> any { @ }; f(\"text\")", "\"text\""),
            ("h := () -> string { return \"text\"; }; v := h(); f := () -> any { g := () -> any { @ }; return g(); }; f()", "\"text\""),
            ("h := () -> string { return \"text\"; }; f := () -> any { v := h(); @ }; f()", "\"text\""),
        ];
        let bodies = [
            "n := if v: float = 5 { 0 } else { v }; return n;",
            "if v: float = 5 { return 0; } else { return v; }",
            "n := match 5 { v: float => 0, => v, }; return n;",
            "n := match 5 { v: float => 0, w: int => v, }; return n;",
            "n := if w: int = v { 0 } else { v }; return n;",
            "n := match v { w: int => 0, u: string => v, }; return n;",
            "n := if v: int = 5 { 0 } else { 1 }; return v;",
            "k := mut 0; n := mut \"\"; while w: int = k2(k) { n = v; k += 1; }; return *n;",
        ];
        for (ctx, want) in outer {
            for body in bodies {
                let text = format!("k2 := (k: mut int) -> int|string {{ if *k < 1 {{ return *k; }} return \"end\"; }}; {}", ctx.replace('@', body));
                if !session.stopped() {
                    session.run_one(prop, &json!({"kind": "probe", "sig": "C06:binder-other-part", "text": text, "expected": format!("value {want}")}));
                }
            }
        }
    }
    if prop.id == "C06" && !session.stopped() {
        // the fields of a struct literal are not declarations: a later field's initialiser that mentions
        // the name of an earlier field means the variable of the enclosing scope
        for (text, expected) in [
            ("h := () -> int { return 10; }; n := h(); s := struct{n := n + 1, m := n}; (s.n, s.m, n)", "value (11, 10, 10)"),
            ("f := (n: int) -> any { s := struct{n := n * 2, m := n, k := n + 1}; return (s.n, s.m, s.k); }; f(5)", "value (10, 5, 6)"),
            ("c := mut 1; s := struct{c := 5, d := *c}; (s.c, s.d)", "value (5, 1)"),
            ("h := () -> int { return 10; }; n := h(); f := () -> any { s := struct{n := \"s\", m := n + 1}; return s.m; }; f()", "value 11"),
            ("n := 3; s := struct{n := n + 1, m := n}; (s.n, s.m)", "value (4, 3)"),
            ("h := () -> int { return 10; }; n := h(); s := struct{n, m := n + 1, k := struct{n := 0, j := n}}; (s.n, s.m, s.k.j)", "value (10, 11, 10)"),
        ] {
            if !session.stopped() {
                session.run_one(prop, &json!({"kind": "probe", "sig": "C06:struct-field-scope", "text": text, "expected": expected}));
            }
        }
    }
    if prop.id == "C06" && !session.stopped() {
        let cases = host_scope_cases();
        session.set_extra("host_scope_cases", json!(cases.len()));
        session.run_enum(prop, cases);
    }
    if prop.id == "C06" && !session.stopped() {
        let cases = scope_cases();
        session.set_extra("binder_scope_cases", json!(cases.len()));
        session.run_enum(prop, cases);
    }
    if prop.id == "C06" && !session.stopped() {
        let mut cases = vec![];
        for inputs in [
            vec!["zero := mut 0; x := 1;", "x := 2; y := 1 / *zero;", "x"],
            vec!["zero := mut 0; f := () -> int { return 1; };", "f := () -> int { return 2; }; y := [1][5 + *zero];", "f()"],
            vec!["zero := mut 0; x := 1;", "x := 2; y := 1 / *zero; x := 3;", "x", "y := 7;", "(x, y)"],
            vec!["zero := mut 0; c := mut 5;", "d := c; c := mut 9; e := 1 % *zero;", "(*c, *d)"],
            vec!["x := 1;", "g := () -> int { return x; };", "x := 2;", "(g(), x)"],
            vec!["x := 1;", "{ x := 2; x }", "x", "m := mod { x := 3; };", "(x, m.x)"],
            vec!["x := 1;", "for x in [5]~ { x }", "x", "if x: int = 7 { x } else { 0 }", "x"],
            vec!["f := (x: int) -> int { y := x + 1; return y; };", "f(1)", "f", "x := 5; y := 6;", "(f(x), y)"],
        ] {
            let items: Vec<Json> = inputs.iter().map(|t| json!({"declares": [], "text": t})).collect();
            cases.push(json!({"kind": "repl-executable", "files": {}, "inputs": items, "binary": true}));
        }
        session.run_enum(prop, cases);
    }
    if prop.id == "C13" && !session.stopped() {
        // what a cell may hold does not depend on what was checked before: a function over cells of one
        // content type is handed, legitimately, to a user of such functions, and then to a user of
        // functions over cells of a look-alike content type (same shape, same number of union members,
        // same field names) - the second use is refused exactly as it is refused without the first
        let mut cases = vec![];
        for (t1, t2, v1, v2, store) in [
            ("mut (int|float)", "mut (int|string)", "mut int|float 1", "mut int|string 1", "c = 2.5;"),
            ("mut (int|string)", "mut (int|float)", "mut int|string 1", "mut int|float 1", "c = \"s\";"),
            ("mut [int|float]", "mut [int|bool]", "mut [int|float] [1]", "mut [int|bool] [1]", "c += [2.5];"),
            ("mut struct{a: int}", "mut struct{a: string}", "mut struct{a: int} struct{a := 1}", "mut struct{a: string} struct{a := \"s\"}", "c = struct{a := 2};"),
            ("mut (int|float|string)", "mut (int|float|bool)", "mut int|float|string 1", "mut int|float|bool 1", "c = \"s\";"),
            ("mut ((int|float) -> int)", "mut ((int|string) -> int)", "mut (int|float) -> int (x: int|float) -> int { return 1; }", "mut (int|string) -> int (x: int|string) -> int { return 1; }", "c = (x: int|float) -> int { return 2; };"),
        ] {
            let decls = format!("setc := (c: {t1}) {{ {store} }}; use1 := (f: ({t1}) -> (), c: {t1}) {{ f(c); }}; use2 := (f: ({t2}) -> (), c: {t2}) {{ f(c); }}; v1 := {v1}; v2 := {v2}; ");
            for (first, second) in [("use1(setc, v1); ", "use2(setc, v2); (*v1, *v2)"), ("use1(setc, v1); use1(setc, v1); ", "use2(setc, v2); *v2"), ("w := () { use1(setc, v1); }; w(); ", "k := () -> any { use2(setc, v2); return *v2; }; k()"), ("use1(setc, v1); ", "setc(v2); *v2"), ("use1(setc, v1); ", "g := setc; h := (f: ({t2}) -> ()) {{ }}; h(g); 1")] {
                let second = second.replace("{t2}", t2).replace("{{", "{").replace("}}", "}");
                cases.push(json!({"kind": "scope", "sig": "C13:acceptance-after-earlier-check", "with": format!("{decls}{first}{second}"), "without": format!("{decls}{second}")}));
            }
        }
        session.set_extra("acceptance_after_earlier_check_cases", json!(cases.len()));
        session.run_enum(prop, cases);
    }
    if (prop.id == "C06" || prop.id == "C07" || prop.id == "C13") && !session.stopped() {
        // one function literal evaluated several times - by a maker called with different arguments, by a
        // loop - captures anew each time, also when its free names occur only inside a literal nested in it
        // (and only inside a literal nested in that one)
        let pre = "log := mut \"\"; t := (k: string, v: bool) -> bool { log += k; return v; }; n := (k: string, v: int) -> int { log += k; return v; }; ";
        let mut cases = vec![];
        for (text, want) in [
            ("mk := (flag: bool) -> () -> bool { return () -> bool { inner := () -> bool { return flag && t(\"r\", true); }; return inner(); }; }; a := mk(true); b := mk(false); c := mk(true); (a(), b(), c(), *log)", "value (true, false, true, \"rr\")"),
            ("mk := (flag: bool) -> () -> bool { return () -> bool { inner := () -> bool { return flag || t(\"r\", false); }; return inner(); }; }; a := mk(false); b := mk(true); (a(), b(), a(), *log)", "value (false, true, false, \"rr\")"),
            ("mk := (flag: bool) -> () -> int { return () -> int { g := () -> int { return if flag { n(\"a\", 1) } else { n(\"b\", 2) }; }; return g(); }; }; a := mk(true); b := mk(false); (a(), b(), a(), *log)", "value (1, 2, 1, \"aba\")"),
            ("mk := (k: int) -> () -> () -> int { return () -> () -> int { return () -> int { return match k { 1 => n(\"x\", 10), 2 => n(\"y\", 20), => n(\"z\", 0), }; }; }; }; a := mk(1)(); b := mk(2)(); c := mk(3)(); (a(), b(), c(), a(), *log)", "value (10, 20, 0, 10, \"xyzx\")"),
            ("fs := mut [any] []; for flag in [true, false, true]~ { fs += [() -> bool { h := () -> bool { return flag && t(\"r\", true); }; return h(); }]; }; rs := *fs; call := (f: any) -> any { if g: () -> bool = f { return g(); } return (); }; (call(rs[0]), call(rs[1]), call(rs[2]), *log)", "value (true, false, true, \"rr\")"),
            ("make := (c: mut int) -> () -> () -> int { return () -> () -> int { return () -> int { c += 1; return *c; }; }; }; a := mut 0; b := mut 100; fa := make(a)(); fb := make(b)(); (fa(), fb(), fa(), *a, *b)", "value (1, 101, 2, 2, 101)"),
            ("make := (c: mut int) -> () -> int { return () -> int { bump := () -> int { c += 10; return *c; }; return bump(); }; }; a := mut 0; b := mut 5; fa := make(a); fb := make(b); (fa(), fb(), fb(), fa(), *a, *b)", "value (10, 15, 25, 20, 20, 25)"),
            ("make := (v: int) -> () -> mut int { return () -> mut int { mkc := () -> mut int { return mut v; }; return mkc(); }; }; p := make(1); q := make(2); x := p(); y := q(); z := p(); x += 10; (*x, *y, *z)", "value (11, 2, 1)"),
            ("cs := [mut 0, mut 0, mut 0]; fs := cs~ @ (c: mut int) -> () -> int { return () -> int { w := () -> int { c += 1; return *c; }; return w(); }; } $]; f0 := fs[0]; f2 := fs[2]; (f0(), f0(), f2(), *cs[0], *cs[1], *cs[2])", "value (1, 2, 1, 2, 0, 1)"),
            ("k := 1; f := () -> () -> int { return () -> int { return k; }; }; a := f(); k := 2; b := f(); g := () -> () -> int { return () -> int { return k; }; }; c := g(); (a(), b(), c())", "value (1, 1, 2)"),
        ] {
            cases.push(json!({"kind": "probe", "sig": format!("{}:nested-capture", prop.id), "text": format!("{pre}{text}"), "expected": want}));
        }
        session.run_enum(prop, cases);
    }
    if (prop.id == "C06" || prop.id == "C11") && !session.stopped() {
        // an identifier that merely begins with a word of the language (a type name or a keyword) is an
        // identifier wherever a name can stand: declared, read, made into a cell, as parameter, as the
        // predicate after `?`, as the binder of a match arm / if-set / for, in a condition, as a field, in
        // a slice bound. Every form has the value 6.
        let mut keyword_cases = vec![];
        for n in crate::genr::prog::KEYWORD_PREFIXED_NAMES {
            let forms: Vec<String> = if prop.id == "C11" {
                vec![
                    format!("{n} := (x: int) -> bool {{ return x > 1; }}; [1, 2, 3]~ ? {n} $+ + 1"),
                    format!("{n} := (x: int) -> bool {{ return x > 1; }}; srcq := [1, 2, 3]~; yq := srcq ? {n}; (yq $+) + 1"),
                    format!("{n} := (x: int) -> int {{ return x + 1; }}; [1, 2]~ @ {n} $+ + 1"),
                    format!("{n} := [1, 2, 3]~; {n} $+"),
                    format!("{n} := (a: int, x: int) -> int {{ return a + x; }}; [1, 2, 3]~ $ 0 {n}"),
                ]
            } else {
                vec![
                    format!("{n} := 5; {n} + 1"),
                    format!("{n} := 5; c := mut {n}; *c + 1"),
                    format!("f := ({n}: int) -> int {{ return {n} + 1; }}; f(5)"),
                    format!("m := match 5 {{ {n}: int => {n} + 1, => 0, }}; m"),
                    format!("r := if {n}: int = 5 {{ {n} + 1 }} else {{ 0 }}; r"),
                    format!("s := mut 0; for {n} in [5]~ {{ s += {n} + 1; }}; *s"),
                    format!("{n} := 5; if {n} > 1 {{ {n} + 1 }} else {{ 0 }}"),
                    format!("t := struct{{{n} := 5}}; t.{n} + 1"),
                    format!("{n} := 2; [4, 5, 6, 7][{n}:][0:1][0] "),
                    format!("{n} := 5; f := () -> int {{ return {n} + 1; }}; f()"),
                    format!("{n} := mut 4; loop {{ {n} += 2; break; }}; *{n}"),
                    format!("({n}, k) := (5, 1); {n} + k"),
                    format!("m := mod {{ {n} := 5; }}; m.{n} + 1"),
                    // statements separated by line ends only: the name is followed by a line that is an expression
                    format!("fy := true\nx := true\ned := 0\n{n} := 5\nw := {n}\n1\nw + 1"),
                    format!("{n} := 5\nw := [{n}\n, 1][0]\nw + 1"),
                ]
            };
            for text in forms {
                keyword_cases.push(json!({"kind": "probe", "sig": format!("{}:keyword-prefixed-name", prop.id), "text": text, "expected": "value 6"}));
            }
        }
        session.set_extra("keyword_prefixed_name_cases", json!(keyword_cases.len()));
        session.run_enum(prop, keyword_cases);
    }
    if prop.id == "C07" && !session.stopped() {
        // operands are evaluated whatever their types make of the result: `==` / `!=` between values of
        // different kinds, repeated field names in a struct literal (every initialiser runs, in order),
        // operands of operations whose result is discarded
        let pre = "log := mut \"\"; ti := (k: string, v: int) -> int { log += k; return v; }; ts := (k: string, v: string) -> string { log += k; return v; }; tb := (k: string, v: bool) -> bool { log += k; return v; }; tf := (k: string, v: float) -> float { log += k; return v; }; ";
        let mut cases = vec![];
        for (text, want) in [
            ("r := ti(\"a\", 1) == ts(\"b\", \"s\"); (r, *log)", "value (false, \"ab\")"),
            ("r := ti(\"a\", 1) != tb(\"b\", true); (r, *log)", "value (true, \"ab\")"),
            ("r := tf(\"a\", 1.0) == ti(\"b\", 1); (r, *log)", "value (false, \"ab\")"),
            ("r := ts(\"a\", \"1\") != 1; s := 2.5 == tb(\"b\", false); (r, s, *log)", "value (true, false, \"ab\")"),
            ("f := () -> bool { return ti(\"a\", 1) == ts(\"b\", \"s\"); }; (f(), f(), *log)", "value (false, false, \"abab\")"),
            ("if ti(\"a\", 1) == ts(\"b\", \"1\") { log += \"T\"; } else { log += \"F\"; }; *log", "value \"abF\""),
            ("r := () == ti(\"a\", 0); s := ti(\"b\", 0) != (); (r, s, *log)", "value (false, true, \"ab\")"),
            ("s := struct{a := ti(\"1\", 1), b := ti(\"2\", 2), a := ti(\"3\", 3)}; (s.a, s.b, *log)", "value (3, 2, \"123\")"),
            ("f := () -> int { s := struct{a := ti(\"1\", 1), a := ti(\"2\", 2), a := ti(\"3\", 3)}; return s.a; }; (f(), *log)", "value (3, \"123\")"),
            ("s := struct{a := ti(\"1\", 1), b := ts(\"2\", \"x\"), a := ts(\"3\", \"y\"), b := ti(\"4\", 4)}; (s.a, s.b, *log)", "value (\"y\", 4, \"1234\")"),
            ("struct{a := ti(\"1\", 1), a := ti(\"2\", 2)}; ti(\"3\", 3) == ts(\"4\", \"s\"); *log", "value \"1234\""),
            ("m := mod { a := ti(\"1\", 1); b := ti(\"2\", 2); a := ti(\"3\", 3); }; (m.a, *log)", "value (3, \"123\")"),
        ] {
            cases.push(json!({"kind": "probe", "sig": "C07:operands-run-whatever-their-types", "text": format!("{pre}{text}"), "expected": want}));
        }
        session.run_enum(prop, cases);
    }
    if prop.id == "C11" && !session.stopped() {
        // `it ? T` for types whose text needs parentheses somewhere (a cell of a union, a function that
        // returns a union, a function as a member), alone, as members of a union, inside arrays and tuples:
        // the elements kept are those whose run-time type matches T (the filter works on the text of T)
        let pre = "c1 := mut int|float 1; c2 := mut int|float 2.5; d := mut int 7; f := () -> int|float { return 1; }; g := () -> int { return 2; }; h := (x: int|float) -> int { return 3; }; xs := [1, 2.5, \"s\", c1, c2, d, f, g, h]; n := (a: [any]) -> int { return std.len(a); }; ";
        let mut cases = vec![];
        for (t, want) in [
            ("mut (int|float)", 2), ("mut int", 1), ("int | mut (int|float)", 3), ("mut (int|float) | int", 3), ("float | mut (int|float) | string", 4), ("mut (int|float) | mut int", 3),
            ("mut int | string", 2), ("() -> (int|float)", 2), ("() -> int", 1), ("() -> (int|float) | int", 3), ("int | () -> int", 2), ("(int|float) -> int", 1), ("(int|float) -> int | float", 2),
            ("(int) -> int", 1), ("mut (int|float) | () -> (int|float) | float", 5), ("any", 9), ("mut any", 0), ("int|float|string", 3),
        ] {
            cases.push(json!({"kind": "probe", "sig": "C11:filter-by-parenthesised-type", "text": format!("{pre}n(xs~ ? {t} $])"), "expected": format!("value {want}")}));
            cases.push(json!({"kind": "probe", "sig": "C11:filter-by-parenthesised-type", "text": format!("{pre}w := () -> int {{ return n(xs~ ? {t} $]); }}; w() + w() - w()"), "expected": format!("value {want}")}));
        }
        for (src, t, want) in [
            ("[(c1, 1), (d, 2), (1, 1)]", "(mut (int|float), int)", 1), ("[(c1, 1), (d, 2), (1, 1)]", "(mut (int|float), int) | (int, int)", 2), ("[[c1], [d], [1]]", "[mut (int|float)]", 1),
            ("[[c1], [d], [1]]", "[mut (int|float)] | [int]", 2), ("[struct{a := c1}, struct{a := d}]", "struct{a: mut (int|float)}", 1), ("[mut c1, mut d]", "mut mut (int|float)", 1),
            ("[f, g]", "() -> (int|float)", 2), ("[[f], [g]]", "[() -> (int|float)]", 2), ("[[f], [g]]", "[() -> int]", 1), ("[[f], [g]]", "[() -> int] | [() -> (int|float)]", 2),
        ] {
            cases.push(json!({"kind": "probe", "sig": "C11:filter-by-parenthesised-type", "text": format!("{pre}n({src}~ ? {t} $])"), "expected": format!("value {want}")}));
        }
        session.run_enum(prop, cases);
    }
    if prop.id == "C11" && !session.stopped() {
        // the reducers are the folds the documentation gives, also where the running result leaves the int
        // range (the language's + and * wrap), for literal and computed sources, ints and floats
        let mut cases = vec![];
        for (src, sum, product) in [
            ("[9223372036854775807, 1]", "-9223372036854775808", "9223372036854775807"),
            ("[9223372036854775807, 9223372036854775807, 2]", "0", "2"),
            ("[-9223372036854775807, -2, -5]", "9223372036854775802", "10"),
            ("[4611686018427387904, 4, 7]", "4611686018427387915", "0"),
            ("[3037000500, 3037000500]", "6074001000", "-9223372036709301616"),
            ("[-9223372036854775807 - 1, -1]", "9223372036854775807", "-9223372036854775808"),
        ] {
            for form in ["{s}~ $+", "f := (a: [int]) -> int { return a~ $+; }; f({s})", "{s}~ @ (x: int) -> int { return x; } $+", "{s}~ $ 0 (a: int, x: int) -> int { return a + x; }"] {
                cases.push(json!({"kind": "probe", "sig": "C11:reducer-is-the-fold", "text": form.replace("{s}", src), "expected": format!("value {sum}")}));
            }
            for form in ["{s}~ $*", "f := (a: [int]) -> int { return a~ $*; }; f({s})", "{s}~ ? (x: int) -> bool { return true; } $*", "{s}~ $ 1 (a: int, x: int) -> int { return a * x; }"] {
                cases.push(json!({"kind": "probe", "sig": "C11:reducer-is-the-fold", "text": form.replace("{s}", src), "expected": format!("value {product}")}));
            }
        }
        for (src, sum) in [("[1e16, 1.0, 1.0]", "1e16"), ("[0.1, 0.2, 0.3]", "0.6000000000000001"), ("[1e16, 1.0, -1e16]", "0.0")] {
            let want = if sum == "inf" { "value inf".to_string() } else { format!("value {sum}") };
            for form in ["{s}~ $+", "f := (a: [float]) -> float { return a~ $+; }; f({s})", "{s}~ $ 0.0 (a: float, x: float) -> float { return a + x; }"] {
                cases.push(json!({"kind": "probe", "sig": "C11:reducer-is-the-fold", "text": form.replace("{s}", src), "expected": want}));
            }
        }
        session.run_enum(prop, cases);
    }
    if prop.id == "C11" && !session.stopped() {
        // an adapter keeps no memory of its source having ended: a source that reports the end and later
        // yields again (a queue that is refilled) is pulled again by every stage above it
        let queue = "buf := mut [int] [1, 2]; pulls := mut 0; next := () -> (bool, int) { pulls += 1; if std.len(*buf) == 0 { return (false, 0); } v := (*buf)[0]; buf = (*buf)[1:]; return (true, v); }; ";
        for (stage, first, second) in [
            ("next @ (x: int) -> int { return x * 10; }", "[10, 20]", "[30, 40]"),
            ("next ? (x: int) -> bool { return x % 2 == 0; }", "[2]", "[4]"),
            ("next ? int", "[1, 2]", "[3, 4]"),
            ("next ? (x: int) -> bool { return x > 0; } @ (x: int) -> int { return x + 1; }", "[2, 3]", "[4, 5]"),
            ("next", "[1, 2]", "[3, 4]"),
        ] {
            let text = format!("{queue}m := {stage}; a := m $]; buf += [3, 4]; b := m $]; c := m $]; (a, b, c, *pulls)");
            let expected = format!("value ({first}, {second}, [], 7)");
            if !session.stopped() {
                session.run_one(prop, &json!({"kind": "probe", "sig": "C11:resumed-source", "text": text, "expected": expected}));
            }
            let text = format!("{queue}m := {stage}; a := m $+; buf += [3, 4]; (x, y) := m(); (a > 0, x, y > 0)");
            if !session.stopped() {
                session.run_one(prop, &json!({"kind": "probe", "sig": "C11:resumed-source", "text": text, "expected": "value (true, true, true)"}));
            }
        }
    }
    if prop.id == "C12" && !session.stopped() {
        // arrays of compound elements of several types: the arm, if-set and while-set that run are decided by
        // all the elements, not by the first one
        for (values, narrow, wide) in [
            ("[[1, 2], [2.5]]", "[[int]]", "[[int]|[float]]"),
            ("[(1, 2), (1, \"s\")]", "[(int, int)]", "[(int, int)|(int, string)]"),
            ("[struct{a := 1}, struct{a := \"s\"}]", "[struct{a: int}]", "[struct{a: int}|struct{a: string}]"),
            ("[mut 1, mut 2.5]", "[mut int]", "[mut int|mut float]"),
            ("[[], [1], [\"s\"]]", "[[int]]", "[[int]|[string]]"),
            ("[() -> int { return 1; }, () -> string { return \"s\"; }]", "[()->int]", "[()->int|()->string]"),
        ] {
            let text = format!(
                "classify := (x: any) -> int {{ return match x {{ a: {narrow} => 1, a: {wide} => 2, => 3, }}; }}; test := (x: any) -> int {{ if a: {narrow} = x {{ return 10; }} return 20; }}; walk := (x: any) -> int {{ n := mut 0; while a: {narrow} = x {{ n += 1; break; }}; return *n; }}; v := {values}; w := [v[0]]; (classify(v), test(v), walk(v), classify(w), test(w))"
            );
            if !session.stopped() {
                session.run_one(prop, &json!({"kind": "probe", "sig": "C12:array-of-compounds", "text": text, "expected": "value (2, 20, 0, 1, 10)"}));
            }
        }
    }
    if matches!(prop.id, "C11" | "C12") && !session.stopped() {
        // function values told apart by their types: a type arm, an if-set and a type filter take a
        // function exactly when its type lies below the type asked for (parameters contravariant, the
        // result covariant - also where the type asked for has the result `()`); the expected answers
        // come from the harness's own relation over the types as written
        let funs: [(&str, &str); 10] = [
            ("() -> int { return 1; }", "()->int"),
            ("() { }", "()->()"),
            ("() -> string { return \"s\"; }", "()->string"),
            ("(x: int) -> int { return x; }", "(int)->int"),
            ("(x: int) { }", "(int)->()"),
            ("(x: any) { }", "(any)->()"),
            ("[1]~", "()->(bool, int)"),
            ("() -> () -> int { return () -> int { return 1; }; }", "()->()->int"),
            ("() -> any { return 1; }", "()->any"),
            ("(x: int|string) -> int { return 1; }", "(int|string)->int"),
        ];
        let asked = ["()->()", "()->int", "(int)->()", "(int)->int", "()->any", "()->(bool, int)", "(int)->any", "(any)->()", "(string)->()", "()->()->()"];
        let below = |f: &str, t: &str| match (crate::ty::Ty::parse(f), crate::ty::Ty::parse(t)) {
            (Some(a), Some(b)) => Some(crate::ty::sub(&a, &b)),
            _ => None,
        };
        let list: Vec<String> = funs.iter().enumerate().map(|(k, (f, _))| format!("({k}, {f})")).collect();
        for t in asked {
            let Some(taken) = funs.iter().map(|(_, ft)| below(ft, t)).collect::<Option<Vec<bool>>>() else { continue };
            let indices: Vec<String> = taken.iter().enumerate().filter(|(_, b)| **b).map(|(k, _)| k.to_string()).collect();
            let ones: Vec<&str> = taken.iter().map(|b| if *b { "1" } else { "0" }).collect();
            if prop.id == "C11" {
                let text = format!("g := (fs: [any]) -> any {{ return fs~ ? (int, {t}) @ (p: (int, {t})) -> int {{ return p.0; }} $]; }}; g([{}])", list.join(", "));
                let expected = if indices.is_empty() { "value []".to_string() } else { format!("value [{}]", indices.join(", ")) };
                session.run_one(prop, &json!({"kind": "probe", "sig": "C11:filter-function-types", "text": text, "expected": expected}));
                let text = format!("g := (fs: [any]) -> any {{ a := fs~ ? (int, any); b := a @ (p: (int, any)) -> any {{ return p.1; }}; c := b ? {t}; return c @ (f: {t}) -> int {{ return 1; }} $+; }}; g([{}])", list.join(", "));
                session.run_one(prop, &json!({"kind": "probe", "sig": "C11:filter-function-types", "text": text, "expected": format!("value {}", indices.len())}));
            } else {
                let text = format!("g := (f: any) -> int {{ return match f {{ p: {t} => 1, => 0, }}; }}; h := (f: any) -> int {{ return if p: {t} = f {{ 1 }} else {{ 0 }}; }}; fs := [{}]; (fs~ @ (p: (int, any)) -> int {{ return g(p.1); }} $], fs~ @ (p: (int, any)) -> int {{ return h(p.1); }} $])", list.join(", "));
                session.run_one(prop, &json!({"kind": "probe", "sig": "C12:dispatch-function-types", "text": text, "expected": format!("value ([{0}], [{0}])", ones.join(", "))}));
                // two type arms: the first that takes the function is chosen
                for u in asked {
                    let Some(second) = funs.iter().map(|(_, ft)| below(ft, u)).collect::<Option<Vec<bool>>>() else { continue };
                    let want: Vec<&str> = taken.iter().zip(&second).map(|(a, b)| if *a { "1" } else if *b { "2" } else { "0" }).collect();
                    let text = format!("g := (f: any) -> int {{ return match f {{ p: {t} => 1, p: {u} => 2, => 0, }}; }}; fs := [{}]; fs~ @ (p: (int, any)) -> int {{ return g(p.1); }} $]", list.join(", "));
                    session.run_one(prop, &json!({"kind": "probe", "sig": "C12:dispatch-function-types", "text": text, "expected": format!("value [{}]", want.join(", "))}));
                }
            }
        }
    }
    if prop.id == "C12" && !session.stopped() {
        // an accepted match has an arm for its scrutinee: after a construct that bound the scrutinee's
        // name locally at another type, a match that covers only that other type is refused, and the
        // match that covers the name's own type takes its arm
        let mut cases = vec![];
        let constructs = [
            "for x in [1, 2]~ { }",
            "for x in [1, 2]~ { y := x + 1; }",
            "if x: int = 5 { }",
            "q := match 5 { x: int => x, }",
            "k := mut 0; nxt := (k: mut int) -> int|string { if *k < 2 { return *k; } return \"end\"; }; while x: int = nxt(k) { k += 1; }",
            "f := (x: int) -> int { return x; }; f(1)",
            "{ x := 5; x }",
            "g := () -> int { x := 5; return x; }; g()",
            "(a, b) := (1, 2); for x in [a, b]~ { for x in [x]~ { } }",
            "w := [1]~ @ (x: int) -> int { return x; } $]",
        ];
        for construct in constructs {
            for (open, close) in [("x := \"s\"; ", ""), ("h := (x: string) -> int { ", " }; h(\"s\")"), ("x := *(mut any \"s\"); h := (x: string|bool) -> int { ", " }; h(\"s\")")] {
                let inside = !close.is_empty();
                let ret = if inside { "return " } else { "" };
                cases.push(json!({"kind": "probe", "sig": "C12:match-coverage-after-binder", "text": format!("{open}{construct}; {ret}match x {{ v: int => 1, }}{close}"), "expected": "Rejected(MatchNotCovered)"}));
                let full = if open.contains("string|bool") { "v: string => 7, v: bool => 8," } else { "v: string => 7," };
                cases.push(json!({"kind": "probe", "sig": "C12:match-coverage-after-binder", "text": format!("{open}{construct}; {ret}match x {{ {full} }}{close}"), "expected": "value 7"}));
                cases.push(json!({"kind": "probe", "sig": "C12:match-coverage-after-binder", "text": format!("{open}{construct}; {ret}match x {{ v: int => 1, v: any => 7, }}{close}"), "expected": "value 7"}));
            }
        }
        session.run_enum(prop, cases);
    }
    if prop.id == "C12" && !session.stopped() {
        // selection follows the language's own `==` and the condition's own value: signed zeros and NaN among
        // many literal arms (a match may be compiled into a table), conditions that compare a variable with itself
        let mut cases = vec![];
        let name = "name := (x: float) -> string { return match x { 1.0 => \"one\", 2.0 => \"two\", 3.5 => \"x\", 0.0 => \"zero\", 7.25 => \"y\", => \"other\", }; }; ";
        let nan = "nanm := (x: float) -> string { return match x { 1.0 => \"one\", 2.0 => \"two\", 3.5 => \"x\", (0.0 / 0.0) => \"nan\", 7.25 => \"y\", => \"other\", }; }; ";
        let ints = "pick := (x: int|float|string) -> int { return match x { 1 => 10, \"1\" => 20, 1.0 => 30, 2 => 40, -0.0 => 50, => 0, }; }; ";
        for (text, want) in [
            (format!("{name}(name(-0.0), name(0.0), name(2.0), name(-2.0))"), "value (\"zero\", \"zero\", \"two\", \"other\")"),
            (format!("{name}z := *(mut float 0.0); (name(0.0 - z), name(z * -1.0), name(7.25))"), "value (\"zero\", \"zero\", \"y\")"),
            (format!("{nan}q := *(mut float 0.0); (nanm(q / q), nanm(0.0 / 0.0), nanm(3.5))"), "value (\"other\", \"other\", \"x\")"),
            (format!("{ints}(pick(1), pick(\"1\"), pick(1.0), pick(2), pick(0.0), pick(-0.0), pick(3))"), "value (10, 20, 30, 40, 50, 50, 0)"),
            ("m := match -0.0 { 5.0 => 1, 6.0 => 2, 7.0 => 3, 0.0 => 4, => 0, }; m".to_string(), "value 4"),
            ("f := (x: float) -> (string, string, string, string) { a := if x == x { \"then\" } else { \"else\" }; b := if x != x { \"then\" } else { \"else\" }; y := x; c := if x == y { \"then\" } else { \"else\" }; d := if [x] == [x] { \"then\" } else { \"else\" }; return (a, b, c, d); }; z := *(mut float 0.0); (f(z / z), f(1.5))".to_string(), "value ((\"else\", \"then\", \"else\", \"else\"), (\"then\", \"else\", \"then\", \"then\"))"),
            ("z := *(mut float 0.0); x := z / z; n := mut 0; while x == x { n += 1; if *n > 2 { break; }; }; k := mut 0; while x != x { k += 1; if *k > 2 { break; }; }; (*n, *k)".to_string(), "value (0, 3)"),
            ("z := *(mut float 0.0); x := z / z; r := if x == x { 1 } else { 2 }; s := match x { (x) => 1, => 2, }; (r, s)".to_string(), "value (2, 2)"),
        ] {
            cases.push(json!({"kind": "probe", "sig": "C12:selection-by-equality", "text": text, "expected": want}));
        }
        session.run_enum(prop, cases);
    }
    if prop.id == "C12" && !session.stopped() {
        let overlapping = |t: &str| t.contains("int|string") || t.contains("int|float");
        let cases: Vec<Json> = crate::props::c10::membership_cases()
            .into_iter()
            .filter(|c| overlapping(c["s"].as_str().unwrap_or("")) && overlapping(c["t"].as_str().unwrap_or("")))
            .map(|mut c| {
                c["kind"] = json!("type-test");
                c
            })
            .collect();
        session.set_extra("partial_overlap_type_test_cases", json!(cases.len()));
        session.run_enum(prop, cases);
    }
    if prop.id == "C12" && !session.stopped() {
        // every loop shape run for n rounds with `continue` (or `break`) taken in exactly the rounds of a
        // given set - the first, the last, every one, none: rounds started, rounds finished and the
        // counter afterwards have documented values (a jump in the last round is the boundary case: the
        // condition is already false when the loop is tested next)
        let mut cases = vec![];
        for n in 1..=4u32 {
            for mask in 0..(1u32 << n) {
                let skipped = mask.count_ones();
                let taken = format!("({mask} >> (*k - 1)) & 1 == 1");
                let body = format!("k += 1; s += 1; if {taken} {{ continue; }}; e += 1;");
                let pre = "k := mut 0; s := mut 0; e := mut 0; ";
                let want = format!("value ({n}, {n}, {})", n - skipped);
                let shapes = [
                    format!("{pre}while *k < {n} {{ {body} }}; (*k, *s, *e)"),
                    format!("{pre}loop {{ if *k >= {n} {{ break; }}; {body} }}; (*k, *s, *e)"),
                    format!("{pre}for x in [0; {n}]~ {{ {body} }}; (*k, *s, *e)"),
                    format!("{pre}next := () -> int|string {{ if *k < {n} {{ return *k; }} return \"end\"; }}; while x: int = next() {{ {body} }}; (*k, *s, *e)"),
                    format!("f := () -> (int, int, int) {{ {pre}while *k < {n} {{ {body} }}; return (*k, *s, *e); }}; f()"),
                    format!("{pre}while *k < {n} {{ k += 1; s += 1; match {taken} {{ true => {{ continue; }}, => {{ e += 1; }}, }}; }}; (*k, *s, *e)"),
                    format!("{pre}while *k < {n} {{ k += 1; s += 1; if j: int = *k {{ if {taken} {{ continue; }}; }}; e += 1; }}; (*k, *s, *e)"),
                    format!("{pre}o := mut 0; while *o < 2 {{ o += 1; k = 0; while *k < {n} {{ {body} }}; }}; (*k, *s / 2, *e / 2)"),
                ];
                for text in shapes {
                    cases.push(json!({"kind": "probe", "sig": "C12:jump-rounds", "text": text, "expected": want}));
                }
                // `break` in the first round of the set: the rounds before it ran in full
                if mask != 0 {
                    let first = mask.trailing_zeros() + 1;
                    let body = format!("k += 1; s += 1; if {taken} {{ break; }}; e += 1;");
                    let want = format!("value ({first}, {first}, {})", first - 1);
                    for text in [
                        format!("{pre}while *k < {n} {{ {body} }}; (*k, *s, *e)"),
                        format!("{pre}loop {{ if *k >= {n} {{ break; }}; {body} }}; (*k, *s, *e)"),
                        format!("{pre}for x in [0; {n}]~ {{ {body} }}; (*k, *s, *e)"),
                        format!("{pre}next := () -> int|string {{ if *k < {n} {{ return *k; }} return \"end\"; }}; while x: int = next() {{ {body} }}; (*k, *s, *e)"),
                    ] {
                        cases.push(json!({"kind": "probe", "sig": "C12:jump-rounds", "text": text, "expected": want}));
                    }
                }
            }
        }
        session.set_extra("jump_round_cases", json!(cases.len()));
        session.run_enum(prop, cases);
    }
    if prop.id == "C12" && !session.stopped() {
        // loops evaluate to (), however their bodies end and however often they run: the value, what the
        // language's own tests say about it, and the cell made from it
        let loops = [
            "for x in [1, 2]~ { break; }",
            "for x in [1, 2]~ { continue; }",
            "for x in [1, 2]~ { x + 1 }",
            "for x in []~ { break; }",
            "while true { break; }",
            "while false { break; }",
            "loop { break; }",
            "loop { if true { break; }; continue; }",
            "while x: int = src(k) { k += 1; continue; }",
            "while x: int = src(k) { break; }",
            "while x: string = src(k) { break; }",
            "for x in [1]~ { for y in [2]~ { break; }; continue; }",
        ];
        let src = "src := (k: mut int) -> int|string { if *k < 2 { return *k; } return \"end\"; }; k := mut 0; ";
        for l in loops {
            let tests = "n := if q: () = r { 1 } else { 0 }; c := mut r; m := match c { j: mut () => 1, => 0, }; o := match r { () => 1, => 0, };";
            for text in [
                format!("{src}r := {l}; {tests} (r, n, m, o)"),
                format!("{src}f := () -> any {{ r := {l}; {tests} return (r, n, m, o); }}; f()"),
                format!("{src}f := () -> any {{ r := {}; {tests} return (r, n, m, o); }}; f()", l.replace("break;", "return 5;")),
            ] {
                let expected = if text.contains("return 5;") && !l.contains("[]~") && !l.contains("while false") && !l.contains("x: string") && l.contains("break") { "value 5" } else { "value ((), 1, 1, 1)" };
                if !session.stopped() {
                    session.run_one(prop, &json!({"kind": "probe", "sig": "C12:loop-value", "text": text, "expected": expected}));
                }
            }
        }
    }
    if prop.id == "C12" && !session.stopped() {
        // break / continue / return of an enclosing loop or function placed after an inner construct of
        // every kind: the inner construct does not change what they refer to
        let inner = [
            "k2 := mut 0; while x: int = src(k2) { k2 += 1; }",
            "k2 := mut 0; while x: int = src(k2) { k2 += 1; if x > 5 { break; }; continue; }",
            "loop { break; }",
            "while false { }",
            "for x in [1, 2]~ { if x > 1 { break; }; continue; }",
            "if x: int = src(mut 0) { x }",
            "if x: string = src(mut 0) { x } else { 0 }",
            "match src(mut 0) { x: int => { x }, => { 0 }, }",
            "{ 1 }",
            "g := () -> int { return 1; }; g()",
            "[1, 2]~ @ (x: int) -> int { return x; } $]",
            "m := mod { a := 1; }",
        ];
        let src = "src := (k: mut int) -> int|string { if *k < 2 { return *k; } return \"end\"; }; ";
        let mut cases = vec![];
        for i in inner {
            for (open, close) in [
                ("k := mut 0; n := mut 0; loop { k += 1; ", "if *k >= 3 { break; }; n += 1; continue; n += 100; }; (*k, *n)"),
                ("k := mut 0; n := mut 0; while *k < 3 { k += 1; ", "if *k == 2 { continue; }; n += 1; }; (*k, *n)"),
                ("n := mut 0; for e in [1, 2, 3, 4]~ { ", "if e == 2 { continue; }; if e == 4 { break; }; n += e; }; *n"),
                ("k := mut 0; n := mut 0; w := () -> int|string { k += 1; if *k > 3 { return \"end\"; }; return *k; }; while e: int = w() { ", "if e == 2 { continue; }; n += e; }; (*k, *n)"),
                ("f := (c: int) -> int { k := mut 0; loop { k += 1; ", "if *k >= c { return *k * 10; }; }; return 0; }; (f(1), f(3))"),
                ("k := mut 0; n := mut 0; loop { k += 1; if *k > 2 { break; }; j := mut 0; loop { j += 1; ", "if *j >= 2 { break; }; n += 1; continue; }; n += 10; }; (*k, *n)"),
            ] {
                cases.push(json!({"kind": "scope", "with": format!("{src}{open}{i}; {close}"), "without": format!("{src}{open}{close}"), "sig": "C12:placement"}));
            }
        }
        session.set_extra("valid_placement_cases", json!(cases.len()));
        session.run_enum(prop, cases);
    }
    if prop.id == "C12" && !session.stopped() {
        let cases = coverage_cases();
        session.set_extra("match_coverage_cases", json!(cases.len()));
        session.run_enum(prop, cases);
    }
    if !session.stopped() {
        session.run_tapes(prop, session.tier.of(80_000, 2_000_000), 600, 0);
    }
    let stats = session.stats.lock().unwrap();
    let discarded: u64 = stats.discards.values().sum();
    let evaluated = stats.evaluations.max(1);
    drop(stats);
    session.set_extra("discard_ratio", json!(discarded as f64 / (discarded + evaluated) as f64));
    cleanup_import_dirs();
    session.finish(
        rule,
        false,
        &["the reference interpreter (genr/refi.rs) is written from the documentation; values the documentation leaves unspecified (fillers of exhausted iterators) discard the case when they become observable",
          "programs the checker rejects are discarded and counted (generator precision), never reported"],
    )
}
