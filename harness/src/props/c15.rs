//! C15 — types survive printing and re-parsing (for any print order).
use crate::{
    engine::{Property, Session, Stats, Tier, Verdict, fail},
    genr::types::{TyCfg, gen_ty},
    run::{self, Outcome},
    tape::Tape,
    ty::Ty,
};
use pest::Parser;
use serde_json::{Value as Json, json};
use simplesl::variable::Type;
use simplesl_parser::{Rule, SimpleSLParser};
use std::str::FromStr;

pub struct C15Prop;
pub static C15: C15Prop = C15Prop;

/// print with union members / struct fields rotated by `rot` (different source orders)
fn print_rot(t: &Ty, rot: usize) -> String {
    match t {
        Ty::Arr(e) if **e != Ty::Never => format!("[{}]", print_rot(e, rot)),
        Ty::Tup(ts) => format!("({})", ts.iter().map(|t| print_rot(t, rot)).collect::<Vec<_>>().join(", ")),
        Ty::Fun(ps, r) => format!(
            "({})->{}",
            ps.iter().map(|t| print_rot(t, rot)).collect::<Vec<_>>().join(", "),
            paren(r, rot)
        ),
        Ty::Mut(e) => format!("mut {}", paren(e, rot)),
        Ty::Struct(fs) => {
            let mut items: Vec<String> = fs.iter().map(|(k, v)| format!("{k}: {}", print_rot(v, rot))).collect();
            if !items.is_empty() {
                let k = rot % items.len();
                items.rotate_left(k);
            }
            format!("struct{{{}}}", items.join(", "))
        }
        Ty::Union(ms) => {
            let mut items: Vec<String> = ms.iter().map(|t| print_rot(t, rot)).collect();
            let k = rot % items.len();
            items.rotate_left(k);
            if rot % 2 == 1 {
                items.reverse();
            }
            items.join("|")
        }
        other => other.print(),
    }
}

fn paren(t: &Ty, rot: usize) -> String {
    if t.is_union() { format!("({})", print_rot(t, rot)) } else { print_rot(t, rot) }
}

/// does the type contain a union in a position where the printer must parenthesise or nest it
fn nested_union(t: &Ty, under: bool) -> bool {
    match t {
        Ty::Union(ms) => under || ms.iter().any(|m| nested_union(m, true)),
        Ty::Arr(e) | Ty::Mut(e) => nested_union(e, true),
        Ty::Tup(ts) => ts.iter().any(|t| nested_union(t, true)),
        Ty::Fun(ps, r) => ps.iter().any(|t| nested_union(t, true)) || nested_union(r, true),
        Ty::Struct(fs) => fs.values().any(|t| nested_union(t, true)),
        _ => false,
    }
}

/// can a default value of the type be made (needed by the type-filter route)
fn has_default(t: &Ty) -> bool {
    match t {
        Ty::Never => false,
        Ty::Arr(_) => true,
        Ty::Tup(ts) => ts.iter().all(has_default),
        Ty::Struct(fs) => fs.values().all(has_default),
        Ty::Mut(e) => has_default(e),
        Ty::Fun(_, r) => has_default(r),
        Ty::Union(ms) => ms.iter().all(has_default),
        _ => true,
    }
}

impl Property for C15Prop {
    fn id(&self) -> &'static str {
        "C15"
    }

    fn gen_case(&self, tape: &mut Tape, tier: Tier) -> Option<Json> {
        let cfg = TyCfg::full(tier.of(3, 4));
        let t = gen_ty(tape, &cfg);
        Some(json!({"ty": t.print(), "rot": tape.below(6)}))
    }

    fn check_case(&self, case: &Json, stats: &mut Stats) -> Verdict {
        if case["kind"].as_str() == Some("checked-type") {
            return check_checked_type(case["text"].as_str().unwrap_or(""), stats);
        }
        let text = case["ty"].as_str().unwrap_or("int");
        let rot = case["rot"].as_u64().unwrap_or(0) as usize;
        let Ok(first) = Type::from_str(text) else {
            return fail("C15:parse", format!("generated type text `{text}` did not parse"));
        };
        // what the text means is read by the harness itself: the implementation's reader is under test
        let Some(model) = Ty::parse(text) else {
            return Verdict::Discard("type text outside the harness's own reader");
        };
        if Ty::from_real(&first) != model {
            return fail(
                "C15:parse-structure",
                format!("`{text}` was read as {} (printed by the harness from the parsed structure)", Ty::from_real(&first).print()),
            );
        }
        if nested_union(&model, false) {
            stats.nontrivial(text);
            stats.label("nested union");
        }
        if matches!(&model, Ty::Union(_)) {
            stats.label("top-level union");
        }
        stats.label(&format!("shape {}", model.shape()));
        // several instances of the same type: different source orders, rebuilt with `|`
        let mut instances: Vec<(String, Type)> = vec![("parsed".into(), first.clone()), ("built through the constructors".into(), model.construct())];
        for r in [rot, rot + 1, rot + 3] {
            let src = print_rot(&model, r);
            match Type::from_str(&src) {
                Ok(t) => instances.push((format!("parsed from `{src}`"), t)),
                Err(_) => return fail("C15:parse", format!("`{src}` (a reordering of `{text}`) did not parse")),
            }
        }
        if let Ty::Union(ms) = &model {
            let mut members: Vec<Type> = ms.iter().map(Ty::to_real).collect();
            members.rotate_left(rot % ms.len());
            let built = members.into_iter().reduce(|a, b| a | b).unwrap();
            instances.push(("built with |".into(), built));
            // two unions joined with `|` (the join of two unions is one flat union)
            if ms.len() >= 3 {
                let mut members: Vec<Type> = ms.iter().map(Ty::to_real).collect();
                members.rotate_left((rot + 1) % ms.len());
                let cut = 1 + rot % (ms.len() - 1);
                let right = members.split_off(cut);
                let (l, r) = (members.into_iter().reduce(|a, b| a | b).unwrap(), right.into_iter().reduce(|a, b| a | b).unwrap());
                // a union that was printed (and asked about) before it was widened: what it prints afterwards
                // is the widened type
                // (`|=` may absorb members that lie below other members, so its result is only required
                // to survive its own round trip: what it prints after the widening is what it is)
                let mut grown = l.clone();
                let _ = run::guarded(|| (grown.to_string(), grown.matches(&r), format!("{grown:?}").len()));
                grown |= r.clone();
                match run::guarded(|| Type::from_str(&grown.to_string())) {
                    Ok(Ok(back)) if back == grown && Ty::from_real(&back) == Ty::from_real(&grown) => {}
                    Ok(Ok(back)) => {
                        return fail(
                            "C15:roundtrip-after-widening",
                            format!("a union printed as `{}`, then widened by |= `{}`, prints as `{}`, which parses to {} while the value is {}", l, r, grown, Ty::from_real(&back).print(), Ty::from_real(&grown).print()),
                        );
                    }
                    Ok(Err(_)) => return fail("C15:unparsable-print", format!("a union widened by |= prints as `{grown}`, which does not parse")),
                    Err(c) => return fail(format!("C15:display:{}", c.sig()), format!("printing a union widened by |= panicked")),
                }
                let seen = l.clone();
                let _ = run::guarded(|| seen.to_string());
                instances.push(("printed, then joined with |".into(), seen | r.clone()));
                let seen = r.clone();
                let _ = run::guarded(|| seen.to_string());
                instances.push(("printed, then joined into another union".into(), l.clone() | seen));
                instances.push(("built from two halves joined with |".into(), l.clone() | r.clone()));
                instances.push(("built from two halves joined with | the other way round".into(), r | l));
            }
        }
        stats.sample(8, || json!({"type": text, "instances": instances.len(), "printed": instances[0].1.to_string()}));
        for (how, t) in &instances {
            stats.eval();
            // structural identity of the instance (harness view)
            let m = Ty::from_real(t);
            if m != model {
                return fail(
                    "C15:instance",
                    format!("`{text}` {how} has structure {} instead of {}", m.print(), model.print()),
                );
            }
            let printed = match run::guarded(|| t.to_string()) {
                Ok(p) => p,
                Err(c) => return fail(format!("C15:display:{}", c.sig()), format!("printing `{text}` panicked")),
            };
            // the whole printed text must be one type (nothing left over after the parse)
            match SimpleSLParser::parse(Rule::r#type, &printed) {
                Ok(pairs) => {
                    let consumed: usize = pairs.map(|p| p.as_str().len()).sum();
                    if consumed != printed.len() {
                        return fail(
                            "C15:ambiguous-print",
                            format!("`{text}` prints as `{printed}`, of which only the first {consumed} bytes parse as a type"),
                        );
                    }
                }
                Err(_) => {
                    return fail("C15:unparsable-print", format!("`{text}` prints as `{printed}`, which is not a type"));
                }
            }
            let back = match run::guarded(|| Type::from_str(&printed)) {
                Ok(Ok(b)) => b,
                Ok(Err(_)) => {
                    return fail("C15:unparsable-print", format!("`{text}` prints as `{printed}`, which does not parse"));
                }
                Err(c) => return fail(format!("C15:from_str:{}", c.sig()), format!("parsing `{printed}` panicked")),
            };
            let mb = Ty::from_real(&back);
            if mb != model {
                return fail(
                    "C15:roundtrip-structure",
                    format!("`{text}` ({how}) prints as `{printed}`, which parses to {} instead", mb.print()),
                );
            }
            if back != *t {
                return fail(
                    "C15:roundtrip-eq",
                    format!("`{text}` ({how}) prints as `{printed}`; the re-parsed type has the same structure but `==` says it differs"),
                );
            }
            if *t != instances[0].1 {
                return fail(
                    "C15:instances-eq",
                    format!("two instances of `{text}` ({how} vs parsed) have the same structure but `==` says they differ"),
                );
            }
        }
        // the interpreter re-parses printed types in `it ? T`
        if has_default(&model) {
            stats.eval();
            stats.label("type-filter route");
            let program = format!("it := [1, \"a\", 2.5]~ ? {text}; r := it(); r.0");
            match run::run_text(&program, false) {
                Outcome::Value(_) => {}
                Outcome::Aborted(_) => {}
                o => {
                    return fail(
                        format!("C15:type-filter:{}", o.panic_sig().unwrap_or_else(|| "outcome".into())),
                        format!("`{program}`: {}", o.short()),
                    );
                }
            }
        }
        Verdict::Pass
    }
}

/// The types the checker itself computes (for array literals over union-typed elements, concatenations
/// with `[]`, joins of branches, results of calls): each is printed, read back, and must be `==` to itself
/// and have the same structure in the harness's eyes (a union inside a union, or a `!` next to other
/// members, prints like the flat union but is another value).
fn check_checked_type(text: &str, stats: &mut Stats) -> Verdict {
    use simplesl::variable::ReturnType;
    stats.eval();
    let interp = crate::exec::safe_interpreter();
    let code = match run::parse_guarded(&interp, text) {
        Ok(Ok(code)) => code,
        Ok(Err(_)) => return Verdict::Discard("program rejected"),
        Err(o) => return fail(format!("C15:checked-type:{}", o.panic_sig().unwrap_or_default()), format!("`{text}`: {}", o.short())),
    };
    let Ok(t) = run::guarded(|| code.return_type()) else {
        return fail("C15:checked-type:return_type", format!("Code::return_type() of `{text}` panicked"));
    };
    let Ok(printed) = run::guarded(|| t.to_string()) else {
        return fail("C15:display", format!("printing the static type of `{text}` panicked"));
    };
    stats.label("types computed by the checker");
    stats.nontrivial(text);
    stats.sample(4, || json!({"program": text, "static_type": printed}));
    let back = match run::guarded(|| Type::from_str(&printed)) {
        Ok(Ok(b)) => b,
        Ok(Err(_)) => return fail("C15:unparsable-print", format!("the static type of `{text}` prints as `{printed}`, which does not parse")),
        Err(c) => return fail(format!("C15:from_str:{}", c.sig()), format!("parsing `{printed}` panicked")),
    };
    let (m, mb) = (Ty::from_real(&t), Ty::from_real(&back));
    if back != t || mb != m {
        return fail(
            "C15:checked-type:roundtrip",
            format!("the static type of `{text}` prints as `{printed}`; read back it is {} and {} to the original ({:?} against {:?})", mb.print(), if back == t { "==" } else { "not ==" }, back, t),
        );
    }
    Verdict::Pass
}

/// identifiers that look like words of the language: words with a syntactic role that are not
/// reserved, type names, and identifiers that begin with a reserved word
const FIELD_WORDS: [&str; 30] = [
    "in", "if", "else", "match", "import", "int", "float", "string", "any", "it", "std", "len", "mutx", "returns", "looping", "structure",
    "module", "breaks", "continued", "truth", "falsehood", "whiles", "fort", "x1", "_a", "a_b", "A", "camelCase", "init", "iff",
];

fn checked_type_cases() -> Vec<Json> {
    let pre = "hb := *(mut bool true); a := if hb { 1 } else { \"s\" }; b := if hb { 2.5 } else { [1] }; anyv := (v: any) -> any { return v; }; e := []; ints := (x: [int]) -> [int] { return x; }; never := () -> ! { return never(); }; ";
    let exprs = [
        "[a, 1.5]", "[1.5, a]", "[a, a]", "[a, b]", "[anyv(1), 2]", "[2, anyv(1)]", "[] + ints([1, 2])", "e + ints([1])", "ints([1]) + e", "[] + [a]", "[a] + [1.5]", "[a] + e + [b]",
        "(a, [a, 2.5])", "if hb { [a] } else { [1.5] }", "[[a], [1.5]]", "[a, [a]]", "[[a, 1.5], [b]]", "mut [a, 1.5]", "struct{f := [a, 1.5], g := a}", "() -> any { return [a, 1.5]; }",
        "() -> [int|string|float] { return [a, 1.5]; }", "[a]~", "[a, 1.5]~", "[a, 1.5]~ @ (x: any) -> any { return x; }", "[a, 1.5]~ ? int $]", "[a, 1.5]~ ? int|string $]", "match a { x: int => [x], x: string => [x, 1.5], }",
        "[ints([1]), []]", "[[], ints([1])]", "[[], [a]]", "[a; 2]", "[[a, 1.5]; 2]", "[a, 1.5][0]", "[a, 1.5][0:1]", "([a, 1.5], [b])", "[(a, 1), (1.5, b)]", "[mut a, mut 1.5]", "[() -> int|string { return a; }, () -> float { return 1.5; }]",
        "if hb { a } else { b }", "[if hb { a } else { b }, 1]", "[a, ()]", "[(), a, ()]", "[a, true, 1.5, \"s\", [1], ()]", "x := [a, 1.5]; y := x + [b]; y", "x := mut [any] []; x += [a]; *x",
        "[] + []", "[[]] + [[1]]", "if hb { [] } else { [a] }", "if hb { never() } else { [a, 1.5] }", "[a, 1.5] + []",
    ];
    exprs.iter().map(|e| json!({"kind": "checked-type", "text": format!("{pre}{e}")})).collect()
}

pub fn run(session: &Session) -> i32 {
    crate::engine::run_regressions(session, &C15);
    if !session.stopped() {
        // every program several times (fresh hash orders for the unions the checker builds)
        let mut cases = vec![];
        for _ in 0..session.tier.of(6, 40) {
            cases.extend(checked_type_cases());
        }
        session.set_extra("checked_type_cases", json!(cases.len()));
        session.run_enum(&C15, cases);
    }
    // unions nested under one another through every constructor, three and four levels deep, and
    // unions of 2 to 12 members (alone and nested): each in 4 source orders
    let wrap = |k: usize, x: &str| match k % 6 {
        0 => format!("[{x}]"),
        1 => format!("({x}, int)"),
        2 => format!("mut ({x})"),
        3 => format!("struct{{a: {x}, b: float}}"),
        4 => format!("()->({x})"),
        _ => format!("({x})->int"),
    };
    let mut cases = vec![];
    for w1 in 0..6 {
        for w2 in 0..6 {
            let u1 = format!("{}|float", wrap(w1, "int|string"));
            let u2 = format!("{}|bool", wrap(w2, &u1));
            for rot in 0..4 {
                cases.push(json!({"ty": u2, "rot": rot}));
            }
            for w3 in 0..6 {
                let u3 = format!("{}|()", wrap(w3, &u2));
                cases.push(json!({"ty": u3, "rot": w1 + w2 + w3}));
                cases.push(json!({"ty": format!("{}|string", wrap(w3, &format!("{}|[float]", wrap(w2, &format!("{}|int", wrap(w1, "struct{p: int, q: string}|bool")))))), "rot": w1 + 2 * w3}));
            }
        }
    }
    let members = ["int", "float", "string", "bool", "()", "[int]", "[string]", "(int, int)", "mut int", "struct{a: int}", "()->int", "[[float]]"];
    for n in 2..=members.len() {
        let u = members[..n].join("|");
        for rot in 0..4 {
            cases.push(json!({"ty": u, "rot": rot}));
            cases.push(json!({"ty": format!("[{u}]|mut ({u})"), "rot": rot}));
            cases.push(json!({"ty": format!("({u})->({u})"), "rot": rot}));
        }
    }
    // struct types whose field names are spelled like words of the language that are not reserved
    // (any identifier may name a field), alone and under every constructor
    for name in FIELD_WORDS {
        for w in 0..7 {
            let st = format!("struct{{{name}: int, z: string|{name2}}}", name2 = "float");
            let ty = if w == 6 { st.clone() } else { wrap(w, &format!("{st}|bool")) };
            cases.push(json!({"ty": ty, "rot": w}));
            cases.push(json!({"ty": format!("{ty}|struct{{z: int, {name}: [int]}}"), "rot": w + 1}));
        }
    }
    session.set_extra("enumerated_nesting_cases", json!(cases.len()));
    if !session.stopped() {
        session.run_enum(&C15, cases);
    }
    session.run_tapes(&C15, session.tier.of(200_000, 2_000_000), 120, 0);
    session.finish(
        "types from a universe closed under every constructor to depth 3 (quick) / 4 (thorough); each type is realised as 4-5 instances (parsed from texts with union members and struct fields in different orders, rebuilt with `|`), each instance is printed and re-parsed: the whole printed text must parse as one type (checked with the grammar's type rule), to the same structure, `==` to the instance, and all instances must be `==`; types with a default value also go through the run-time type filter `it ? T`, which prints and re-parses T internally. An enumerated family nests unions under one another through every constructor three and four levels deep and sweeps unions of 2-12 members. Non-trivial = a union nested under a function result/parameter, mut, array, tuple or struct field; distinct by type text.",
        false,
        &["print orders depend on per-instance hash keys chosen by std; several instances per type sample them"],
    )
}
