//! C03 — parsing and checking is total: any text yields a program or an error, never a panic.
use crate::{
    engine::{Property, Session, Stats, Tier, Verdict, fail},
    genr::grammar::Grammar,
    run::{self, Caught},
    tape::Tape,
};
use pest::Parser;
use serde_json::{Value as Json, json};
use simplesl::{
    Code, Interpreter,
    variable::{ReturnType, Type, Variable},
};
use simplesl_parser::{Rule, SimpleSLParser};
use std::{str::FromStr, sync::OnceLock};

pub struct C03Prop;
pub static C03: C03Prop = C03Prop;

pub const TOKENS: [&str; 140] = [
    // keywords
    "if", "else", "match", "import", "return", "loop", "while", "for", "in", "break", "continue", "mut", "struct", "mod",
    "true", "false",
    // type names
    "int", "float", "string", "bool", "any", "!",
    // operators (every multi-character one)
    "+", "-", "*", "/", "%", "**", "<<", ">>", "&", "|", "^", "==", "!=", "<", "<=", ">", ">=", "&&", "||", "=", "+=", "-=",
    "*=", "/=", "%=", "**=", "<<=", ">>=", "&=", "|=", "^=", "@", "?", "\\", "$", "$+", "$*", "$&&", "$||", "$&", "$|", "$]",
    "~",
    // brackets and punctuation
    "(", ")", "[", "]", "{", "}", ";", ",", ":", ":=", "=>", "->", ".", ".0", ".1", ".a", "()", "[]", "{}",
    // literals
    "0", "1", "5", "64", "0x1F", "0b101", "9223372036854775807", "9223372036854775808", "1.5", "0.0", "1e3", "\"s\"",
    "\"\"", "\"scratch_ok\"", "\"scratch_missing\"", "\"scratch_\\q\"", "\"\\u{110000}\"",
    // identifiers (bound in the environment used for parsing) and unbound ones
    "a", "b", "x", "f", "i", "m", "s", "t", "std", "len", "zz", "_",
    // composite fragments that reach deeper rules quickly
    "x:", "x: int", "x: int|string", "(x: int)", "-> int", "(a, b)", "[1, 2]", "(1, 2)", "[0; 2]", "a[0]", "a[0:1]", "f(1)",
    "std.len", "i()", "*m", "m = 1", "a~", "? int", "struct{a := 1}", "mod {x := 1}", "=> 1,", "x: int => 1,", "1 => 2,",
    "(1) => 2,", "/* c */", "// c\n", "import \"scratch_ok\"",
];

fn scratch_dir() -> &'static std::path::PathBuf {
    static DIR: OnceLock<std::path::PathBuf> = OnceLock::new();
    DIR.get_or_init(|| {
        let dir = std::env::temp_dir().join(format!("vcheck-c03-{}", std::process::id()));
        let _ = std::fs::remove_dir_all(&dir);
        std::fs::create_dir_all(dir.join("scratch_dir")).expect("scratch dir");
        std::fs::write(dir.join("scratch_ok"), "p := 1; q := (x: int) -> int { return x + p; }").unwrap();
        std::fs::write(dir.join("scratch_syntax"), "p := := 1").unwrap();
        std::fs::write(dir.join("scratch_type"), "p := 1 + \"a\"").unwrap();
        std::fs::write(dir.join("scratch_fold"), "p := 1 / 0").unwrap();
        std::fs::write(dir.join("scratch_nonutf8"), [0xffu8, 0xfe, 0x00, 0x41]).unwrap();
        std::fs::write(dir.join("scratch_nested"), "q := import \"scratch_missing\"").unwrap();
        std::fs::write(dir.join("scratch_nested_ok"), "q := import \"scratch_ok\"; r := q.p").unwrap();
        std::fs::write(dir.join("scratch_empty"), "").unwrap();
        // files that use names of whoever imports them (a file is checked in the importer's scope)
        std::fs::write(dir.join("scratch_uses_cell"), "bump := () -> int { counter += 1; return *counter; }; seen := *counter;").unwrap();
        std::fs::write(dir.join("scratch_uses_const"), "twice := k * 2; g := (x: int) -> int { return x + k; };").unwrap();
        std::fs::write(dir.join("scratch_uses_nested"), "inner := import \"scratch_uses_cell\"; s := inner.seen;").unwrap();
        std::fs::write(dir.join("scratch_ret"), "return 1").unwrap();
        std::fs::write(dir.join("scratch_break"), "break").unwrap();
        // imports resolve against the working directory: run inside the scratch directory
        std::env::set_current_dir(&dir).expect("chdir scratch");
        dir
    })
}

pub fn cleanup_scratch() {
    let dir = scratch_dir().clone();
    let _ = std::env::set_current_dir("/");
    let _ = std::fs::remove_dir_all(dir);
}

/// an interpreter whose environment binds the identifiers of the token alphabet
fn environment() -> Interpreter<'static> {
    let mut interp = Interpreter::with_stdlib();
    let defs = [
        ("a", "[1, 2, 3]"),
        ("b", "true"),
        ("x", "5"),
        ("f", "(n: int) -> int { return n + 1; }"),
        ("i", "[1, 2]~"),
        ("m", "mut 1"),
        ("s", "\"text\""),
        ("t", "(1, \"a\")"),
    ];
    for (name, text) in defs {
        if let Ok(code) = Code::parse(&Interpreter::without_stdlib(), text)
            && let Ok(v) = code.exec()
        {
            interp.insert(name.into(), v);
        }
    }
    interp
}

fn grammar() -> &'static Grammar {
    static G: OnceLock<Grammar> = OnceLock::new();
    G.get_or_init(|| Grammar::load(&format!("{}/parser/src/simplesl.pest", run::repo_root())).expect("grammar"))
}

fn paren_depth(text: &str) -> usize {
    let (mut d, mut max) = (0usize, 0usize);
    for c in text.chars() {
        match c {
            '(' => {
                d += 1;
                max = max.max(d);
            }
            ')' => d = d.saturating_sub(1),
            _ => {}
        }
    }
    max
}

fn nesting_depth(text: &str) -> usize {
    let (mut d, mut max) = (0usize, 0usize);
    for c in text.chars() {
        match c {
            '(' | '[' | '{' => {
                d += 1;
                max = max.max(d);
            }
            ')' | ']' | '}' => d = d.saturating_sub(1),
            _ => {}
        }
    }
    max
}

/// imports of anything but the scratch files could read devices; such inputs are skipped
fn unsafe_import(text: &str) -> bool {
    let mut rest = text;
    while let Some(pos) = rest.find("import") {
        let after = rest[pos + 6..].trim_start();
        if !after.starts_with("\"scratch_") {
            return true;
        }
        rest = &rest[pos + 6..];
    }
    false
}

pub fn corpus() -> Vec<String> {
    let mut out = vec![];
    if let Ok(entries) = std::fs::read_dir(format!("{}/example_scripts", run::repo_root())) {
        for e in entries.flatten() {
            if let Ok(t) = std::fs::read_to_string(e.path()) {
                out.push(t);
            }
        }
    }
    for doc in ["README.md", "docs/iterators.md", "docs/statements.md"] {
        if let Ok(t) = std::fs::read_to_string(format!("{}/{doc}", run::repo_root())) {
            let mut in_block = false;
            let mut block = String::new();
            for line in t.lines() {
                if line.trim_start().starts_with("```") {
                    if in_block && !block.trim().is_empty() {
                        out.push(std::mem::take(&mut block));
                    }
                    in_block = !in_block;
                    block.clear();
                } else if in_block {
                    block.push_str(line);
                    block.push('\n');
                }
            }
        }
    }
    out.sort();
    out
}

/// split into coarse lexical tokens (for token-level mutation of valid programs)
fn lex(text: &str) -> Vec<String> {
    let mut out = vec![];
    let chars: Vec<char> = text.chars().collect();
    let mut i = 0;
    while i < chars.len() {
        let c = chars[i];
        if c.is_whitespace() {
            i += 1;
        } else if c.is_alphanumeric() || c == '_' {
            let s = i;
            while i < chars.len() && (chars[i].is_alphanumeric() || chars[i] == '_' || chars[i] == '.') {
                i += 1;
            }
            out.push(chars[s..i].iter().collect());
        } else if c == '"' {
            let s = i;
            i += 1;
            while i < chars.len() && chars[i] != '"' {
                if chars[i] == '\\' {
                    i += 1;
                }
                i += 1;
            }
            i = (i + 1).min(chars.len());
            out.push(chars[s..i].iter().collect());
        } else {
            // greedy multi-character operator
            let rest: String = chars[i..(i + 3).min(chars.len())].iter().collect();
            let mut took = 1;
            for op in ["**=", "<<=", ">>=", "$&&", "$||", ":=", "=>", "->", "==", "!=", "<=", ">=", "&&", "||", "**", "<<", ">>", "+=", "-=", "*=", "/=", "%=", "&=", "|=", "^=", "$+", "$*", "$&", "$|", "$]", "//", "/*", "*/"] {
                if rest.starts_with(op) {
                    took = op.chars().count();
                    break;
                }
            }
            out.push(chars[i..i + took].iter().collect());
            i += took;
        }
    }
    out
}

const FAILING: [&str; 10] = ["1 / 0", "1 % 0", "1 << 64", "1 >> -1", "[1, 2][5]", "[1, 2][-3]", "\"ab\"[2]", "[0; -1]", "1.0 / 0.0", "2 ** -1"];

fn constant_failure_programs() -> Vec<String> {
    let mut out = vec![];
    for f in FAILING {
        for ctx in [
            "{}",
            "x := {}",
            "x := ({}) + 1",
            "[{}]",
            "({}, 1)",
            "struct{{a := {}}}",
            "f := (n: int) -> int {{ return n }}; f({})",
            "if ({}) == 1 {{ 1 }} else {{ 2 }}",
            "while ({}) == 1 {{ break; }}",
            "x := mut {}",
            "f := () -> any {{ return {}; }}",
            "f := () -> any {{ return {}; }}; f()",
            "match 1 {{ ({}) => 1, => 2, }}",
            "match {} {{ => 2, }}",
            "[1, 2, 3][{}:]",
            "[0; {}]",
            "x := true && ({}) == 1",
            "x := false && ({}) == 1",
            "x := true || ({}) == 1",
            "for e in [{}]~ {{ e }}",
            "y := 1; z := y + ({})",
            "mod {{ p := {} }}",
            "-({})",
            "c := mut 1; c += {}",
            "g := (k: int) -> () -> any {{ return () -> any {{ return {} }} }}",
            "(a, b) := ({}, 2)",
            "if x: int = {} {{ x }}",
            "[1, 2]~ $ ({}) (acc: any, c: int) -> any {{ return acc }}",
        ] {
            out.push(ctx.replace("{}", f).replace("{{", "{").replace("}}", "}"));
        }
    }
    out
}

fn import_programs() -> Vec<String> {
    let mut out = vec![];
    for file in [
        "scratch_ok", "scratch_missing", "scratch_dir", "scratch_syntax", "scratch_type", "scratch_fold", "scratch_nonutf8",
        "scratch_nested", "scratch_nested_ok", "scratch_empty", "scratch_ret", "scratch_break", "scratch_dir/none",
    ] {
        for ctx in [
            "import \"{}\"",
            "lib := import \"{}\"",
            "lib := import \"{}\"; lib.p",
            "lib := import \"{}\"; lib.q(1)",
            "f := () {{ lib := import \"{}\" }}",
            "{{ import \"{}\" }}",
            "if true {{ import \"{}\" }}",
            "loop {{ import \"{}\"; break; }}",
            "x := (import \"{}\")",
            "import \"{}\" import \"{}\"",
            "mod {{ lib := import \"{}\" }}",
        ] {
            out.push(ctx.replace("{}", file).replace("{{", "{").replace("}}", "}"));
        }
    }
    // the same file under importers that declare the names it uses as cells, as constants, at other
    // types, as parameters, or not at all - each pair of importers in both orders (the list is walked
    // forwards and backwards by many threads of one process)
    let mut scoped = vec![];
    for file in ["scratch_uses_cell", "scratch_uses_const", "scratch_uses_nested"] {
        for importer in [
            "lib := import \"{}\"; lib",
            "counter := mut 0; k := 2; lib := import \"{}\"; lib",
            "counter := mut \"s\"; k := \"s\"; lib := import \"{}\"; lib",
            "counter := 5; k := mut 5; lib := import \"{}\"; lib",
            "counter := mut 1.5; k := 2.5; lib := import \"{}\"; lib",
            "f := (counter: mut int, k: int) -> any { lib := import \"{}\"; return lib; }; f(mut 1, 2)",
            "f := (counter: mut int|mut float, k: int|float) -> any { lib := import \"{}\"; return lib; }; f(mut 1, 2)",
            "counter := mut 0; k := 2; a := import \"{}\"; { counter := \"s\"; k := true; b := import \"{}\"; b }",
            "m := mod { counter := mut 0; k := 2; lib := import \"{}\"; }; lib2 := import \"{}\"; m",
        ] {
            scoped.push(importer.replace("{}", file));
        }
    }
    out.extend(scoped.iter().cloned());
    out.extend(scoped.iter().rev().cloned());
    out.extend(scoped.iter().cloned());
    out
}

/// files that import themselves, directly or through one or two other files, under every spelling
/// of the path, next to files that are merely imported twice (a diamond is no cycle)
const CYCLE_FILES: [(&str, &str); 9] = [
    ("cyc_self", "import \"cyc_self\"; x := 1;"),
    ("cyc_self_named", "me := import \"./cyc_self_named\"; x := 1;"),
    ("cyc_a", "b := import \"cyc_b\"; x := 1;"),
    ("cyc_b", "a := import \"cyc_a\"; y := 2;"),
    ("cyc_1", "n := import \"cyc_2\";"),
    ("cyc_2", "f := () { n := import \"cyc_3\"; };"),
    ("cyc_3", "n := if true { import \"scratch_dir/../cyc_1\" } else { 0 };"),
    ("dia_l", "d := import \"scratch_ok\"; l := d.p + 1;"),
    ("dia_r", "d := import \"scratch_ok\"; r := d.p + 2;"),
];

fn cycle_programs() -> Vec<String> {
    let mut out = vec![];
    for file in ["cyc_self", "./cyc_self", "cyc_self_named", "cyc_a", "cyc_b", "cyc_1", "cyc_2", "cyc_3"] {
        for ctx in ["import \"{}\"", "lib := import \"{}\"; lib", "f := () { lib := import \"{}\"; }; 1", "mod { lib := import \"{}\"; }", "import \"scratch_ok\"; import \"{}\""] {
            out.push(ctx.replace("{}", file));
        }
    }
    out.push("l := import \"dia_l\"; r := import \"dia_r\"; d := import \"scratch_ok\"; (l.l, r.r, d.p)".to_string());
    out.push("a := import \"scratch_ok\"; b := import \"scratch_ok\"; a.p + b.p".to_string());
    out
}

/// child side: a cyclic import that is followed for ever ends the process (stack overflow), which
/// no guard inside the process can turn into a verdict. Every program is announced on stderr first.
/// operators whose helpers the library builds on first use, each inside `depth` levels of a nesting form
fn nested_text(op: usize, form: usize, depth: usize) -> String {
    let core = [
        "[true, false]~ $&&", "[true, false]~ $||", "[6, 3]~ $&", "[6, 3]~ $|", "[1, 2]~ $+", "[1.5]~ $+", "[\"a\"]~ $+", "[1, 2]~ $*", "[1, 2]~ @ (x: int) -> int { return x; } $]",
        "[1, 2]~ ? (x: int) -> bool { return x > 1; } $]", "[1, \"a\"]~ ? int $]", "[1, 2]~ \\ (x: int) -> bool { return x > 1; }", "[1, 2]~ $ 0 (a: int, x: int) -> int { return a + x; }",
    ][op % 13];
    let (open, close) = [("[", "]"), ("{ ", " }"), ("if true { ", " }"), ("(1, ", ")")][form % 4];
    format!("{}{core}{}", open.repeat(depth), close.repeat(depth))
}

pub fn child(mode: &str) -> i32 {
    if let Some(rest) = mode.strip_prefix("nest:") {
        // child side of the first-use-at-depth catalogue: one text, in a process that has used nothing yet
        let nums: Vec<usize> = rest.split(':').filter_map(|n| n.parse().ok()).collect();
        let (op, form, depth, stdlib) = (nums[0], nums[1], nums[2], nums.get(3).copied().unwrap_or(0) == 1);
        let text = nested_text(op, form, depth);
        let worker = std::thread::Builder::new().stack_size(1 << 30).spawn(move || {
            let interp = if stdlib { Interpreter::with_stdlib() } else { Interpreter::without_stdlib() };
            let first = std::panic::catch_unwind(std::panic::AssertUnwindSafe(|| Code::parse(&interp, &text).map(|c| c.return_type()).is_ok()));
            // afterwards the operator works in the plain program too (a failed first use poisons nothing)
            let plain = nested_text(op, 0, 0);
            let second = std::panic::catch_unwind(std::panic::AssertUnwindSafe(|| Code::parse(&interp, &plain).is_ok()));
            match (first, second) {
                (Ok(_), Ok(true)) => 0,
                (Ok(_), Ok(false)) => 4,
                _ => 3,
            }
        });
        return worker.ok().and_then(|w| w.join().ok()).unwrap_or(3);
    }
    let dir = scratch_dir();
    for (name, body) in CYCLE_FILES {
        let _ = std::fs::write(dir.join(name), body);
    }
    let mut panics = 0;
    let programs = cycle_programs();
    for text in &programs {
        eprintln!("START\t{text}");
        for stdlib in [true, false] {
            let interp = if stdlib { Interpreter::with_stdlib() } else { Interpreter::without_stdlib() };
            let r = std::panic::catch_unwind(std::panic::AssertUnwindSafe(|| Code::parse(&interp, text).map(|c| c.return_type()).map_err(|e| e.to_string())));
            match r {
                Ok(Ok(_)) => eprintln!("ACCEPTED\t{text}"),
                Ok(Err(_)) => {}
                Err(_) => {
                    panics += 1;
                    eprintln!("PANIC\t{text}");
                }
            }
        }
    }
    eprintln!("DONE\t{}", programs.len());
    cleanup_scratch();
    if panics > 0 { 1 } else { 0 }
}

/// One text in a fresh process: `depth` levels of a harmless nesting form around an operator whose helper
/// the library builds on first use. Depths of this size do not exhaust the stack (the worker has 1 GiB).
fn check_first_use_at_depth(case: &Json, stats: &mut Stats) -> Verdict {
    use std::process::{Command, Stdio};
    let (op, form, depth, stdlib) = (case["op"].as_u64().unwrap_or(0), case["form"].as_u64().unwrap_or(0), case["depth"].as_u64().unwrap_or(0), case["stdlib"].as_u64().unwrap_or(0));
    let text = nested_text(op as usize, form as usize, depth as usize);
    stats.eval();
    stats.nontrivial(&text);
    stats.label("first use of a lazily built helper inside a nested text (fresh process)");
    let Ok(out) = Command::new("/proc/self/exe").args(["C03", "child", &format!("nest:{op}:{form}:{depth}:{stdlib}")]).stdin(Stdio::null()).stdout(Stdio::null()).stderr(Stdio::piped()).output() else {
        return Verdict::Inconclusive("child process did not start");
    };
    match out.status.code() {
        Some(0) => Verdict::Pass,
        Some(2) => Verdict::Inconclusive("child watchdog"),
        Some(4) => fail(
            "C03:Code::parse:first-use-at-depth:poisoned",
            format!("after `{}...` ({depth} levels) was parsed first in a fresh process, the plain `{}` is no longer accepted", &text[..text.len().min(60)], nested_text(op as usize, 0, 0)),
        ),
        code => fail(
            "C03:Code::parse:first-use-at-depth",
            format!("in a fresh process ({} interpreter), Code::parse of {depth} levels of `{}` around `{}` panicked or ended the process ({code:?}): {}", if stdlib == 1 { "stdlib" } else { "empty" }, ["[", "{", "if true {", "(1, "][form as usize % 4], nested_text(op as usize, 0, 0), String::from_utf8_lossy(&out.stderr).chars().take(200).collect::<String>()),
        ),
    }
}

fn check_import_cycles(stats: &mut Stats) -> Verdict {
    use std::process::{Command, Stdio};
    let Ok(out) = Command::new("/proc/self/exe").args(["C03", "child", "import-cycles"]).stdin(Stdio::null()).stdout(Stdio::null()).stderr(Stdio::piped()).output() else {
        return Verdict::Inconclusive("child process did not start");
    };
    let report = String::from_utf8_lossy(&out.stderr).to_string();
    let started: Vec<&str> = report.lines().filter_map(|l| l.strip_prefix("START\t")).collect();
    stats.evals(2 * started.len() as u64);
    stats.label("imports that form a cycle (child process)");
    for t in &started {
        stats.nontrivial(t);
    }
    if let Some(text) = report.lines().find_map(|l| l.strip_prefix("PANIC\t")) {
        return fail("C03:Code::parse:cyclic-import:panic", format!("Code::parse panicked on `{text}` (files: {CYCLE_FILES:?})"));
    }
    if !report.lines().any(|l| l.starts_with("DONE\t")) {
        if report.contains("INCONCLUSIVE") {
            return Verdict::Inconclusive("child watchdog");
        }
        let last = started.last().copied().unwrap_or("<none>");
        return fail(
            "C03:Code::parse:cyclic-import:abort",
            format!("the process ended ({:?}) inside Code::parse of `{last}`: a file that imports itself is followed until the stack overflows (files: {CYCLE_FILES:?}); {}", out.status, report.lines().filter(|l| l.contains("overflow")).take(1).collect::<String>()),
        );
    }
    let accepted = report.lines().filter(|l| l.starts_with("ACCEPTED\t")).count();
    stats.label_n("import programs accepted in the cycle catalogue (diamonds, repeated imports)", accepted as u64);
    stats.sample(2, || json!({"import_cycle_programs": started.len(), "accepted": accepted}));
    Verdict::Pass
}

pub enum Reach {
    Lexer,
    Checker(String),
    Folding(String),
    Accepted,
}

/// Everything the property quantifies over for one text; Err = (signature, message)
pub fn probe(text: &str, stats: &mut Stats) -> Result<Reach, (String, String)> {
    let panicked = |what: &str, c: Caught| match c {
        Caught::Panic { msg, loc } => Err((
            format!("C03:{what}:{}", run::relative_loc(&loc)),
            format!("{what} panicked on {text:?}: {msg} @ {loc}"),
        )),
        Caught::Abort(_) => Ok(()),
    };
    let mut reach = Reach::Lexer;
    for (which, interp) in [
        ("Code::parse(with_stdlib+env)", environment()),
        ("Code::parse(without_stdlib)", Interpreter::without_stdlib()),
    ] {
        run::default_budget();
        stats.eval();
        match run::guarded(|| Code::parse(&interp, text)) {
            Ok(Ok(code)) => {
                reach = Reach::Accepted;
                // the static type of an accepted program is part of checking
                use simplesl::variable::ReturnType;
                if let Err(c) = run::guarded(|| code.return_type()) {
                    panicked("Code::return_type", c)?;
                }
            }
            Ok(Err(e)) => {
                let kind = run::error_kind(&e);
                if !matches!(reach, Reach::Accepted) {
                    reach = match kind.as_str() {
                        "Parsing" => Reach::Lexer,
                        k if run::EXEC_ERROR_KINDS.contains(&k) => Reach::Folding(kind),
                        _ => Reach::Checker(kind),
                    };
                }
                // printing an error is part of reporting it
                if let Err(c) = run::guarded(|| e.to_string()) {
                    panicked("Error::to_string", c)?;
                }
            }
            Err(c) => panicked(which, c)?,
        }
    }
    stats.eval();
    if let Err(c) = run::guarded(|| Variable::from_str(text).map(|v| format!("{v:?}"))) {
        panicked("Variable::from_str", c)?;
    }
    stats.eval();
    if let Err(c) = run::guarded(|| Type::from_str(text).map(|t| t.to_string())) {
        panicked("Type::from_str", c)?;
    }
    Ok(reach)
}

impl Property for C03Prop {
    fn id(&self) -> &'static str {
        "C03"
    }

    fn gen_case(&self, tape: &mut Tape, tier: Tier) -> Option<Json> {
        let _ = scratch_dir();
        match tape.weighted(&[4, 5, 3, 4]) {
            3 => {
                // a typed program (shadowing, redeclaration of a name from its own old value, closures,
                // cells, iterators ...), as it is or with token-level edits: accepted or nearly accepted
                // programs reach the folding pass, which re-resolves names
                use crate::genr::{ast::Hide, case, prog::Profile};
                let profile = *tape.pick(&[Profile::SCOPING, Profile::GENERAL, Profile::CONSTANTS, Profile::CONTROL, Profile::CELLS, Profile::ITERATORS]);
                let program = case::generate(tape, profile.with_free_dispatch());
                if !case::import_files(&program).is_empty() {
                    return None;
                }
                let hide = match tape.below(3) {
                    0 => Hide::None,
                    1 => Hide::All,
                    _ => Hide::Mask(tape.u64()),
                };
                let text = case::print(&program, hide);
                if tape.bool() {
                    Some(json!({"src": "typed-program", "text": text}))
                } else {
                    Some(json!({"src": "typed-near-miss", "text": crate::genr::nearmiss::mutate_text(&text, tape)}))
                }
            }
            0 => {
                let n = 1 + tape.below(tier.of(16, 24));
                let toks: Vec<&str> = (0..n).map(|_| *tape.pick(&TOKENS)).collect();
                let glue = if tape.chance(1, 8) { "" } else { " " };
                Some(json!({"src": "tokens", "text": toks.join(glue)}))
            }
            1 => {
                let g = grammar();
                let start = *tape.pick(&["input", "input", "input", "line", "stm", "expr", "function", "match", "type", "only_var", "slicing"]);
                let budget = 4 + tape.below(tier.of(10, 14));
                let mut used = vec![];
                let mut text = g.derive(start, tape, budget, &mut used);
                // identifiers of the derivation are random letters; most programs die on the first
                // unknown name, so map short unknown words onto the bound names some of the time
                if tape.chance(3, 4) {
                    text = rebind_identifiers(&text, tape);
                }
                Some(json!({"src": "derivation", "text": text, "start": start}))
            }
            _ => {
                let corpus = corpus();
                if corpus.is_empty() {
                    return None;
                }
                let mut toks = lex(tape.pick(&corpus[..]).as_str());
                if toks.is_empty() {
                    return None;
                }
                for _ in 0..1 + tape.below(3) {
                    let k = tape.below(toks.len());
                    match tape.below(5) {
                        0 => {
                            toks.remove(k);
                        }
                        1 => {
                            let t = toks[k].clone();
                            toks.insert(k, t);
                        }
                        2 => {
                            let j = tape.below(toks.len());
                            toks.swap(k, j);
                        }
                        3 => toks[k] = tape.pick(&TOKENS).to_string(),
                        _ => toks.insert(k, tape.pick(&TOKENS).to_string()),
                    }
                    if toks.is_empty() {
                        break;
                    }
                }
                Some(json!({"src": "mutated-corpus", "text": toks.join(" ")}))
            }
        }
    }

    fn check_case(&self, case: &Json, stats: &mut Stats) -> Verdict {
        let _ = scratch_dir();
        let text = case["text"].as_str().unwrap_or("");
        let src = case["src"].as_str().unwrap_or("?");
        if src == "import-cycles" {
            return check_import_cycles(stats);
        }
        if src == "first-use-at-depth" {
            return check_first_use_at_depth(case, stats);
        }
        if nesting_depth(text) > 40 {
            return Verdict::Discard("nesting deeper than 40 (stack exhaustion is outside the claim)");
        }
        if paren_depth(text) > 12 {
            // the grammar backtracks over `(`: parse time doubles with every level (depth 20 takes
            // seconds, depth 30 hours); time is outside the claim, and a check must not hang
            return Verdict::Discard("parentheses nested deeper than 12 (parse time doubles per level)");
        }
        if unsafe_import(text) {
            return Verdict::Discard("import of a path outside the scratch directory");
        }
        stats.label(&format!("source {src}"));
        let grammatical = SimpleSLParser::parse(Rule::input, text).is_ok();
        if grammatical {
            stats.nontrivial(text);
            stats.label(&format!("{src}: passes the grammar"));
        }
        match probe(text, stats) {
            Ok(reach) => {
                match &reach {
                    Reach::Lexer => {}
                    Reach::Checker(k) => stats.label(&format!("rejected by the checker: {k}")),
                    Reach::Folding(k) => stats.label(&format!("rejected while folding: {k}")),
                    Reach::Accepted => stats.label("accepted"),
                }
                if grammatical {
                    stats.sample(10, || json!({"src": src, "text": text}));
                }
                Verdict::Pass
            }
            Err((sig, msg)) => fail(sig, msg),
        }
    }
}

fn rebind_identifiers(text: &str, tape: &mut Tape) -> String {
    const KEEP: [&str; 26] = [
        "if", "else", "match", "import", "return", "loop", "while", "for", "in", "break", "continue", "mut", "struct", "mod",
        "true", "false", "int", "float", "string", "bool", "any", "std", "len", "e", "E", "x",
    ];
    const NAMES: [&str; 8] = ["a", "b", "x", "f", "i", "m", "s", "t"];
    let mut out = String::new();
    let mut word = String::new();
    let mut in_string = false;
    let flush = |word: &mut String, out: &mut String, tape: &mut Tape| {
        if !word.is_empty() {
            let is_ident = word.chars().next().is_some_and(|c| c.is_alphabetic() || c == '_');
            if is_ident && !KEEP.contains(&word.as_str()) && !word.starts_with("0") && tape.chance(3, 4) {
                out.push_str(*tape.pick(&NAMES[..]));
            } else {
                out.push_str(word);
            }
            word.clear();
        }
    };
    for c in text.chars() {
        if c == '"' {
            flush(&mut word, &mut out, tape);
            in_string = !in_string;
            out.push(c);
        } else if in_string {
            out.push(c);
        } else if c.is_alphanumeric() || c == '_' {
            word.push(c);
        } else {
            flush(&mut word, &mut out, tape);
            out.push(c);
        }
    }
    flush(&mut word, &mut out, tape);
    out
}

pub fn run(session: &Session) -> i32 {
    let _ = scratch_dir();
    crate::engine::run_regressions(session, &C03);
    let mut cases = vec![];
    // every token sequence up to length 2 (quick) / 3 (thorough)
    for a in TOKENS {
        cases.push(json!({"src": "tokens-exhaustive", "text": a}));
        for b in TOKENS {
            cases.push(json!({"src": "tokens-exhaustive", "text": format!("{a} {b}")}));
        }
    }
    if session.tier == Tier::Thorough {
        for a in TOKENS {
            for b in TOKENS {
                for c in TOKENS {
                    cases.push(json!({"src": "tokens-exhaustive", "text": format!("{a} {b} {c}")}));
                }
            }
        }
    } else {
        // a third token after the pairs that end inside an unfinished construct
        for a in ["x :=", "f := (x: int)", "if b", "match x {", "a [", "m =", "i ?", "a ~", "x +", "return", "(", "[", "mut", "for e in", "while b"] {
            for b in TOKENS {
                for c in ["", "}", ")", "]", ";", "1", "x", "{ }", ","] {
                    cases.push(json!({"src": "tokens-exhaustive", "text": format!("{a} {b} {c}")}));
                }
            }
        }
    }
    {
        use crate::genr::matrix::{BINARY, CATALOGUE, INFIX, UNARY, binary_program, infix_program, unary_program};
        for x in CATALOGUE {
            for t in UNARY {
                cases.push(json!({"src": "matrix-unary", "text": unary_program(x.ty, t)}));
            }
            for y in CATALOGUE {
                for op in INFIX {
                    cases.push(json!({"src": "matrix-infix", "text": infix_program(x.ty, y.ty, op)}));
                }
                for t in BINARY {
                    cases.push(json!({"src": "matrix-binary", "text": binary_program(x.ty, y.ty, t)}));
                }
            }
        }
    }
    for p in constant_failure_programs() {
        cases.push(json!({"src": "constant-failure", "text": p}));
    }
    {
        // operands whose type shrinks to `!` between checking and folding: `if true { k() } else { V }`
        // has the type `!|T` for the checker, and the folding pass keeps only the `!` branch
        use crate::genr::matrix::{CATALOGUE, UNARY};
        let never = "k := () -> ! { return k(); }; ";
        for x in CATALOGUE {
            let Some(v) = x.values.first() else { continue };
            for (k, t) in UNARY.iter().enumerate() {
                let body = t.replace('X', "x");
                let decl = match k % 3 {
                    0 => format!("x := if true {{ k() }} else {{ {v} }}"),
                    1 => format!("x := if false {{ {v} }} else {{ k() }}"),
                    _ => format!("x := match 1 {{ 1 => k(), => {v}, }}"),
                };
                cases.push(json!({"src": "never-after-folding", "text": format!("{never}{decl}; {body}")}));
                if k % 4 == 0 {
                    cases.push(json!({"src": "never-after-folding", "text": format!("{never}f := () -> any {{ {decl}; {body}; return 0; }}")}));
                }
            }
            // as either operand of every infix operator and two-operand template
            for y in ["1", "2.5", "\"s\"", "true", "[1]", "mut 1", "(n: int) -> int { return n; }", "[1, 2]~", "(1, 2)", "struct{a := 1}"] {
                for op in crate::genr::matrix::INFIX {
                    cases.push(json!({"src": "never-after-folding", "text": format!("{never}x := if true {{ k() }} else {{ {v} }}; y := {y}; x {op} y")}));
                    cases.push(json!({"src": "never-after-folding", "text": format!("{never}x := if true {{ k() }} else {{ {v} }}; y := {y}; y {op} x")}));
                }
                for t in crate::genr::matrix::BINARY {
                    let body = t.replace('X', "x").replace('Y', "y");
                    cases.push(json!({"src": "never-after-folding", "text": format!("{never}x := if true {{ k() }} else {{ {v} }}; y := {y}; {body}")}));
                    let body = t.replace('X', "y").replace('Y', "x");
                    cases.push(json!({"src": "never-after-folding", "text": format!("{never}x := if true {{ k() }} else {{ {v} }}; y := {y}; {body}")}));
                }
            }
        }
    }
    {
        // operands the folding pass re-types: the sum of `if true { [] } else { [V] }` is a string or
        // a float for the checker, and - the pruned branch gone - the int 0 of an array of nothing
        // once folded; every template and operator then meets a value outside its checked type
        use crate::genr::matrix::{BINARY, INFIX, UNARY};
        for v in ["\"x\"", "1.5", "1", "[1]", "true"] {
            for red in ["$+", "$*", "$&&", "$||", "$&", "$|"] {
                for (k, decl) in [
                    format!("a := if true {{ [] }} else {{ [{v}] }}"),
                    format!("a := if false {{ [{v}] }} else {{ [] }}"),
                    format!("a := match 1 {{ 1 => [], => [{v}], }}"),
                ]
                .iter()
                .enumerate()
                {
                    for t in UNARY {
                        let body = t.replace('X', "x");
                        cases.push(json!({"src": "retyped-after-folding", "text": format!("{decl}; x := a~ {red}; {body}")}));
                        if k == 0 {
                            cases.push(json!({"src": "retyped-after-folding", "text": format!("{decl}; {}", t.replace('X', &format!("(a~ {red})")))}));
                        }
                    }
                    if k != 0 {
                        continue;
                    }
                    for y in ["1", "2.5", "\"s\"", "[1]", "mut 1"] {
                        for op in INFIX {
                            cases.push(json!({"src": "retyped-after-folding", "text": format!("{decl}; x := a~ {red}; y := {y}; x {op} y")}));
                            cases.push(json!({"src": "retyped-after-folding", "text": format!("{decl}; x := a~ {red}; y := {y}; y {op} x")}));
                        }
                        for t in BINARY {
                            let body = t.replace('X', "x").replace('Y', "y");
                            cases.push(json!({"src": "retyped-after-folding", "text": format!("{decl}; x := a~ {red}; y := {y}; {body}")}));
                        }
                    }
                }
            }
        }
    }
    {
        // the matrix once more with operands that are constants of a union static type
        // (`[v1, v2][k]` has the union of the element types and folds to one element): the checker
        // judges the union, the folding pass then applies the operator to the element
        use crate::genr::matrix::{CATALOGUE, INFIX, UNARY};
        let constant = |o: &crate::genr::matrix::Operand, k: usize| format!("[{}][{k}]", o.values.join(", "));
        let mixed: Vec<&crate::genr::matrix::Operand> = CATALOGUE
            .iter()
            .filter(|o| !o.values.is_empty() && (o.ty.contains('|') || matches!(o.ty, "any" | "int" | "float" | "string" | "bool" | "()" | "[int]" | "[any]")))
            .collect();
        for x in CATALOGUE {
            for k in 0..x.values.len() {
                for t in UNARY {
                    let body = t.replace('X', "x");
                    cases.push(json!({"src": "matrix-constant", "text": format!("x := {}; {body}", constant(x, k))}));
                }
            }
        }
        for x in &mixed {
            for y in &mixed {
                for k in 0..x.values.len() {
                    for j in 0..y.values.len() {
                        for op in INFIX {
                            cases.push(json!({"src": "matrix-constant", "text": format!("x := {}; y := {}; x {op} y", constant(x, k), constant(y, j))}));
                        }
                    }
                }
            }
        }
    }
    {
        // constant operations on boundary operands are evaluated while parsing
        use crate::props::c08::{float_grid, int_grid, lit_float};
        let ints: Vec<String> = int_grid().into_iter().map(|i| crate::lit::to_text(&json!(i))).collect();
        for op in ["+", "-", "*", "/", "%", "**", "<<", ">>", "&", "|", "^", "==", "<", ">="] {
            for a in &ints {
                for b in &ints {
                    cases.push(json!({"src": "constant-folding", "text": format!("{a} {op} {b}")}));
                }
            }
        }
        let floats: Vec<String> = float_grid().into_iter().map(lit_float).collect();
        for op in ["+", "-", "*", "/", "**", "<", "=="] {
            for a in &floats {
                for b in &floats {
                    cases.push(json!({"src": "constant-folding", "text": format!("{a} {op} {b}")}));
                }
            }
        }
        for a in &ints {
            for t in ["-{}", "!{}", "[1, 2, 3][{}]", "[1, 2, 3][{}:]", "[1, 2, 3][::{}]", "\"abc\"[{}]", "[0; {}]", "x := {}; y := x % -1; z := x / -1",
                      "x := {}; [x, x][x]", "(x, y) := ({}, 2); x << y", "if {} == 0 { 1 } else { 2 }", "while {} < 0 { break; }"] {
                cases.push(json!({"src": "constant-folding", "text": t.replace("{}", a)}));
            }
        }
    }
    for p in crate::genr::nearmiss::control_placement_programs() {
        cases.push(json!({"src": "control-placement", "text": p}));
    }
    for p in crate::genr::nearmiss::conditional_declaration_programs() {
        cases.push(json!({"src": "conditional-declaration", "text": p}));
    }
    for p in crate::genr::nearmiss::redeclaration_programs() {
        cases.push(json!({"src": "redeclaration", "text": p}));
    }
    for p in crate::genr::nearmiss::binder_scope_programs() {
        cases.push(json!({"src": "binder-scope", "text": p}));
    }
    for p in crate::genr::nearmiss::missing_return_programs() {
        cases.push(json!({"src": "missing-return", "text": p}));
    }
    for p in crate::genr::nearmiss::literal_spelling_programs() {
        cases.push(json!({"src": "literal-spelling", "text": p}));
    }
    for p in crate::genr::nearmiss::string_spelling_programs() {
        cases.push(json!({"src": "string-spelling", "text": p}));
    }
    for p in crate::genr::nearmiss::duplicate_name_programs() {
        cases.push(json!({"src": "duplicate-names", "text": p}));
    }
    cases.push(json!({"src": "import-cycles", "text": ""}));
    // (every depth from 100 to 135: a limit somewhere in that range shows as a panic of the helper's own parse)
    for op in 0..13u64 {
        for (form, depths) in [(0u64, (100..=135).collect::<Vec<u64>>()), (1, vec![30, 60, 90, 110, 120, 122, 124, 126, 128, 140]), (2, vec![40, 60, 62, 64, 80]), (3, vec![50, 100, 120, 125, 130])] {
            for depth in depths {
                if session.tier == Tier::Quick && form == 0 && depth % 3 != (op % 3) && !(118..=128).contains(&depth) {
                    continue;
                }
                cases.push(json!({"src": "first-use-at-depth", "text": "", "op": op, "form": form, "depth": depth, "stdlib": (op + depth) % 2}));
            }
        }
    }
    for p in import_programs() {
        cases.push(json!({"src": "imports", "text": p}));
    }
    for p in corpus() {
        cases.push(json!({"src": "corpus", "text": p}));
    }
    // the same programs with every blank written another way (tab, line end, comment, two blanks):
    // what separates tokens is not part of any token
    let mut spaced = vec![];
    for c in &cases {
        let src = c["src"].as_str().unwrap_or("");
        if matches!(src, "control-placement" | "redeclaration" | "binder-scope" | "missing-return" | "imports" | "corpus" | "duplicate-names") {
            let text = c["text"].as_str().unwrap_or("");
            for (k, blank) in ["\t", "\n", " /* c */ ", "  ", " // c\n"].iter().enumerate() {
                // (a fifth of the catalogue per spelling keeps the tier small; every program gets one spelling)
                if (text.len() + k) % 5 == 0 || src == "corpus" {
                    spaced.push(json!({"src": "blanks", "text": text.replace(' ', blank)}));
                }
            }
        }
    }
    cases.extend(spaced);
    session.set_extra("enumerated_cases", json!(cases.len()));
    session.set_extra("token_alphabet", json!(TOKENS.len()));
    session.set_extra("grammar_rules", json!(grammar().rule_names().len()));
    if !session.stopped() {
        session.run_enum(&C03, cases);
    }
    if !session.stopped() {
        session.run_tapes(&C03, session.tier.of(60_000, 3_000_000), 400, 0);
    }
    let code = session.finish(
        "(constant-folding: every pair of the i64 and f64 boundary grids under every foldable operator, and boundary ints in index, slice, length and propagated-binding positions) inputs fed to Code::parse (against an interpreter with stdlib and bound names, and against an empty one), Code::return_type, Error::to_string, Variable::from_str and Type::from_str: every sequence of 1-2 tokens (quick; 1-3 thorough) over a 138-token alphabet (all keywords, every operator, brackets, literal samples incl. a too-big int, bound and unbound identifiers, composite fragments) plus unfinished-construct prefixes x token x closer, random token sequences up to length 16/24, random derivations of the project's own pest grammar read at run time (start rules input/line/stm/expr/function/match/type/only_var/slicing; identifiers mapped onto bound names), token-level mutations (delete/duplicate/swap/replace/insert) of the README, docs and example scripts, the operator x operand-type matrix (every unary/postfix/statement template, every infix and assignment operator and 28 two-operand templates applied to parameters of 60 types incl. `!`, `any` and unions of arrays, tuples, structs, muts, functions and iterators), the same matrix over operands that are constants of a union static type and over operands whose type shrinks to `!` when a constant condition is folded away (`[v1, v2][k]`: every unary template x every catalogue value, every infix operator x all pairs of values of 30 scalar / union / any operand types), tape-generated typed programs of six profiles as they are and with token-level edits, a catalogue of names rebound from their own old (non-constant) value to a value of another type in every kind of body, 18 binding constructs x uses of the bound name after the construct, 33 spellings of integer literals in 30 positions, 10 always-failing constant operations in 28 syntactic positions, and imports of 13 file states (missing, directory, syntax error, type error, folding error, non-UTF-8, nested, empty, top-level return/break) in 11 positions, files that use names of their importer under importers that declare those names as cells, constants, parameters, at other types or not at all (both orders within one process), and (in a child process, whose death is the verdict) files that import themselves directly or through one or two others under several spellings of the path, next to diamonds and repeated imports; and, one fresh process per text, 13 operators whose helpers the library builds on first use inside 30-140 levels of arrays, blocks, ifs and tuples (a depth that exhausts nothing). Oracle: no panic. Non-trivial = the text passes the grammar (reaches instruction construction); distinct by text.",
        false,
        &["inputs nested deeper than 40 brackets and imports outside the scratch directory are discarded and counted",
          "the working directory of the check process is a scratch directory"],
    );
    cleanup_scratch();
    code
}
