//! C20 — literal values survive printing and re-parsing; integer literal forms denote
//! their mathematical value or are rejected as too big.
use crate::{
    engine::{Property, Session, Stats, Tier, Verdict, fail},
    lit,
    run::{self, Outcome},
    tape::Tape,
    ty::{self, Ty},
};
use serde_json::{Value as Json, json};
use simplesl::variable::{Typed, Variable};
use std::str::FromStr;

pub struct C20Prop;
pub static C20: C20Prop = C20Prop;

const CHARS: [char; 34] = [
    'a', '"', '\\', '\0', '\u{1}', '\u{7f}', '\u{80}', '\u{9f}', '7', '0', '\n', '\t', '\r', 'é', '\u{301}', '😀', '\'',
    '{', '}', 'u', 'x', ' ', '\u{8}', '\u{c}', '/', '\u{feff}', '\u{fffff}', '\u{100000}', '\u{10ffff}', '\u{ffff}', '\u{10000}', '\u{7f}', '\u{1}', '\u{1f}',
];

fn gen_string(tape: &mut Tape) -> String {
    let n = tape.below(7);
    (0..n).map(|_| *tape.pick(&CHARS)).collect()
}

fn gen_scalar(tape: &mut Tape) -> Json {
    match tape.weighted(&[3, 3, 3, 1, 1]) {
        0 => {
            let g = crate::props::c08::int_grid();
            if tape.bool() { json!(tape.range(-30, 30)) } else { json!(*tape.pick(&g)) }
        }
        1 => {
            let f = match tape.weighted(&[2, 2, 2]) {
                0 => tape.range(-40, 40) as f64 * 0.25,
                1 => *tape.pick(&crate::props::c08::float_grid()),
                _ => f64::from_bits(tape.u64()),
            };
            if f.is_finite() { lit::float(f) } else { lit::float(1.5) }
        }
        2 => json!(gen_string(tape)),
        3 => json!(tape.bool()),
        _ => Json::Null,
    }
}

fn gen_value(tape: &mut Tape, depth: usize) -> Json {
    if depth == 0 {
        return gen_scalar(tape);
    }
    match tape.weighted(&[3, 3, 2]) {
        0 => gen_scalar(tape),
        1 if tape.chance(1, 8) => {
            // elements that are `==` to each other without being the same value (signed zeros)
            let n = 1 + tape.below(4);
            Json::Array((0..n).map(|_| lit::float(if tape.bool() { 0.0 } else { -0.0 })).collect())
        }
        1 => {
            let n = tape.below(4);
            Json::Array((0..n).map(|_| gen_value(tape, depth - 1)).collect())
        }
        _ => {
            let n = 2 + tape.below(2);
            lit::tuple((0..n).map(|_| gen_value(tape, depth - 1)).collect())
        }
    }
}

/// the value together with a string whose content is the value's own rendering (`{}` or `{:?}` form),
/// as a tuple or an array, either way round
fn beside_its_text(value: &Json, how: usize) -> Json {
    let var = lit::to_var(value);
    let text = run::guarded(|| if how % 2 == 0 { format!("{var}") } else { format!("{var:?}") }).unwrap_or_default();
    match how {
        0 | 1 => lit::tuple(vec![json!(text), value.clone()]),
        2 | 3 => lit::tuple(vec![value.clone(), json!(text)]),
        4 => json!([json!(text), value.clone(), json!(text)]),
        _ => lit::tuple(vec![json!([value.clone()]), json!([json!(text)])]),
    }
}

fn has_boundary(v: &Json) -> bool {
    match v {
        Json::Number(n) => {
            let i = n.as_i64().unwrap();
            i == i64::MIN || i == i64::MAX || i < 0
        }
        Json::String(s) => s.chars().any(|c| !c.is_ascii_alphanumeric() && c != ' '),
        Json::Array(xs) => xs.is_empty() || xs.iter().any(has_boundary),
        Json::Object(o) => {
            if let Some(bits) = o.get("f") {
                let f = f64::from_bits(bits.as_u64().unwrap());
                f == 0.0 || f.is_subnormal() || f.abs() >= 1e16 || f.abs() < 1e-5
            } else if let Some(Json::Array(xs)) = o.get("t") {
                xs.iter().any(has_boundary)
            } else {
                false
            }
        }
        _ => false,
    }
}

fn radix_text(tape: &mut Tape) -> (String, u128) {
    // magnitude up to 2^65
    let magnitude: u128 = match tape.weighted(&[3, 2, 2]) {
        0 => tape.range(0, 300) as u128,
        1 => {
            let p = tape.range(0, 65) as u32;
            let d = tape.range(-2, 2) as i128;
            ((1i128 << p) + d).max(0) as u128
        }
        _ => (tape.u64() as u128) << tape.below(2),
    };
    let (prefix, digits) = match tape.below(5) {
        0 => ("", format!("{magnitude}")),
        // a decimal literal with leading zeros is still decimal
        4 => ("", format!("{}{magnitude}", ["0", "00", "0_"][tape.below(3)])),
        1 => ("0b", format!("{magnitude:b}")),
        2 => ("0o", format!("{magnitude:o}")),
        _ => ("0x", if tape.bool() { format!("{magnitude:x}") } else { format!("{magnitude:X}") }),
    };
    // sprinkle underscores (a decimal literal cannot start with one)
    let mut text = String::from(prefix);
    for (i, ch) in digits.chars().enumerate() {
        if (i > 0 || !prefix.is_empty()) && tape.chance(1, 5) {
            text.push('_');
        }
        text.push(ch);
    }
    if tape.chance(1, 4) {
        text.push('_');
    }
    (text, magnitude)
}

impl Property for C20Prop {
    fn id(&self) -> &'static str {
        "C20"
    }

    fn gen_case(&self, tape: &mut Tape, _tier: Tier) -> Option<Json> {
        if tape.chance(1, 5) {
            let (text, magnitude) = radix_text(tape);
            let negative = tape.chance(1, 3);
            return Some(json!({"kind": "int-literal", "text": text, "magnitude": magnitude.to_string(), "negative": negative}));
        }
        // one value in six is nested deeper than the five levels below which the renderer once elided
        let depth = if tape.chance(1, 6) { 5 + tape.below(5) } else { tape.below(5) };
        let value = gen_value(tape, depth);
        if tape.chance(1, 5) {
            // a string spelled like the rendering of its neighbour (the text of a value is not the value)
            return Some(json!({"kind": "value", "value": beside_its_text(&value, tape.below(6))}));
        }
        Some(json!({"kind": "value", "value": value}))
    }

    fn check_case(&self, case: &Json, stats: &mut Stats) -> Verdict {
        match case["kind"].as_str().unwrap_or("") {
            "value" => check_value(&case["value"], stats),
            "int-literal" => check_int_literal(case, stats),
            "repl" => check_repl_binary(case, stats),
            "typed-empty-probe" => {
                stats.eval();
                for program in ["[5; 0]", "[1][1:]", "[1.5]~ ? int $]"] {
                    if let Outcome::Value(v) = run::run_text(program, false) {
                        let printed = format!("{v:?}");
                        if let Ok(Ok(back)) = run::guarded(|| Variable::from_str(&printed)) {
                            let (t1, t2) = (Ty::from_real(&v.as_type()), Ty::from_real(&back.as_type()));
                            if t1 != t2 {
                                return fail(
                                    "C20:probe:typed-empty-array-reads-back-untyped",
                                    format!("`{program}` is an empty array of type {}; it prints as `{printed}`, which reads back as a value of type {}", t1.print(), t2.print()),
                                );
                            }
                        }
                    }
                }
                Verdict::Pass
            }
            _ => Verdict::Discard("unknown kind"),
        }
    }
}

fn check_value(model: &Json, stats: &mut Stats) -> Verdict {
    let v = lit::to_var(model);
    let printed = match run::guarded(|| format!("{v:?}")) {
        Ok(p) => p,
        Err(c) => return fail(format!("C20:debug:{}", c.sig()), format!("printing {} panicked", lit::show(model))),
    };
    let d = lit::depth(model);
    stats.label(&format!("depth {d}"));
    if d >= 1 || has_boundary(model) {
        stats.nontrivial(&printed);
    }
    stats.sample(8, || json!({"printed": printed}));
    // (a) as a value literal
    stats.eval();
    let back = match run::guarded(|| Variable::from_str(&printed)) {
        Ok(Ok(b)) => b,
        Ok(Err(e)) => {
            return fail(
                "C20:from_str:rejected",
                format!("`{printed}` (the rendering of a value) is rejected by Variable::from_str: {}", run::error_kind(&e)),
            );
        }
        Err(c) => return fail(format!("C20:from_str:{}", c.sig()), format!("Variable::from_str(`{printed}`) panicked")),
    };
    if lit::from_var(&back).as_ref() != Some(model) {
        return fail("C20:from_str:content", format!("`{printed}` parses back to {} (a different value)", ty::show(&back)));
    }
    if back != v {
        return fail("C20:from_str:eq", format!("`{printed}` parses back to a value with the same content that is not `==` to the original"));
    }
    let (t1, t2) = (Ty::from_real(&v.as_type()), Ty::from_real(&back.as_type()));
    if t1 != t2 {
        return fail("C20:from_str:type", format!("`{printed}`: type {} became {}", t1.print(), t2.print()));
    }
    // "the same type" also in the implementation's own eyes (its `==` on types, both ways round)
    match run::guarded(|| (v.as_type() == back.as_type(), back.as_type() == v.as_type(), v.as_type().matches(&back.as_type()) && back.as_type().matches(&v.as_type()))) {
        Ok((true, true, true)) => {}
        Ok(_) => return fail("C20:from_str:type-eq", format!("`{printed}` reads back as a value whose type has the structure of the original's ({}) but is not `==` to it (or does not match it both ways)", t1.print())),
        Err(c) => return fail(format!("C20:from_str:{}", c.sig()), format!("comparing the types of `{printed}` and of what it reads back as panicked")),
    }
    // (b) as a program (MIN_INT's magnitude is not an int literal)
    if !lit::contains_int(model, i64::MIN) {
        stats.eval();
        match run::run_text(&printed, false) {
            Outcome::Value(p) => {
                if lit::from_var(&p).as_ref() != Some(model) {
                    return fail("C20:program:content", format!("the program `{printed}` evaluates to {}", ty::show(&p)));
                }
                if p != v {
                    return fail("C20:program:eq", format!("the program `{printed}` evaluates to an equal-looking value that is not `==` to the original"));
                }
                let t3 = Ty::from_real(&p.as_type());
                if t3 != t1 {
                    return fail("C20:program:type", format!("the program `{printed}` has a value of type {} instead of {}", t3.print(), t1.print()));
                }
                if !run::guarded(|| p.as_type() == v.as_type() && v.as_type() == p.as_type()).unwrap_or(false) {
                    return fail("C20:program:type-eq", format!("the program `{printed}` has a value whose type has the structure of the original's ({}) but is not `==` to it", t1.print()));
                }
            }
            o => return fail(format!("C20:program:{}", o.panic_sig().unwrap_or("outcome".into())), format!("the program `{printed}`: {}", o.short())),
        }
    } else {
        // MIN_INT's magnitude is not an int: the text used as a program is rejected as too big, or it
        // evaluates to the value all the same - never to another value
        stats.label("contains MIN_INT (as a program: rejected or the same value)");
        stats.eval();
        match run::run_text(&printed, false) {
            Outcome::Value(p) => {
                if lit::from_var(&p).as_ref() != Some(model) {
                    return fail("C20:program:content", format!("the program `{printed}` evaluates to {}", ty::show(&p)));
                }
            }
            Outcome::Rejected(kind) if kind == "IntegerOverflow" => {}
            o => return fail(format!("C20:program:{}", o.panic_sig().unwrap_or("outcome".into())), format!("the program `{printed}`: {}", o.short())),
        }
    }
    Verdict::Pass
}

/// The REPL executable itself (`simplesl` without arguments, lines on stdin): for every value, the
/// line that is the value's rendering is answered with exactly that rendering on stdout. Each line is
/// followed by a marker line (a string literal) so that the answers can be told apart.
fn check_repl_binary(case: &Json, stats: &mut Stats) -> Verdict {
    use std::io::Write;
    let Some(bin) = std::env::var("VERIF_SIMPLESL_BIN").ok().filter(|b| !b.is_empty() && std::path::Path::new(b).exists()) else {
        stats.label("REPL executable not built: route skipped");
        return Verdict::Discard("REPL executable not available");
    };
    let models: Vec<&Json> = case["values"].as_array().map(|a| a.iter().collect()).unwrap_or_default();
    let mut lines = vec![];
    for m in &models {
        if lit::contains_int(m, i64::MIN) {
            continue;
        }
        let v = lit::to_var(m);
        if let Ok(printed) = run::guarded(|| format!("{v:?}"))
            && !printed.contains('\n')
        {
            lines.push(printed);
        }
    }
    let mut input = String::new();
    for (k, l) in lines.iter().enumerate() {
        input += &format!("{l}\n\"#marker{k}#\"\n");
    }
    let Ok(mut child) = std::process::Command::new(&bin)
        .stdin(std::process::Stdio::piped())
        .stdout(std::process::Stdio::piped())
        .stderr(std::process::Stdio::null())
        .spawn()
    else {
        return Verdict::Inconclusive("REPL executable did not start");
    };
    let mut stdin = child.stdin.take().expect("stdin");
    let writer = std::thread::spawn(move || {
        let _ = stdin.write_all(input.as_bytes());
    });
    let Ok(out) = child.wait_with_output() else {
        return Verdict::Inconclusive("REPL executable did not finish");
    };
    let _ = writer.join();
    let text = String::from_utf8_lossy(&out.stdout).to_string();
    let mut rest = text.as_str();
    stats.evals(lines.len() as u64);
    stats.label("REPL executable: lines answered");
    for (k, l) in lines.iter().enumerate() {
        let marker = format!("\"#marker{k}#\"\n");
        let Some(at) = rest.find(&marker) else {
            return fail("C20:repl:marker", format!("the REPL executable stopped answering after {k} of {} lines (line `{l}`)", lines.len()));
        };
        let answer = &rest[..at];
        if answer != format!("{l}\n") {
            return fail("C20:repl:answer", format!("the REPL executable answers the line `{l}` with {answer:?} instead of the same text and a line end"));
        }
        stats.nontrivial(l);
        rest = &rest[at + marker.len()..];
    }
    stats.sample(2, || json!({"repl_lines": lines.len(), "first": lines.first()}));
    Verdict::Pass
}

fn check_int_literal(case: &Json, stats: &mut Stats) -> Verdict {
    let text = case["text"].as_str().unwrap_or("0");
    let magnitude: u128 = case["magnitude"].as_str().unwrap_or("0").parse().unwrap_or(0);
    let negative = case["negative"].as_bool().unwrap_or(false);
    stats.nontrivial(text);
    stats.label(if text.starts_with("0b") {
        "radix 2"
    } else if text.starts_with("0o") {
        "radix 8"
    } else if text.starts_with("0x") {
        "radix 16"
    } else {
        "radix 10"
    });
    if text.contains('_') {
        stats.label("with underscores");
    }
    let fits = magnitude <= i64::MAX as u128;
    if !fits {
        stats.label("too big");
    }
    stats.sample(4, || json!({"literal": text, "magnitude": magnitude.to_string(), "negative": negative}));
    // as a value literal (optionally with a minus sign)
    let src = if negative { format!("-{text}") } else { text.to_string() };
    let signed: i128 = if negative { -(magnitude as i128) } else { magnitude as i128 };
    let representable = signed >= i64::MIN as i128 && signed <= i64::MAX as i128;
    stats.eval();
    match run::guarded(|| Variable::from_str(&src)) {
        Ok(Ok(Variable::Int(i))) => {
            if !representable || i as i128 != signed {
                return fail("C20:int-literal:value", format!("Variable::from_str(`{src}`) = {i}, mathematical value {signed}"));
            }
        }
        Ok(Ok(other)) => return fail("C20:int-literal:kind", format!("Variable::from_str(`{src}`) = {}", ty::show(&other))),
        Ok(Err(e)) => {
            let kind = run::error_kind(&e);
            if representable {
                return fail("C20:int-literal:rejected", format!("Variable::from_str(`{src}`) is rejected ({kind}) although {signed} is an int"));
            }
            if kind != "IntegerOverflow" {
                return fail("C20:int-literal:error-kind", format!("Variable::from_str(`{src}`): {kind} instead of the too-big error"));
            }
        }
        Err(c) => return fail(format!("C20:int-literal:{}", c.sig()), format!("Variable::from_str(`{src}`) panicked")),
    }
    // as a program (the literal itself is never negative)
    stats.eval();
    match run::run_text(text, false) {
        Outcome::Value(Variable::Int(i)) => {
            if !fits || i as u128 != magnitude {
                return fail("C20:int-literal:program-value", format!("the program `{text}` = {i}, mathematical value {magnitude}"));
            }
        }
        Outcome::Rejected(kind) => {
            if fits {
                return fail("C20:int-literal:program-rejected", format!("the program `{text}` is rejected ({kind}) although {magnitude} is an int"));
            }
            if kind != "IntegerOverflow" {
                return fail("C20:int-literal:program-error-kind", format!("the program `{text}`: {kind} instead of the too-big error"));
            }
        }
        o => return fail("C20:int-literal:program", format!("the program `{text}`: {}", o.short())),
    }
    // the literal inside tuples and arrays, as a program and as a value literal: the same value at its
    // place, or the whole text is rejected as too big (never a shorter tuple, never another element)
    for (wrapped, at) in [(format!("({text}, 1, 2)"), vec![0usize]), (format!("[{text}, 1]"), vec![0]), (format!("(1, ({text}, 2))"), vec![1, 0]), (format!("[[1], [{text}]]"), vec![1, 0]), (format!("(1, 2, {text})"), vec![2])] {
        for as_program in [true, false] {
            stats.eval();
            let o = if as_program {
                run::run_text(&wrapped, false)
            } else {
                match run::guarded(|| Variable::from_str(&wrapped)) {
                    Ok(Ok(v)) => Outcome::Value(v),
                    Ok(Err(e)) => Outcome::Rejected(run::error_kind(&e)),
                    Err(c) => run::caught_to_outcome("from_str", c),
                }
            };
            let how = if as_program { "the program" } else { "the value literal" };
            match &o {
                Outcome::Value(v) => {
                    let mut cur = lit::from_var(v);
                    let shape_ok = match (&cur, wrapped.as_str()) {
                        (Some(m), w) if w.starts_with('(') => lit_len(m) == Some(wrapped.matches(',').count() + 1 - if at.len() == 2 { 1 } else { 0 }),
                        _ => true,
                    };
                    for k in &at {
                        cur = cur.and_then(|m| lit_item(&m, *k));
                    }
                    if !fits || !shape_ok || cur != Some(json!(magnitude as i64)) {
                        return fail("C20:int-literal:nested-value", format!("{how} `{wrapped}` = {}, the literal denotes {magnitude}", ty::show(v)));
                    }
                }
                Outcome::Rejected(kind) => {
                    if fits {
                        return fail("C20:int-literal:nested-rejected", format!("{how} `{wrapped}` is rejected ({kind}) although {magnitude} is an int"));
                    }
                    if kind != "IntegerOverflow" {
                        return fail("C20:int-literal:nested-error-kind", format!("{how} `{wrapped}`: {kind} instead of the too-big error"));
                    }
                }
                o => return fail("C20:int-literal:nested", format!("{how} `{wrapped}`: {}", o.short())),
            }
        }
    }
    Verdict::Pass
}

/// the k-th item of an array / tuple model
fn lit_item(m: &Json, k: usize) -> Option<Json> {
    match m {
        Json::Array(xs) => xs.get(k).cloned(),
        Json::Object(o) => o.get("t").and_then(|t| t.as_array()).and_then(|xs| xs.get(k).cloned()),
        _ => None,
    }
}

fn lit_len(m: &Json) -> Option<usize> {
    match m {
        Json::Array(xs) => Some(xs.len()),
        Json::Object(o) => o.get("t").and_then(|t| t.as_array()).map(|xs| xs.len()),
        _ => None,
    }
}

pub fn run(session: &Session) -> i32 {
    crate::engine::run_regressions(session, &C20);
    // exhaustive part: every boundary scalar alone, in an array and in a tuple; all 1- and 2-character strings
    let mut cases = vec![];
    let mut scalars: Vec<Json> = crate::props::c08::int_grid().into_iter().map(|i| json!(i)).collect();
    scalars.extend(crate::props::c08::float_grid().into_iter().filter(|f| f.is_finite()).map(lit::float));
    scalars.extend([json!(true), json!(false), Json::Null]);
    for a in CHARS {
        scalars.push(json!(a.to_string()));
        for b in CHARS {
            scalars.push(json!(format!("{a}{b}")));
        }
    }
    for s in &scalars {
        cases.push(json!({"kind": "value", "value": s}));
        cases.push(json!({"kind": "value", "value": [s]}));
        cases.push(json!({"kind": "value", "value": lit::tuple(vec![s.clone(), json!([[s]])])}));
    }
    cases.push(json!({"kind": "value", "value": []}));
    cases.push(json!({"kind": "value", "value": [[], [[]]]}));
    // deep values: the rendering of a value is a literal however deep it is nested (towers of arrays,
    // of tuples, alternating, and with a sibling at every level; every kind of leaf)
    for leaf in [json!(true), Json::Null, json!(1), lit::float(-0.0), json!("s\n"), json!([]), lit::tuple(vec![Json::Null, json!(false)])] {
        for depth in 4..=16usize {
            let mut arrays = leaf.clone();
            let mut tuples = leaf.clone();
            let mut mixed = leaf.clone();
            let mut wide = leaf.clone();
            for level in 0..depth {
                arrays = json!([arrays]);
                tuples = lit::tuple(vec![tuples, json!(level as i64)]);
                mixed = if level % 2 == 0 { json!([mixed]) } else { lit::tuple(vec![json!("k"), mixed]) };
                wide = json!([leaf.clone(), wide, leaf.clone()]);
            }
            for v in [arrays, tuples, mixed, wide] {
                cases.push(json!({"kind": "value", "value": v}));
            }
        }
    }
    // a string spelled like the rendering of its neighbour, for a few values of every kind
    for v in [json!([1, 2]), json!([]), json!([[1], [2, 3]]), lit::tuple(vec![json!(1), json!("a")]), json!(true), Json::Null, lit::float(1.5), json!(7), json!("s"), json!(["a", "b"]), json!([[]])] {
        for how in 0..6 {
            cases.push(json!({"kind": "value", "value": beside_its_text(&v, how)}));
        }
    }
    // recorded finding: an empty array keeps the element type it was made with, its text `[]` does not
    cases.push(json!({"kind": "typed-empty-probe"}));
    // big values: the rendering of a value is a literal however many leaves it has
    for n in [100usize, 400, 1000, 3000] {
        cases.push(json!({"kind": "value", "value": (0..n as i64).map(|k| json!(k * 37 - 50)).collect::<Vec<Json>>()}));
        cases.push(json!({"kind": "value", "value": lit::tuple((0..n as i64).map(|k| if k % 2 == 0 { json!(k) } else { json!(format!("s{k}")) }).collect())}));
        cases.push(json!({"kind": "value", "value": (0..n).map(|k| json!(format!("w{k}\n"))).collect::<Vec<Json>>()}));
        cases.push(json!({"kind": "value", "value": (0..n).map(|k| lit::float(k as f64 * 0.5)).collect::<Vec<Json>>()}));
    }
    // long renderings whose strings contain the separators of the rendering itself (`, `, brackets, quotes)
    for n in [12usize, 40, 150] {
        cases.push(json!({"kind": "value", "value": (0..n).map(|k| json!(format!("Surname{k}, Name{k}"))).collect::<Vec<Json>>()}));
        cases.push(json!({"kind": "value", "value": [json!((0..n).map(|k| format!("item {k}, ")).collect::<String>()), json!(n as i64)]}));
        cases.push(json!({"kind": "value", "value": lit::tuple((0..n).map(|k| if k % 3 == 0 { json!(format!("a, [b], (c, \"d\") {k}")) } else { json!(k as i64) }).collect())}));
    }
    // nested mixed arrays: types with unions inside unions inside unions
    for v in [json!([[[1, lit::float(1.5)], [2]], 0]), json!([[[1, "a"], ["b"]], true]), json!([[[[1, lit::float(2.5)], ["s"]], [[true]]], [Json::Null]]), json!([lit::tuple(vec![json!([1, "a"]), json!(1)]), lit::tuple(vec![json!([lit::float(1.5)]), json!("s")])])] {
        for _ in 0..12 {
            cases.push(json!({"kind": "value", "value": v.clone()}));
        }
    }
    for side in [4usize, 7, 9] {
        let cube: Vec<Json> = (0..side).map(|a| json!((0..side).map(|b| json!((0..side).map(|c| lit::tuple(vec![json!((a * side + b) as i64), json!(format!("{c}"))])).collect::<Vec<Json>>())).collect::<Vec<Json>>())).collect();
        cases.push(json!({"kind": "value", "value": cube}));
    }
    for n in [1000usize, 20_000, 60_000] {
        cases.push(json!({"kind": "value", "value": "aé\"\\\n€ ".chars().cycle().take(n).collect::<String>()}));
        cases.push(json!({"kind": "value", "value": [json!("x".repeat(n)), json!(n as i64)]}));
    }
    // sequences of values that look alike (`==` to each other, or printing alike) and are not the same
    // value: every array and tuple of length 2 and 3 over each family, also one level down
    let families: Vec<Vec<Json>> = vec![
        vec![lit::float(0.0), lit::float(-0.0)],
        vec![json!(1), lit::float(1.0)],
        vec![json!(""), json!(" "), json!("\u{0}")],
        vec![json!([]), json!([[]]), lit::tuple(vec![Json::Null, Json::Null])],
        vec![json!(true), json!("true")],
        vec![json!([lit::float(-0.0)]), json!([lit::float(0.0)])],
    ];
    for fam in &families {
        for n in 2..=3usize {
            let mut idx = vec![0usize; n];
            loop {
                let items: Vec<Json> = idx.iter().map(|i| fam[*i].clone()).collect();
                cases.push(json!({"kind": "value", "value": items}));
                cases.push(json!({"kind": "value", "value": lit::tuple(items.clone())}));
                cases.push(json!({"kind": "value", "value": lit::tuple(vec![json!(items), json!(true)])}));
                let mut k = 0;
                while k < n {
                    idx[k] += 1;
                    if idx[k] < fam.len() {
                        break;
                    }
                    idx[k] = 0;
                    k += 1;
                }
                if k == n {
                    break;
                }
            }
        }
    }
    // the same values through the REPL executable, 400 lines per process
    let values: Vec<Json> = cases.iter().filter(|c| c["kind"] == "value").map(|c| c["value"].clone()).collect();
    let mut repl_cases = vec![];
    for chunk in values.chunks(400) {
        repl_cases.push(json!({"kind": "repl", "values": chunk}));
    }
    let mut generated = vec![];
    for data in session.sample_tapes(session.tier.of(4000, 40000), 120, 9) {
        let mut tape = Tape::new(data);
        let depth = if tape.chance(1, 6) { 5 + tape.below(5) } else { tape.below(5) };
        generated.push(gen_value(&mut tape, depth));
    }
    for chunk in generated.chunks(400) {
        repl_cases.push(json!({"kind": "repl", "values": chunk}));
    }
    session.set_extra("repl_executable_batches", json!(repl_cases.len()));
    cases.extend(repl_cases);
    session.set_extra("enumerated_cases", json!(cases.len()));
    if !session.stopped() {
        session.run_enum(&C20, cases);
    }
    if !session.stopped() {
        session.run_tapes(&C20, session.tier.of(300_000, 3_000_000), 120, 0);
    }
    session.finish(
        "nested values (generated to depth 9, enumerated towers of arrays / tuples / both / with siblings to depth 16 over every kind of leaf) of bool, int (45-value boundary grid incl. MIN/MAX, small, random), finite floats (grid incl. signed zero, subnormals, 1e308, exponent forms, random bit patterns), strings over 26 characters (quote, backslash, NUL and other C0/C1 controls next to digits, DEL, combining mark, BOM, non-BMP, escape-letter look-alikes), (), arrays and tuples, built through the public constructors, rendered with {:?} and fed back to Variable::from_str and (unless MIN_INT occurs) to Code::parse+exec: content, `==` and as_type() must be preserved; integer literal texts in radix 2/8/10/16 with random underscores and magnitudes up to 2^65 must denote their mathematical value or be rejected with the too-big error, as value literal (also negated) and as program; every boundary scalar and every 1-2 character string over the alphabet is also checked alone, in an array and in a nested tuple (exhaustive). Non-trivial = nesting >= 1 or a boundary scalar / escaped character; distinct by rendered text.",
        false,
        &["the oracle for content equality is the harness's JSON model of the value"],
    )
}
