//! C14 — operator precedence and associativity follow the documented table; multi-character
//! operators are never split.
use crate::{
    canon,
    engine::{Property, Session, Stats, Verdict, fail},
    run::{self},
};
use serde_json::{Value as Json, json};
use simplesl::{Code, Error};

pub struct C14Prop;
pub static C14: C14Prop = C14Prop;

pub const INFIX: [&str; 19] = [
    "**", "*", "/", "%", "+", "-", "<<", ">>", "&", "^", "|", "==", "!=", "<", "<=", ">", ">=", "&&", "||",
];

/// the level of docs/operators.md (smaller binds tighter)
fn level(op: &str) -> u8 {
    match op {
        "**" => 4,
        "*" | "/" | "%" => 5,
        "+" | "-" => 6,
        "<<" | ">>" => 7,
        "&" => 8,
        "^" => 9,
        "|" => 10,
        "==" | "!=" | "<" | "<=" | ">" | ">=" => 11,
        "&&" => 12,
        "||" => 13,
        _ => 14,
    }
}

#[derive(Clone, Debug)]
enum Tree {
    Leaf(usize),
    Node(Box<Tree>, usize, Box<Tree>), // operator index
}

impl Tree {
    fn print(&self, vals: &[&str], ops: &[&str]) -> String {
        match self {
            Tree::Leaf(i) => vals[*i].to_string(),
            Tree::Node(l, o, r) => format!("({} {} {})", l.print(vals, ops), ops[*o], r.print(vals, ops)),
        }
    }
    /// three-address form: one statement per operator, operands are parameters `p{i}` or earlier results
    fn steps(&self, ops: &[&str], out: &mut Vec<String>) -> String {
        match self {
            Tree::Leaf(i) => format!("p{i}"),
            Tree::Node(l, o, r) => {
                let a = l.steps(ops, out);
                let b = r.steps(ops, out);
                let name = format!("t{}", out.len());
                out.push(format!("{name} := {a} {} {b}", ops[*o]));
                name
            }
        }
    }
    fn shape(&self) -> String {
        match self {
            Tree::Leaf(i) => format!("x{i}"),
            Tree::Node(l, o, r) => format!("({} o{} {})", l.shape(), o, r.shape()),
        }
    }
}

/// all binary trees over leaves lo..=hi (operators lo..hi)
fn all_trees(lo: usize, hi: usize) -> Vec<Tree> {
    if lo == hi {
        return vec![Tree::Leaf(lo)];
    }
    let mut out = vec![];
    for split in lo..hi {
        for l in all_trees(lo, split) {
            for r in all_trees(split + 1, hi) {
                out.push(Tree::Node(Box::new(l.clone()), split, Box::new(r)));
            }
        }
    }
    out
}

/// grouping prescribed by the table: precedence climbing, every infix level left-associative
fn table_tree(ops: &[&str]) -> Tree {
    fn climb(ops: &[&str], pos: &mut usize, min_level: u8) -> Tree {
        // parses operand pos, then operators whose level <= min_level (binding at least as tight)
        let mut lhs = Tree::Leaf(*pos);
        while *pos < ops.len() && level(ops[*pos]) <= min_level {
            let o = *pos;
            *pos += 1;
            // left associative: the right operand only takes strictly tighter operators
            let rhs = climb(ops, pos, level(ops[o]) - 1);
            lhs = Tree::Node(Box::new(lhs), o, Box::new(rhs));
        }
        lhs
    }
    let mut pos = 0;
    climb(ops, &mut pos, 13)
}

const POOL: [&str; 8] = ["7", "3", "2", "5", "true", "false", "2.5", "0.5"];

/// A comparable summary of what a program text does.
pub fn outcome_key(text: &str) -> String {
    run::default_budget();
    let interp = run::interpreter(false);
    let parsed = run::guarded(|| Code::parse(&interp, text));
    match parsed {
        Err(c) => format!("panic {}", c.sig()),
        Ok(Err(e)) => match &e {
            Error::CannotDo2(..) => format!("rejected {e:?}"),
            // a constant operation that always fails may be reported while parsing
            _ if run::EXEC_ERROR_KINDS.contains(&run::error_kind(&e).as_str()) => format!("error {}", run::error_kind(&e)),
            _ => format!("rejected {}", run::error_kind(&e)),
        },
        Ok(Ok(code)) => match run::exec_guarded(&code) {
            run::Outcome::Value(v) => format!("value {}", canon::canon(&v).show()),
            run::Outcome::ExecError(k) => format!("error {k}"),
            o => o.short(),
        },
    }
}

fn flat(vals: &[&str], ops: &[&str], sep: &str) -> String {
    let mut s = vals[0].to_string();
    for (i, op) in ops.iter().enumerate() {
        s.push_str(sep);
        s.push_str(op);
        s.push_str(sep);
        s.push_str(vals[i + 1]);
    }
    s
}

fn product(pool: &[&'static str], n: usize) -> Vec<Vec<&'static str>> {
    let mut out: Vec<Vec<&'static str>> = vec![vec![]];
    for _ in 0..n {
        let mut next = vec![];
        for prefix in &out {
            for v in pool {
                let mut p = prefix.clone();
                p.push(*v);
                next.push(p);
            }
        }
        out = next;
    }
    out
}

fn strided<T: Clone>(items: &[T], want: usize) -> Vec<T> {
    if items.len() <= want {
        return items.to_vec();
    }
    // a stride coprime to the length visits distinct items spread over the whole list
    let mut stride = items.len() / want + 1;
    while gcd(stride, items.len()) != 1 {
        stride += 1;
    }
    (0..want).map(|k| items[(k * stride) % items.len()].clone()).collect()
}

fn gcd(a: usize, b: usize) -> usize {
    if b == 0 { a } else { gcd(b, a % b) }
}

/// operand assignments to try: homogeneous ones first (values distinguish groupings),
/// then mixed ones (operand-type errors distinguish groupings)
fn candidates(n: usize, budget: usize) -> Vec<Vec<&'static str>> {
    let mut out = strided(&product(&POOL[0..4], n), budget / 2);
    out.extend(strided(&product(&POOL[4..6], n), budget / 8));
    out.extend(strided(&product(&POOL[6..8], n), budget / 8));
    let mixed: Vec<Vec<&'static str>> = product(&POOL, n)
        .into_iter()
        .filter(|a| !out.contains(a))
        .collect();
    let rest = budget.saturating_sub(out.len());
    out.extend(strided(&mixed, rest));
    out
}

impl Property for C14Prop {
    fn id(&self) -> &'static str {
        "C14"
    }

    fn check_case(&self, case: &Json, stats: &mut Stats) -> Verdict {
        match case["kind"].as_str().unwrap_or("") {
            "infix" => check_infix(case, stats),
            "template" => check_template(case, stats),
            _ => Verdict::Discard("unknown kind"),
        }
    }
}

fn check_infix(case: &Json, stats: &mut Stats) -> Verdict {
    let ops: Vec<&str> = case["ops"].as_array().unwrap().iter().map(|o| o.as_str().unwrap()).collect();
    let n = ops.len() + 1;
    let expected = table_tree(&ops);
    let trees = all_trees(0, n - 1);
    let budget = case["tries"].as_u64().unwrap_or(512) as usize;
    let want = case["confirm"].as_u64().unwrap_or(3) as usize;
    let mut confirmed = 0usize;
    let mut by_value = 0usize;
    let mut best_separation = 0usize;
    let key = ops.join(" ");
    // boundary first operands after the ordinary pool: a regrouping of `x * 4 / 2` or `x + 1 - 1` only
    // shows when the intermediate result wraps around
    let mut assignments: Vec<Vec<&'static str>> = vec![];
    if ops.iter().all(|o| matches!(*o, "+" | "-" | "*" | "/" | "%" | "<<" | ">>" | "&" | "|" | "^" | "**")) {
        for big in ["4611686018427387904", "9223372036854775807", "6148914691236517205"] {
            for rest in [["4", "2", "3"], ["2", "4", "2"], ["3", "3", "2"], ["1", "1", "2"]] {
                let mut v = vec![big];
                v.extend(rest.iter().take(n - 1));
                assignments.push(v);
            }
        }
    }
    if ops.iter().all(|o| matches!(*o, "+" | "-" | "*" | "/" | "%" | "<" | "<=" | ">" | ">=" | "==" | "!=")) {
        // negative later operands (`x % -10 % 3`: the sign of a remainder follows the dividend)
        for first in ["17", "(0 - 17)", "9223372036854775807"] {
            for rest in [["(0 - 10)", "3", "2"], ["(0 - 3)", "(0 - 2)", "5"], ["10", "(0 - 3)", "2"], ["(0 - 5)", "5", "(0 - 5)"]] {
                let mut v = vec![first];
                v.extend(rest.iter().take(n - 1));
                assignments.push(v);
            }
        }
    }
    if ops.iter().all(|o| matches!(*o, "+" | "-" | "*" | "/" | "**" | "<" | "<=" | ">" | ">=" | "==" | "!=")) {
        // float chains: a negative base makes `(x ** 2.0) ** 0.5` differ from `x ** (2.0 * 0.5)`
        for first in ["(0.0 - 3.0)", "(0.0 - 0.5)", "1.0e200"] {
            for rest in [["2.0", "0.5", "2.0"], ["0.5", "2.0", "0.5"], ["2.0", "2.0", "3.0"]] {
                let mut v = vec![first];
                v.extend(rest.iter().take(n - 1));
                assignments.push(v);
            }
        }
    }
    let boundary = assignments.len();
    assignments.extend(candidates(n, budget));
    for (at, vals) in assignments.into_iter().enumerate() {
        let exp_text = expected.print(&vals, &ops);
        let exp_key = outcome_key(&exp_text);
        stats.eval();
        let mut separated = 0;
        for t in &trees {
            if t.shape() == expected.shape() {
                continue;
            }
            stats.eval();
            if outcome_key(&t.print(&vals, &ops)) != exp_key {
                separated += 1;
            }
        }
        if separated == 0 {
            continue;
        }
        best_separation = best_separation.max(separated);
        for (sep, how) in [(" ", "spaced"), ("", "unspaced")] {
            let text = flat(&vals, &ops, sep);
            stats.eval();
            let got = outcome_key(&text);
            if got != exp_key {
                return fail(
                    format!("C14:infix:{}", ops.join("_")),
                    format!(
                        "`{text}` ({how}) gives [{got}] but the table groups it as `{exp_text}` which gives [{exp_key}]"
                    ),
                );
            }
        }
        // the groupings side by side in one comparison: the unparenthesised text equals the table's grouping
        // and differs from every grouping that has another value (two expressions with the same operands
        // and operators in the same order are not thereby the same expression)
        if exp_key.starts_with("value") && !exp_key.to_lowercase().contains("nan") {
            let arithmetic = ops.iter().all(|o| matches!(*o, "+" | "-" | "*" | "/" | "%" | "<<" | ">>" | "**"));
            let flat_text = flat(&vals, &ops, " ");
            let mut programs: Vec<(String, &str)> = vec![(format!("(({flat_text}) == ({exp_text}), ({flat_text}) != ({exp_text}))"), "value (true, false)")];
            for t in &trees {
                if t.shape() == expected.shape() {
                    continue;
                }
                let other = t.print(&vals, &ops);
                let other_key = outcome_key(&other);
                if !other_key.starts_with("value") || other_key == exp_key || other_key.to_lowercase().contains("nan") {
                    continue;
                }
                programs.push((format!("(({flat_text}) == ({other}), ({flat_text}) != ({other}), ({other}) == ({exp_text}))"), "value (false, true, false)"));
                if arithmetic {
                    programs.push((format!("r := {flat_text} == {other}; s := {other} != {flat_text}; (r, s)"), "value (false, true)"));
                    programs.push((format!("f := () -> any {{ if {flat_text} == {other} {{ return 1; }} return 0; }}; f()"), "value 0"));
                }
            }
            for (program, want) in programs {
                stats.eval();
                let got = outcome_key(&program);
                if got != outcome_key(want.trim_start_matches("value ")) {
                    return fail(
                        format!("C14:infix-compared:{}", ops.join("_")),
                        format!("`{program}` gives [{got}]; `{flat_text}` is grouped as `{exp_text}` = [{exp_key}], so the comparison has the value {}", want.trim_start_matches("value ")),
                    );
                }
            }
        }
        // the table's grouping computed one operator at a time from parameters (no constant, no composite
        // expression for the folding pass to rewrite): the composite forms must give what the steps give
        let type_of = |v: &str| match v {
            "true" | "false" => "bool",
            v if v.contains('.') => "float",
            _ => "int",
        };
        if (exp_key.starts_with("value") || exp_key.starts_with("error ")) && !ops.iter().any(|o| matches!(*o, "&&" | "||")) {
            let mut steps = vec![];
            let result = expected.steps(&ops, &mut steps);
            let params: Vec<String> = vals.iter().enumerate().map(|(i, v)| format!("p{i}: {}", type_of(v))).collect();
            let ps: Vec<String> = (0..n).map(|i| format!("p{i}")).collect();
            let ps: Vec<&str> = ps.iter().map(String::as_str).collect();
            let stepwise = format!("f := ({}) -> any {{ {}; return {result}; }}; f({})", params.join(", "), steps.join("; "), vals.join(", "));
            let composite = format!("f := ({}) -> any {{ return {}; }}; f({})", params.join(", "), flat(&ps, &ops, " "), vals.join(", "));
            let grouped = format!("f := ({}) -> any {{ return {}; }}; f({})", params.join(", "), expected.print(&ps, &ops), vals.join(", "));
            stats.evals(3);
            let step_key = outcome_key(&stepwise);
            for (text, how) in [(&composite, "unparenthesised, all operands parameters"), (&grouped, "parenthesised as the table groups it, all operands parameters")] {
                let got = outcome_key(text);
                if got != step_key {
                    return fail(
                        format!("C14:infix-steps:{}", ops.join("_")),
                        format!("`{text}` ({how}) gives [{got}] but computing the table's grouping one operator at a time, `{stepwise}`, gives [{step_key}]"),
                    );
                }
            }
            if step_key != exp_key {
                return fail(
                    format!("C14:infix-steps:{}", ops.join("_")),
                    format!("`{exp_text}` (constants) gives [{exp_key}] but `{stepwise}` gives [{step_key}]"),
                );
            }
        }
        // the same chain with one operand at a time hidden behind a parameter (partially
        // constant chains are rebuilt by the folding pass; the grouping must survive it)
        for hide in 0..n {
            let ty = match vals[hide] {
                "true" | "false" => "bool",
                v if v.contains('.') => "float",
                _ => "int",
            };
            let mut vs = vals.clone();
            vs[hide] = "p";
            let text = format!("f := (p: {ty}) -> any {{ return {}; }}; f({})", flat(&vs, &ops, " "), vals[hide]);
            stats.eval();
            let got = outcome_key(&text);
            if got != exp_key {
                return fail(
                    format!("C14:infix-param:{}", ops.join("_")),
                    format!("`{text}` gives [{got}] but the table groups the chain as `{exp_text}` which gives [{exp_key}]"),
                );
            }
        }
        stats.sample(6, || json!({"text": flat(&vals, &ops, " "), "table_grouping": exp_text, "separated_from": separated, "of": trees.len() - 1}));
        confirmed += 1;
        if exp_key.starts_with("value") {
            by_value += 1;
        }
        if at >= boundary && confirmed >= want && best_separation == trees.len() - 1 && by_value > 0 {
            break;
        }
    }
    if confirmed > 0 {
        stats.nontrivial(&key);
        stats.label(&format!("{}-operator chains distinguished", ops.len()));
        if by_value > 0 {
            stats.label(&format!("{}-operator chains distinguished by a computed value", ops.len()));
        }
        if best_separation == trees.len() - 1 {
            stats.label(&format!("{}-operator chains separated from every other grouping", ops.len()));
        }
    } else {
        stats.label(&format!("{}-operator chains indistinguishable (all groupings agree on all operands tried)", ops.len()));
    }
    Verdict::Pass
}

fn check_template(case: &Json, stats: &mut Stats) -> Verdict {
    let name = case["name"].as_str().unwrap_or("?");
    let prelude = case["prelude"].as_str().unwrap_or("");
    let flat = case["flat"].as_str().unwrap_or("");
    let expected = case["expected"].as_str().unwrap_or("");
    let run_one = |e: &str| outcome_key(&format!("{prelude}{e}"));
    stats.evals(2);
    let exp_key = run_one(expected);
    let got = run_one(flat);
    let mut separated = 0;
    let others = case["others"].as_array().cloned().unwrap_or_default();
    for o in &others {
        stats.eval();
        if run_one(o.as_str().unwrap_or("")) != exp_key {
            separated += 1;
        }
    }
    stats.label(&format!("template class {}", case["class"].as_str().unwrap_or("?")));
    if separated > 0 || others.is_empty() {
        stats.nontrivial(&format!("{name}:{flat}"));
    } else {
        stats.label("template not separated from its alternatives");
    }
    stats.sample(6, || json!({"template": name, "flat": flat, "expected": expected, "outcome": got}));
    if case["must_be_value"].as_bool().unwrap_or(false) && !exp_key.starts_with("value") {
        return fail(
            format!("C14:template-setup:{name}"),
            format!("`{prelude}{expected}` was meant to evaluate, got [{exp_key}]"),
        );
    }
    if let Some(steps) = case["steps"].as_str() {
        stats.eval();
        let step_key = run_one(steps);
        if step_key != exp_key {
            return fail(
                format!("C14:template-steps:{name}"),
                format!("`{prelude}{expected}` gives [{exp_key}] but the same grouping computed one operator at a time, `{steps}`, gives [{step_key}]"),
            );
        }
    }
    if let Some(value) = case["value"].as_str() {
        // the value the table's grouping has by the documented meaning of the operators (an assignment
        // yields the value it stored), written as a literal
        stats.eval();
        let model = outcome_key(value);
        if model != exp_key {
            return fail(
                format!("C14:template-value:{name}"),
                format!("`{prelude}{expected}` gives [{exp_key}] but its grouping means [{model}]"),
            );
        }
    }
    // readings that split a multi-character operator: whatever the text means, it never means those
    for f in case["forbidden"].as_array().into_iter().flatten().filter_map(|f| f.as_str()) {
        stats.eval();
        let split = run_one(f);
        if split.starts_with("value") && got == split && exp_key != split {
            return fail(
                format!("C14:template-split:{name}"),
                format!("`{prelude}{flat}` gives [{got}], which is what `{f}` gives - the reading that splits the operator; the table reads it as `{expected}`"),
            );
        }
        if split.starts_with("value") && got == split && !case["expected_may_equal_split"].as_bool().unwrap_or(false) {
            return fail(
                format!("C14:template-split:{name}"),
                format!("`{prelude}{flat}` gives [{got}], the value of the split reading `{f}`; by the documented operand types the unsplit operator does not apply to these operands at all"),
            );
        }
    }
    if got != exp_key {
        return fail(
            format!("C14:template:{name}"),
            format!("`{prelude}{flat}` gives [{got}] but the table reads it as `{expected}` which gives [{exp_key}]"),
        );
    }
    Verdict::Pass
}

fn tpl(class: &str, name: &str, prelude: &str, flat: &str, expected: &str, others: &[&str], must: bool) -> Json {
    json!({"kind": "template", "class": class, "name": name, "prelude": prelude, "flat": flat,
           "expected": expected, "others": others, "must_be_value": must})
}

fn templates() -> Vec<Json> {
    let mut t = vec![];
    let pre = "m := mut 6; arr := [3, 4]; cells := [mut 5, mut 8]; tup := (3, 4); st := struct{f := 3}; \
               neg := (x: int) -> int { return 0 - x }; two := () -> int { return 2 }; tr := () -> bool { return true }; \
               ma := mut [1, 2]; fl := 2.5; ";
    // each prefix operator before each infix operator: the prefix operator binds tighter
    for op in INFIX {
        let (a, b) = match op {
            "&&" | "||" => ("true", "false"),
            _ => ("7", "2"),
        };
        // unary minus
        t.push(tpl("prefix-before-infix", &format!("minus {op}"), pre, &format!("-{a} {op} {b}"), &format!("(-{a}) {op} {b}"), &[&format!("-({a} {op} {b})")], false));
        t.push(tpl("prefix-before-infix", &format!("minus-unspaced {op}"), pre, &format!("-{a}{op}{b}"), &format!("(-{a}) {op} {b}"), &[&format!("-({a} {op} {b})")], false));
        // not (bitwise on ints, logical on bools)
        t.push(tpl("prefix-before-infix", &format!("not {op}"), pre, &format!("!{a} {op} {b}"), &format!("(!{a}) {op} {b}"), &[&format!("!({a} {op} {b})")], false));
        // indirection
        t.push(tpl("prefix-before-infix", &format!("deref {op}"), pre, &format!("*m {op} {b}"), &format!("(*m) {op} {b}"), &[&format!("*(m {op} {b})")], false));
        // infix operator followed by a prefix operator on the right operand
        t.push(tpl("infix-then-prefix", &format!("rhs-minus {op}"), pre, &format!("{a} {op} -{b}"), &format!("{a} {op} (-{b})"), &[], false));
        t.push(tpl("infix-then-prefix", &format!("rhs-minus-unspaced {op}"), pre, &format!("{a}{op}-{b}"), &format!("{a} {op} (-{b})"), &[], false));
        t.push(tpl("infix-then-prefix", &format!("rhs-not {op}"), pre, &format!("{a} {op} !{b}"), &format!("{a} {op} (!{b})"), &[], false));
        t.push(tpl("infix-then-prefix", &format!("rhs-deref {op}"), pre, &format!("{a} {op} *m"), &format!("{a} {op} (*m)"), &[], false));
    }
    // the same with operands that are not known when the text is folded (parameters of a function,
    // one or both): a rewrite of `!a == b` or `-a * b` by the folding pass must respect the grouping
    for op in INFIX {
        let operands: &[(&str, &str, &str)] = match op {
            "&&" | "||" => &[("bool", "true", "false"), ("bool", "false", "false")],
            // (!(-6) is 5 and -(-5) is 5: the boundaries of comparisons; MIN_INT is its own negation)
            _ => &[
                ("int", "7", "2"),
                ("int", "5", "3"),
                ("int", "-6", "5"),
                ("int", "-5", "5"),
                ("int", "(-9223372036854775807 - 1)", "5"),
                ("int", "5", "(-9223372036854775807 - 1)"),
                ("float", "-2.5", "2.5"),
                ("bool", "true", "false"),
            ],
        };
        for (ty, a, b) in operands {
            for (pfx, pname) in [("-", "minus"), ("!", "not")] {
                for (params, args, va, vb, how) in [
                    (format!("a: {ty}, b: {ty}"), format!("{a}, {b}"), "a".to_string(), "b".to_string(), "both"),
                    (format!("a: {ty}"), a.to_string(), "a".to_string(), b.to_string(), "left"),
                    (format!("b: {ty}"), b.to_string(), a.to_string(), "b".to_string(), "right"),
                ] {
                    let f = |body: String| format!("pf := ({params}) -> any {{ return {body}; }}; pf({args})");
                    let short_circuit = matches!(op, "&&" | "||");
                    let mut one = tpl(
                        "prefix-before-infix-param",
                        &format!("{pname} {op} {ty} {a} {b} {how}"),
                        pre,
                        &f(format!("{pfx}{va} {op} {vb}")),
                        &f(format!("({pfx}{va}) {op} {vb}")),
                        &[&f(format!("{pfx}({va} {op} {vb})"))],
                        false,
                    );
                    one["steps"] = json!(format!("pf := ({params}) -> any {{ t0 := {pfx}{va}; t1 := t0 {op} {vb}; return t1; }}; pf({args})"));
                    t.push(one);
                    let mut two = tpl(
                        "infix-then-prefix-param",
                        &format!("rhs-{pname} {op} {ty} {a} {b} {how}"),
                        pre,
                        &f(format!("{va} {op} {pfx}{vb}")),
                        &f(format!("{va} {op} ({pfx}{vb})")),
                        &[],
                        false,
                    );
                    if !short_circuit {
                        two["steps"] = json!(format!("pf := ({params}) -> any {{ t0 := {pfx}{vb}; t1 := {va} {op} t0; return t1; }}; pf({args})"));
                    }
                    t.push(two);
                }
            }
        }
    }
    // postfix forms bind tighter than prefix operators
    t.push(tpl("postfix-after-prefix", "minus index", pre, "-arr[0]", "-(arr[0])", &["(-arr)[0]"], true));
    t.push(tpl("postfix-after-prefix", "not index", pre, "!arr[1]", "!(arr[1])", &["(!arr)[1]"], true));
    t.push(tpl("postfix-after-prefix", "deref index", pre, "*cells[1]", "*(cells[1])", &["(*cells)[1]"], true));
    t.push(tpl("postfix-after-prefix", "deref then index", pre, "(*ma)[1]", "(*ma)[1]", &["*(ma[1])"], true));
    t.push(tpl("postfix-after-prefix", "minus call", pre, "-two()", "-(two())", &["(-two)()"], true));
    t.push(tpl("postfix-after-prefix", "not call", pre, "!tr()", "!(tr())", &["(!tr)()"], true));
    t.push(tpl("postfix-after-prefix", "minus tuple access", pre, "-tup.1", "-(tup.1)", &["(-tup).1"], true));
    t.push(tpl("postfix-after-prefix", "minus field access", pre, "-st.f", "-(st.f)", &["(-st).f"], true));
    t.push(tpl("postfix-after-prefix", "minus slice", pre, "-arr[0:1][0]", "-((arr[0:1])[0])", &["((-arr)[0:1])[0]"], true));
    t.push(tpl("postfix-after-prefix", "call of call result", pre, "-neg(neg(3))", "-(neg(neg(3)))", &[], true));
    t.push(tpl("postfix-after-prefix", "postfix chain", pre, "[[1, 2], [3, 4]][1][0]", "([[1, 2], [3, 4]][1])[0]", &[], true));
    // postfix forms bind tighter than every infix operator
    for op in INFIX {
        if matches!(op, "&&" | "||") {
            continue;
        }
        t.push(tpl("postfix-vs-infix", &format!("index {op}"), pre, &format!("7 {op} arr[0]"), &format!("7 {op} (arr[0])"), &[&format!("(7 {op} arr)[0]")], true));
        t.push(tpl("postfix-vs-infix", &format!("call {op}"), pre, &format!("7 {op} two()"), &format!("7 {op} (two())"), &[&format!("(7 {op} two)()")], true));
        t.push(tpl("postfix-vs-infix", &format!("tuple access {op}"), pre, &format!("7 {op} tup.0"), &format!("7 {op} (tup.0)"), &[&format!("(7 {op} tup).0")], true));
    }
    // iterator level (3) against ** and the other infix levels, and against prefix operators
    let ip = "a := [1, 2, 3]; sq := (x: int) -> int { return x * x }; even := (x: int) -> bool { return x % 2 == 0 }; \
              add := (acc: int, x: int) -> int { return acc + x }; bs := [true, false]; ma := mut [1, 2]; ";
    t.push(tpl("iterator-level", "pow vs sum", ip, "2 ** a~$+", "2 ** ((a~)$+)", &["((2 ** a)~)$+"], true));
    t.push(tpl("iterator-level", "pow vs product", ip, "2 ** a~$*", "2 ** ((a~)$*)", &["((2 ** a)~)$*"], true));
    t.push(tpl("iterator-level", "sum then pow", ip, "a~$+ ** 2", "((a~)$+) ** 2", &[], true));
    t.push(tpl("iterator-level", "mul vs reduce", ip, "3 * a~ $ 0 add", "3 * ((a~) $ 0 add)", &[], true));
    t.push(tpl("iterator-level", "map then collect", ip, "a~ @ sq $]", "((a~) @ sq) $]", &["(a~) @ (sq $])"], true));
    t.push(tpl("iterator-level", "filter map sum", ip, "a~ ? even @ sq $+", "(((a~) ? even) @ sq) $+", &["(a~) ? (even @ sq) $+"], true));
    t.push(tpl("iterator-level", "partition access", ip, "(a~ \\ even).0", "((a~) \\ even).0", &[], true));
    t.push(tpl("iterator-level", "partition then compare", ip, "a~ \\ even == a~ \\ even", "((a~) \\ even) == ((a~) \\ even)", &[], true));
    t.push(tpl("iterator-level", "add vs bitor reduce", ip, "1 + a~$|", "1 + ((a~)$|)", &["((1 + a)~)$|"], true));
    t.push(tpl("iterator-level", "add vs bitand reduce", ip, "8 + a~$&", "8 + ((a~)$&)", &["((8 + a)~)$&"], true));
    t.push(tpl("iterator-level", "and vs all", ip, "true && bs~$&&", "true && ((bs~)$&&)", &[], true));
    t.push(tpl("iterator-level", "or vs any", ip, "false || bs~$||", "false || ((bs~)$||)", &[], true));
    t.push(tpl("iterator-level", "prefix before iterate", ip, "*ma~$+", "((*ma)~)$+", &["*((ma~)$+)"], true));
    t.push(tpl("iterator-level", "prefix before sum", ip, "-a~$+", "((-a)~)$+", &["-((a~)$+)"], false));
    t.push(tpl("iterator-level", "not before all", ip, "!bs~$&&", "((!bs)~)$&&", &["!((bs~)$&&)"], false));
    t.push(tpl("iterator-level", "type filter binds tighter than map", ip, "a~ ? int @ sq $+", "(((a~) ? int) @ sq) $+", &[], true));
    t.push(tpl("iterator-level", "index binds tighter than iterate", ip, "[a][0]~$+", "(([a][0])~)$+", &[], true));
    t.push(tpl("iterator-level", "iterate then call", ip, "(a~)().1", "((a~)()).1", &[], true));
    // assignments: loosest, right to left
    let ap = "c := mut 1; d := mut 2; b := mut false; f := mut 2.0; ";
    t.push(tpl("assignment", "chain", ap, "r := c = d = 9; (r, *c, *d)", "r := (c = (d = 9)); (r, *c, *d)", &["r := ((c = d) = 9); (r, *c, *d)"], true));
    t.push(tpl("assignment", "compound chain", ap, "r := c += d *= 3; (r, *c, *d)", "r := (c += (d *= 3)); (r, *c, *d)", &["r := ((c += d) *= 3); (r, *c, *d)"], true));
    for op in INFIX {
        match op {
            "&&" | "||" => {
                t.push(tpl("assignment", &format!("assign vs {op}"), ap, &format!("r := b = true {op} false; (r, *b)"), &format!("r := (b = (true {op} false)); (r, *b)"), &[&format!("r := ((b = true) {op} false); (r, *b)")], true));
                t.push(tpl("assignment", &format!("or-assign vs {op}"), ap, &format!("r := b |= true {op} false; (r, *b)"), &format!("r := (b |= (true {op} false)); (r, *b)"), &[&format!("r := ((b |= true) {op} false); (r, *b)")], true));
            }
            "==" | "!=" | "<" | "<=" | ">" | ">=" => {
                t.push(tpl("assignment", &format!("assign vs {op}"), ap, &format!("r := b = 3 {op} 2; (r, *b)"), &format!("r := (b = (3 {op} 2)); (r, *b)"), &[&format!("r := ((b = 3) {op} 2); (r, *b)")], true));
            }
            _ => {
                t.push(tpl("assignment", &format!("assign vs {op}"), ap, &format!("r := c = 3 {op} 2; (r, *c)"), &format!("r := (c = (3 {op} 2)); (r, *c)"), &[&format!("r := ((c = 3) {op} 2); (r, *c)")], true));
                t.push(tpl("assignment", &format!("add-assign vs {op}"), ap, &format!("r := c += 3 {op} 2; (r, *c)"), &format!("r := (c += (3 {op} 2)); (r, *c)"), &[&format!("r := ((c += 3) {op} 2); (r, *c)")], true));
                t.push(tpl("assignment", &format!("{op} then assign"), ap, &format!("r := 3 {op} c = 2; (r, *c)"), &format!("r := ((3 {op} c) = 2); (r, *c)"), &[&format!("r := (3 {op} (c = 2)); (r, *c)")], false));
            }
        }
    }
    for aop in ["=", "+=", "-=", "*=", "/=", "%=", "**=", "<<=", ">>=", "&=", "|=", "^="] {
        t.push(tpl("assignment", &format!("{aop} right assoc with ="), ap, &format!("r := c {aop} d = 3; (r, *c, *d)"), &format!("r := (c {aop} (d = 3)); (r, *c, *d)"), &[&format!("r := ((c {aop} d) = 3); (r, *c, *d)")], true));
        // tokenisation: the compound operator is one token
        t.push(tpl("tokenisation", &format!("unspaced {aop}"), ap, &format!("r := c{aop}3; (r, *c)"), &format!("r := (c {aop} 3); (r, *c)"), &[], true));
    }
    // a prefix minus on the right operand, with the documented value written as a literal (the negation of
    // a float zero is the negative zero)
    let zp = "z0 := 0.0; fl := 2.5; one := 1.0; ";
    for (name, flat, expected, value) in [
        ("division by a negated zero", "fl / -z0", "fl / (-z0)", "(0.0 - 2.5) / 0.0"),
        ("negated zero times", "-z0 * fl", "(-z0) * fl", "(0.0 - 1.0) * 0.0"),
        ("negated zero plus zero", "one / (-z0 + -z0)", "one / ((-z0) + (-z0))", "(0.0 - 1.0) / 0.0"),
        ("zero minus negated", "one / (z0 - -z0)", "one / (z0 - (-z0))", "1.0 / 0.0"),
        ("power of a negated zero", "one / -z0 ** 3.0", "one / ((-z0) ** 3.0)", "(0.0 - 1.0) / 0.0"),
    ] {
        for (pre2, how) in [(zp.to_string(), "constants"), ("pz := (z0: float, fl: float, one: float) -> any { return ".to_string(), "parameters")] {
            let (f2, e2) = if how == "constants" { (flat.to_string(), expected.to_string()) } else { (format!("{flat}; }}; pz(0.0, 2.5, 1.0)"), format!("{expected}; }}; pz(0.0, 2.5, 1.0)")) };
            let mut case = tpl("infix-then-prefix", &format!("{name} ({how})"), &pre2, &f2, &e2, &[], true);
            case["value"] = json!(value);
            t.push(case);
        }
    }
    // right-to-left chains: what flows up the chain is the value each assignment stored
    let ap2 = "c := mut 5; d := mut 9; ";
    for (aop, v) in [("=", 3i64), ("+=", 8), ("-=", 2), ("*=", 15), ("/=", 1), ("%=", 2), ("**=", 125), ("<<=", 40), (">>=", 0), ("&=", 1), ("|=", 7), ("^=", 6)] {
        for (name, flat, expected, value) in [
            ("then =", format!("r := c {aop} d = 3; (r, *c, *d)"), format!("r := (c {aop} (d = 3)); (r, *c, *d)"), format!("({v}, {v}, 3)")),
            ("after =", format!("r := d = c {aop} 3; (r, *c, *d)"), format!("r := (d = (c {aop} 3)); (r, *c, *d)"), format!("({v}, {v}, {v})")),
            ("after +=", format!("r := d += c {aop} 3; (r, *c, *d)"), format!("r := (d += (c {aop} 3)); (r, *c, *d)"), format!("({}, {v}, {})", 9 + v, 9 + v)),
        ] {
            let mut case = tpl("assignment", &format!("value of {aop} {name}"), ap2, &flat, &expected, &[], true);
            case["value"] = json!(value);
            t.push(case);
        }
    }
    // multi-character operators are never split
    let tp = "m := mut 2; x := 6; y := 3; bs := [true, false]; ns := [6, 3]; ";
    for (name, flat, expected, others) in [
        ("pow not mul-deref", "x**m", "x ** m", vec!["x * (*m)"]),
        ("pow spaced deref", "x ** *m", "x ** (*m)", vec![]),
        ("mul deref", "x * *m", "x * (*m)", vec![]),
        ("minus minus", "x- -y", "x - (-y)", vec![]),
        ("less minus", "x<-y", "x < (-y)", vec![]),
        ("lshift", "x<<y", "x << y", vec![]),
        ("rshift", "x>>y", "x >> y", vec![]),
        ("less-equal", "x<=y", "x <= y", vec![]),
        ("greater-equal", "x>=y", "x >= y", vec![]),
        ("not-equal", "x!=y", "x != y", vec![]),
        ("equal", "x==y", "x == y", vec![]),
        ("not-equal not", "x!=!y", "x != (!y)", vec![]),
        ("and", "true&&false", "true && false", vec!["true & false"]),
        ("or", "false||true", "false || true", vec!["false | true"]),
        ("bitand", "x&y", "x & y", vec![]),
        ("bitor", "x|y", "x | y", vec![]),
        ("pow minus", "2.0**-1.0", "2.0 ** (-1.0)", vec![]),
        ("all not bitand-reduce", "bs~$&&", "(bs~) $&&", vec![]),
        ("any not bitor-reduce", "bs~$||", "(bs~) $||", vec![]),
        ("bitand reduce", "ns~$&", "(ns~) $&", vec![]),
        ("bitor reduce", "ns~$|", "(ns~) $|", vec![]),
        ("sum", "ns~$+", "(ns~) $+", vec![]),
        ("product", "ns~$*", "(ns~) $*", vec![]),
        ("collect", "ns~$]", "(ns~) $]", vec![]),
        ("sum minus", "ns~$+-1", "((ns~) $+) - 1", vec![]),
        ("product times", "ns~$**2", "((ns~) $*) * 2", vec![]),
        ("shift assign vs compare", "r := m<<=1; (r, *m)", "r := (m <<= 1); (r, *m)", vec![]),
        ("rshift assign", "r := m>>=1; (r, *m)", "r := (m >>= 1); (r, *m)", vec![]),
        ("pow assign", "r := m**=3; (r, *m)", "r := (m **= 3); (r, *m)", vec![]),
        ("declaration vs equality", "z:=x==y; z", "z := (x == y); z", vec![]),
        ("arrow in match", "match x { (6) => 1, => 2, }", "match x { (6) => 1, => 2, }", vec![]),
    ] {
        let others: Vec<&str> = others;
        t.push(tpl("tokenisation", name, tp, flat, expected, &others, false));
    }
    // long chains of one operator (33 to 70 operands): still grouped left to right, whatever the
    // length (floats round at every step, - and / are not associative); the value is computed here
    for n in [33usize, 34, 35, 40, 64, 65, 70] {
        let fl = |xs: &[f64], op: char| -> (String, String) {
            let mut acc = xs[0];
            for x in &xs[1..] {
                acc = match op {
                    '+' => acc + x,
                    '-' => acc - x,
                    '*' => acc * x,
                    _ => acc / x,
                };
            }
            let texts: Vec<String> = xs.iter().map(|x| crate::props::c08::lit_float(*x)).collect();
            (texts.join(&format!(" {op} ")), crate::props::c08::lit_float(acc))
        };
        let mut big_then_ones = vec![1e16];
        big_then_ones.extend(std::iter::repeat_n(1.0, n - 1));
        let tenths: Vec<f64> = (0..n).map(|k| 0.1 + (k % 3) as f64 * 0.1).collect();
        let factors: Vec<f64> = (0..n).map(|k| 1.0 + (k % 7) as f64 * 0.173).collect();
        let mut ones_then_big: Vec<f64> = std::iter::repeat_n(1.0, n - 1).collect();
        ones_then_big.push(1e16);
        for (xs, op) in [(&big_then_ones, '+'), (&tenths, '+'), (&factors, '*'), (&big_then_ones, '-'), (&factors, '/'), (&ones_then_big, '+'), (&tenths, '-')] {
            let (flat, value) = fl(xs, op);
            let mut case = tpl("long-chain", &format!("{n} floats {op}"), "", &flat, &flat, &[], true);
            case["value"] = json!(value);
            t.push(case);
            // the same over parameters of a function (nothing constant)
            let params: Vec<String> = (0..xs.len()).map(|i| format!("p{i}: float")).collect();
            let names: Vec<String> = (0..xs.len()).map(|i| format!("p{i}")).collect();
            let args: Vec<String> = xs.iter().map(|x| crate::props::c08::lit_float(*x)).collect();
            let program = format!("f := ({}) -> float {{ return {}; }}; f({})", params.join(", "), names.join(&format!(" {op} ")), args.join(", "));
            let mut case = tpl("long-chain", &format!("{n} float parameters {op}"), "", &program, &program, &[], true);
            case["value"] = json!(value);
            t.push(case);
        }
        // ints: subtraction and division chains, wrapping sums
        let ints: Vec<i64> = (0..n as i64).map(|k| k % 5 + 1).collect();
        let sub = ints.iter().skip(1).fold(1000i64, |a, x| a.wrapping_sub(*x));
        let mut case = tpl("long-chain", &format!("{n} ints -"), "", &format!("1000 - {}", ints.iter().skip(1).map(|x| x.to_string()).collect::<Vec<_>>().join(" - ")), "0", &[], false);
        case["expected"] = case["flat"].clone();
        case["value"] = json!(sub.to_string());
        t.push(case);
        let div_text = format!("9223372036854775807 / {}", ints.iter().skip(1).map(|x| (x % 2 + 1).to_string()).collect::<Vec<_>>().join(" / "));
        let div = ints.iter().skip(1).fold(i64::MAX, |a, x| a / (x % 2 + 1));
        let mut case = tpl("long-chain", &format!("{n} ints /"), "", &div_text, &div_text, &[], true);
        case["value"] = json!(div.to_string());
        t.push(case);
        let strs: Vec<String> = (0..n).map(|k| format!("\"{}\"", char::from(b'a' + (k % 26) as u8))).collect();
        let joined: String = (0..n).map(|k| char::from(b'a' + (k % 26) as u8)).collect();
        let mut case = tpl("long-chain", &format!("{n} strings +"), "", &strs.join(" + "), &strs.join(" + "), &[], true);
        case["value"] = json!(format!("\"{joined}\""));
        t.push(case);
    }
    // a comment between two tokens separates them like a blank: tokens on either side of it never join
    // into a longer operator
    let tcm = "m := mut 3; x := 2; y := 5; c3 := mut 4; bt := true; ";
    for (name, flat, expected) in [
        ("mul comment deref", "x */* times */*m", "x * (*m)"),
        ("mul empty comment deref", "x */**/*m", "x * (*m)"),
        ("minus comment minus", "x -/* c */-y", "x - (-y)"),
        ("less comment minus", "x </* c */-y", "x < (-y)"),
        ("greater comment minus", "x >/**/-y", "x > (-y)"),
        ("assign comment minus", "r := c3 =/* c */-y; (r, *c3)", "r := (c3 = (-y)); (r, *c3)"),
        ("assign comment deref", "r := c3 =/**/*m; (r, *c3)", "r := (c3 = (*m)); (r, *c3)"),
        ("and comment not", "bt &/* c */!bt", "bt & (!bt)"),
        ("or comment not", "bt |/**/!bt", "bt | (!bt)"),
        ("plus comment plus-assign look-alike", "r := c3 +/* c */= 2; (r, *c3)", "<rejected>"),
        ("line comment between", "x *// c\n*m", "x * (*m)"),
        ("shift look-alike", "x </**/< y", "<rejected>"),
    ] {
        if expected == "<rejected>" {
            // two tokens that would form a compound operator only if the comment vanished: rejected, never
            // the value of the compound operator
            let joined = flat.replace("/* c */", "").replace("/**/", "");
            let mut case = tpl("tokenisation", name, tcm, flat, flat, &[], false);
            case["forbidden"] = json!([joined]);
            t.push(case);
        } else {
            t.push(tpl("tokenisation", name, tcm, flat, expected, &[], true));
        }
    }
    // `**` (and `**=`) in front of a cell: `* *m` would be well typed, `** m` is not (the documented
    // operands of ** are numbers), so the text may be rejected but never has the value of the product
    let tc = "m := mut 3; x := 2; c2 := mut 2; ";
    for (name, flat, expected, split) in [
        ("pow then cell unspaced", "x**m", "x ** m", "x * (*m)"),
        ("pow then cell", "x **m", "x ** m", "x * (*m)"),
        ("pow spaced then cell", "x ** m", "x ** m", "x * (*m)"),
        ("pow then cell in a sum", "1 + x **m + 1", "1 + (x ** m) + 1", "1 + (x * (*m)) + 1"),
        ("pow then cell literal base", "2 **m", "2 ** m", "2 * (*m)"),
        ("pow then cell float", "2.5 **m", "2.5 ** m", "2.5 * (*m)"),
        ("pow assign then cell", "r := c2 **=m; (r, *c2)", "r := (c2 **= m); (r, *c2)", "r := (c2 *= (*m)); (r, *c2)"),
        ("pow assign spaced then cell", "r := c2 **= m; (r, *c2)", "r := (c2 **= m); (r, *c2)", "r := (c2 *= (*m)); (r, *c2)"),
        ("and then deref", "true &&*(mut true)", "true && (*(mut true))", "true & (*(mut false))"),
    ] {
        let mut case = tpl("tokenisation", name, tc, flat, expected, &[], false);
        case["forbidden"] = json!([split]);
        t.push(case);
    }
    // chains of the iterator operators with the value their grouping means: the operators apply one
    // after the other, each to what the one before it made - a predicate only sees elements, a chain
    // run again works on its new operand
    let ip = "ns := [1, 2, 5]; ws := [\"ab\", \"c\", \"abc\"]; n := mut 0; ints := (a: [int|float]) -> [int] { return a~ ? int $]; }; \
              evens := (a: [int]) -> int { return a~ ? (x: int) -> bool { return x % 2 == 0; } $+ * 2; }; ";
    for (name, flat, expected, value) in [
        ("filter partial predicate collect", "ns~ ? (x: int) -> bool { return 10 / x > 2; } $]", "((ns~) ? (x: int) -> bool { return 10 / x > 2; }) $]", "[1, 2]"),
        ("filter partial predicate sum", "ns~ ? (x: int) -> bool { return 10 % x == 0; } $+ + 1", "(((ns~) ? (x: int) -> bool { return 10 % x == 0; }) $+) + 1", "9"),
        ("filter indexing predicate", "ws~ ? (s: string) -> bool { return s[0] == \"a\"; } $]", "((ws~) ? (s: string) -> bool { return s[0] == \"a\"; }) $]", "[\"ab\", \"abc\"]"),
        ("map then partial filter", "ns~ @ (x: int) -> int { return x + 1; } ? (x: int) -> bool { return 12 / x > 2; } $]", "(((ns~) @ (x: int) -> int { return x + 1; }) ? (x: int) -> bool { return 12 / x > 2; }) $]", "[2, 3]"),
        ("filter counts its calls", "r := ns~ ? (x: int) -> bool { n += 1; return x > 1; } $]; (r, *n)", "r := (((ns~) ? (x: int) -> bool { n += 1; return x > 1; }) $]); (r, *n)", "([2, 5], 3)"),
        ("type filter run again", "(ints([1, 2.5]), ints([3.5, 4]), ints([7, 8]))", "(ints([1, 2.5]), ints([3.5, 4]), ints([7, 8]))", "([1], [4], [7, 8])"),
        ("filter run again", "(evens([1, 2]), evens([4, 6]), evens([3]))", "(evens([1, 2]), evens([4, 6]), evens([3]))", "(4, 20, 0)"),
        ("type filter in a loop", "t := mut 0; for row in [[1, 2.5], [3, 4.5]]~ { t += row~ ? int $+ * 2; }; *t", "t := mut 0; for row in [[1, 2.5], [3, 4.5]]~ { t += (((row~) ? int) $+) * 2; }; *t", "8"),
        ("type filter in a while", "t := mut 0; k := mut 0; while *k < 3 { t += [*k, 2.5, *k * 10]~ ? int $+; k += 1; }; *t", "t := mut 0; k := mut 0; while *k < 3 { t += ((([*k, 2.5, *k * 10])~) ? int) $+; k += 1; }; *t", "33"),
    ] {
        let mut case = tpl("iterator-chain-value", name, ip, flat, expected, &[], true);
        case["value"] = json!(value);
        t.push(case);
    }
    t
}

pub fn run(session: &Session) -> i32 {
    crate::engine::run_regressions(session, &C14);
    let mut cases = vec![];
    for a in INFIX {
        for b in INFIX {
            cases.push(json!({"kind": "infix", "ops": [a, b], "tries": 512, "confirm": session.tier.of(3, 12)}));
        }
    }
    for a in INFIX {
        for b in INFIX {
            for c in INFIX {
                cases.push(json!({"kind": "infix", "ops": [a, b, c], "tries": session.tier.of(24, 200), "confirm": session.tier.of(1, 4)}));
            }
        }
    }
    let tpls = templates();
    session.set_extra("templates", json!(tpls.len()));
    cases.extend(tpls);
    session.set_extra("enumerated_cases", json!(cases.len()));
    session.run_enum(&C14, cases);
    session.finish(
        "every ordered pair (361) and triple (6859) of the 19 infix value operators: operand values are searched in a pool of ints, bools and floats until the grouping prescribed by the 14-level table (all infix levels left-associative) gives an outcome (value, error kind or operand-type error) different from the other groupings; the unparenthesised text, with and without whitespace, with one operand and with all operands passed as parameters, must then give the table grouping's outcome, and so must the table's grouping computed one operator at a time (three-address form over parameters, which no peephole rewrite of a composite expression can touch). Templates: each prefix operator before and after each infix operator, postfix forms ([] () .k .f slicing) after prefix operators and against every infix operator, iterator-level operators against **, other levels and prefix operators, assignments against everything incl. right-associative chains of all 12 assignment operators, and unspaced multi-character operators (** vs * *, <- , <<=, $&& vs $&, $|| vs $|, :=/==, ...). Non-trivial = the table grouping was distinguished from at least one other grouping by value; distinct by operator sequence / template.",
        true,
        &["a chain whose groupings agree on every operand tried (e.g. a + b + c) is counted as indistinguishable, not as confirmed",
          "both sides of every comparison are evaluated by the implementation; the harness supplies only the grouping"],
    )
}
