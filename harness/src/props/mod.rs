//! Registry: property id -> check
use crate::engine::Session;
use std::path::Path;

pub mod c03;
pub mod soundness;
pub mod refprop;
pub mod c05;
pub mod c08;
pub mod c09;
pub mod c10;
pub mod c14;
pub mod c15;
pub mod c16;
pub mod c17;
pub mod c18;
pub mod c19;
pub mod c20;

pub fn run(session: &Session) -> i32 {
    match session.id {
        "C01" => soundness::run(session, &soundness::C01),
        "C02" => soundness::run(session, &soundness::C02),
        "C03" => c03::run(session),
        "C04" => refprop::run(session, &refprop::C04, "typed programs from the constants profile printed three ways - every literal as a literal, every literal c as the opaque `(*(mut T c))`, and a random subset hidden - must give the same value (incl. the effect log and every top-level name) or the same run-time error; a parse-time error of the literal version is accepted only when the harness's constant analysis finds an operation of that kind with a failing (or unclassifiable) constant operand; twins that differ in type-check acceptance are discarded. Non-trivial = the program contains literals; distinct by literal text."),
        "C06" => refprop::run(session, &refprop::C06, "typed programs from the scoping profile (4-name identifier pool, shadowing in blocks / loop bodies / match arms / if-set bodies / function bodies, closures capturing names that are redeclared afterwards, cells shared by reference, named recursive functions, user iterators consumed by operators) compared with the reference interpreter on the final value of every top-level name, the effect log and run-time errors. Non-trivial = the reference saw a shadowing, a capture-then-redeclare or consumed an iterator whose body declares locals; distinct by program text."),
        "C07" => refprop::run(session, &refprop::C07, "typed programs from the effects profile: subexpressions in every operand position are wrapped in tick calls tkN(k, e) that append k to a shared log; the log sequence (exactly once, left to right, unchosen branches and short-circuited operands silent) and all values must equal the reference's. Non-trivial = at least 2 ticks executed; distinct by program text."),
        "C11" => refprop::run(session, &refprop::C11, "typed programs from the iterator profile (array iterators, pipelines of @ ? ? T, reducers $ $+ $* $& $| $], partition, for loops, shared stateful iterators, effectful callbacks) compared with the reference's sequence semantics incl. laziness and pull order through the tick log. Non-trivial = at least one iterator pull; distinct by program text."),
        "C12" => refprop::run(session, &refprop::C12, "typed programs from the control profile (if / match with value, type and default arms / if-set / while-set / loop / while / for nested in functions with break, continue and return at every depth) compared with the reference. plus ~270 matches without a default arm over compound types of unions (one type arm per member; tuples and structs distribute over their components, arrays, cells, functions and iterators do not): whatever the checker accepts is run on member-wise and mixed values and must run an arm. Non-trivial = a non-local exit was taken, an arm other than the first was selected, or a run-time type dispatch happened; distinct by program text."),
        "C13" => refprop::run(session, &refprop::C13, "typed programs from the cells profile (cells in bindings, aliases, closures, arrays; all 12 assignment operators incl. failing compound assignments; assignments used as expressions) compared with the reference heap: every read, every value an assignment yields, the aliasing structure of the final values and, after a run-time error, the cells the host can still reach; plus the assignment part of the operator x operand-type matrix with the verif monitor: every template over parameters whose type mentions mut, called with every catalogue value the host API admits, after which every reachable cell must hold a value of its declared type. Non-trivial = at least 2 writes with an aliased read, or a failing compound assignment; distinct by program text."),
        "C05" => c05::run(session),
        "C08" => c08::run(session),
        "C09" => c09::run(session),
        "C10" => c10::run(session),
        "C14" => c14::run(session),
        "C15" => c15::run(session),
        "C16" => c16::run(session),
        "C17" => c17::run(session),
        "C18" => c18::run(session),
        "C19" => c19::run(session),
        "C20" => c20::run(session),
        other => {
            println!("INCONCLUSIVE property={other} no check registered");
            2
        }
    }
}

pub fn replay(session: &Session, path: &Path) -> i32 {
    match session.id {
        "C01" => crate::engine::replay(session, &soundness::C01, path),
        "C02" => crate::engine::replay(session, &soundness::C02, path),
        "C03" => crate::engine::replay(session, &c03::C03, path),
        "C04" => crate::engine::replay(session, &refprop::C04, path),
        "C06" => crate::engine::replay(session, &refprop::C06, path),
        "C07" => crate::engine::replay(session, &refprop::C07, path),
        "C11" => crate::engine::replay(session, &refprop::C11, path),
        "C12" => crate::engine::replay(session, &refprop::C12, path),
        "C13" => crate::engine::replay(session, &refprop::C13, path),
        "C05" => crate::engine::replay(session, &c05::C05, path),
        "C08" => crate::engine::replay(session, &c08::C08, path),
        "C09" => crate::engine::replay(session, &c09::C09, path),
        "C10" => crate::engine::replay(session, &c10::C10, path),
        "C14" => crate::engine::replay(session, &c14::C14, path),
        "C15" => crate::engine::replay(session, &c15::C15, path),
        "C16" => crate::engine::replay(session, &c16::C16, path),
        "C17" => crate::engine::replay(session, &c17::C17, path),
        "C18" => crate::engine::replay(session, &c18::C18, path),
        "C19" => crate::engine::replay(session, &c19::C19, path),
        "C20" => crate::engine::replay(session, &c20::C20, path),
        other => {
            println!("INCONCLUSIVE property={other} no check registered");
            2
        }
    }
}

/// the property objects whose cases are decoded from tapes (used by the fuzz targets)
pub fn by_id(id: &str) -> Option<&'static dyn crate::engine::Property> {
    Some(match id {
        "C01" => &soundness::C01,
        "C02" => &soundness::C02,
        "C03" => &c03::C03,
        "C04" => &refprop::C04,
        "C05" => &c05::C05,
        "C06" => &refprop::C06,
        "C07" => &refprop::C07,
        "C08" => &c08::C08,
        "C09" => &c09::C09,
        "C10" => &c10::C10,
        "C11" => &refprop::C11,
        "C12" => &refprop::C12,
        "C13" => &refprop::C13,
        "C15" => &c15::C15,
        "C17" => &c17::C17,
        "C18" => &c18::C18,
        "C19" => &c19::C19,
        "C20" => &c20::C20,
        _ => return None,
    })
}
