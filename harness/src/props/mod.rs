//! Registry: property id -> check
use crate::engine::Session;
use std::path::Path;

pub mod c08;
pub mod c09;

pub fn run(session: &Session) -> i32 {
    match session.id {
        "C08" => c08::run(session),
        "C09" => c09::run(session),
        other => {
            println!("INCONCLUSIVE property={other} no check registered");
            2
        }
    }
}

pub fn replay(session: &Session, path: &Path) -> i32 {
    match session.id {
        "C08" => crate::engine::replay(session, &c08::C08, path),
        "C09" => crate::engine::replay(session, &c09::C09, path),
        other => {
            println!("INCONCLUSIVE property={other} no check registered");
            2
        }
    }
}
