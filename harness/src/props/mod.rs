//! Registry: property id -> check
use crate::engine::Session;
use std::path::Path;

pub mod c03;
pub mod soundness;
pub mod c08;
pub mod c09;
pub mod c10;
pub mod c14;
pub mod c15;
pub mod c16;
pub mod c18;
pub mod c19;
pub mod c20;

pub fn run(session: &Session) -> i32 {
    match session.id {
        "C01" => soundness::run(session, &soundness::C01),
        "C02" => soundness::run(session, &soundness::C02),
        "C03" => c03::run(session),
        "C08" => c08::run(session),
        "C09" => c09::run(session),
        "C10" => c10::run(session),
        "C14" => c14::run(session),
        "C15" => c15::run(session),
        "C16" => c16::run(session),
        "C18" => c18::run(session),
        "C19" => c19::run(session),
        "C20" => c20::run(session),
        other => {
            println!("INCONCLUSIVE property={other} no check registered");
            2
        }
    }
}

pub fn replay(session: &Session, path: &Path) -> i32 {
    match session.id {
        "C01" => crate::engine::replay(session, &soundness::C01, path),
        "C02" => crate::engine::replay(session, &soundness::C02, path),
        "C03" => crate::engine::replay(session, &c03::C03, path),
        "C08" => crate::engine::replay(session, &c08::C08, path),
        "C09" => crate::engine::replay(session, &c09::C09, path),
        "C10" => crate::engine::replay(session, &c10::C10, path),
        "C14" => crate::engine::replay(session, &c14::C14, path),
        "C15" => crate::engine::replay(session, &c15::C15, path),
        "C16" => crate::engine::replay(session, &c16::C16, path),
        "C18" => crate::engine::replay(session, &c18::C18, path),
        "C19" => crate::engine::replay(session, &c19::C19, path),
        "C20" => crate::engine::replay(session, &c20::C20, path),
        other => {
            println!("INCONCLUSIVE property={other} no check registered");
            2
        }
    }
}
