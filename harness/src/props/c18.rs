//! C18 — standard library functions honour their declared signatures (and, for the pure
//! helpers, what docs/stdlib.md states); file-system and input functions never raise.
use crate::{
    canon::float_bits,
    engine::{Property, Session, Stats, Verdict, fail},
    lit,
    run::{self, Outcome},
    ty::{self, Ty},
};
use serde_json::{Value as Json, json};
use simplesl::{
    Interpreter,
    function::Function,
    variable::{Typed, Variable},
};
use std::{path::PathBuf, sync::Arc, sync::OnceLock};

pub struct C18Prop;
pub static C18: C18Prop = C18Prop;

struct Export {
    path: String,
    value: Variable,
}

fn walk(prefix: &str, v: &Variable, out: &mut Vec<Export>) {
    match v {
        Variable::Struct(m) => {
            let mut keys: Vec<_> = m.keys().cloned().collect();
            keys.sort();
            for k in keys {
                walk(&format!("{prefix}.{k}"), &m[&k], out);
            }
        }
        other => out.push(Export { path: prefix.to_string(), value: other.clone() }),
    }
}

fn exports() -> &'static Vec<Export> {
    static E: OnceLock<Vec<Export>> = OnceLock::new();
    E.get_or_init(|| {
        let interp = Interpreter::with_stdlib();
        let mut out = vec![];
        if let Some(std) = interp.get_variable("std") {
            walk("std", std, &mut out);
        }
        out
    })
}

/// (path, number of parameters) of every std function that touches neither the file system nor stdin/stdout
pub fn pure_functions() -> Vec<(String, usize)> {
    exports()
        .iter()
        .filter(|e| !e.path.starts_with("std.fs") && !e.path.starts_with("std.io"))
        .filter_map(|e| match Ty::from_real(&e.value.as_type()) {
            Ty::Fun(ps, _) => Some((e.path.clone(), ps.len())),
            _ => None,
        })
        .collect()
}

fn find(path: &str) -> Option<&'static Export> {
    exports().iter().find(|e| e.path == path)
}

pub const INTS: [i64; 24] = [
    0, 1, -1, 2, 3, 7, 8, 9, 10, 99, 100, 255, 256, 1000, -8, -10, 1 << 31, (1 << 32) + 5, 1 << 62, i64::MAX, i64::MAX - 1,
    i64::MIN, i64::MIN + 1, 0x00ff_00ff_0f0f_3355,
];
pub const FLOATS: [f64; 30] = [
    0.0, -0.0, 0.5, -0.5, 1.0, -1.0, 1.5, -1.5, 2.5, -2.5, 3.5, 0.49999999999999994, 2.4, 2.6, -2.6, 1e10, 4503599627370496.5,
    9007199254740993.0, 1e19, -1e19, 9.3e18, 1e300, -1e300, 5e-324, f64::MIN_POSITIVE, f64::INFINITY, f64::NEG_INFINITY, f64::NAN,
    0.1, 1e-7,
];
pub const STRINGS: [&str; 43] = [
    "", "a", "ab", "abcabc", " a b ", "\t x\n", "\u{b}ab\u{b}", "\u{a0}nb\u{a0}", "\u{2003}em\u{3000}", "żółć", "ŻÓŁĆ", "ß", "İ",
    " 7.5", "7.5\n", "7.5\r", "\u{a0}7.5", "2.5", "-0.0", "1e300", " inf ",
    // letters whose case mapping depends on their neighbours or is longer than one scalar
    "ΟΔΟΣ", "ΣΑΣ ΟΣ.", "aΣ", "Σ", "ŉǰ", "ﬁﬂ",
    "😀x", "a,b,,c", ",", "12", "-12", "+7", " 3", "1.5e3", "nan",
    // scalars whose UTF-8 encoding has boundary lead / continuation bytes, and the replacement character as content
    "\u{fffd}", "a\u{fffd}b", "\u{80}\u{bf}", "\u{7ff}\u{800}", "\u{ffff}\u{10000}\u{10ffff}", "\u{43f}\u{ff}", "\u{d7ff}\u{e000}",
];

fn args_for(t: &Ty) -> Vec<Variable> {
    match t {
        Ty::Int => INTS.iter().map(|i| Variable::Int(*i)).collect(),
        Ty::Float => FLOATS.iter().map(|f| Variable::Float(*f)).collect(),
        Ty::Str => STRINGS.iter().map(|s| Variable::String((*s).into())).collect(),
        Ty::Bool => vec![Variable::Bool(true), Variable::Bool(false)],
        Ty::Void => vec![Variable::Void],
        Ty::Any => eval_all(&[
            "1", "\"s\"", "1.0", "2.5", "true", "()", "[1, \"a\", 2.0]", "(1, \"b\", [2.5])", "[]", "[[1.0]]", "mut 1", "struct{}", "mut \"a b\"", "mut 2.0", "mut any \"1\"", "mut any 1",
            "mut [1.5, 2.0]", "(mut 2.0, 1)", "[mut 2.0]", "mut mut 1.0", "mut (1.0, 2)", "mut \"\"", "[\"C:\\\\0ld\", \"x\"]", "(\"a\\\\0\", 1)", "[\"q\\\"uote\", \"tab\\t\", \"nul\\u{0}7\"]",
            "mut \"back\\\\0slash\"",
        ]),
        Ty::Union(ms) => ms.iter().flat_map(args_for).collect(),
        Ty::Arr(e) => match &**e {
            Ty::Int => {
                let mut out = eval_all(&[
                    "[]", "[97]", "[104, 105]", "[195, 179]", "[255]", "[195]", "[240, 159, 152, 128]", "[237, 160, 128]", "[-1]",
                    "[256]", "[353]", "[9223372036854775807]", "[0]", "[65, 0, 66]", "[192, 128]", "[226, 130]",
                    // overlong forms, beyond U+10FFFF, lone continuation bytes, the last surrogate
                    "[224, 128, 128]", "[240, 128, 128, 128]", "[244, 144, 128, 128]", "[245, 128, 128, 128]", "[128]", "[191]", "[237, 191, 191]",
                    "[97, 128]", "[239, 191]", "[239, 191, 189, 128]",
                ]);
                // the encodings of every boundary string (valid input, incl. the replacement character itself)
                for s in STRINGS {
                    out.push(Variable::from(s.as_bytes().iter().map(|b| Variable::Int(*b as i64)).collect::<Vec<_>>()));
                }
                out
            }
            _ => eval_all(&[
                "[]", "[1]", "[1, \"a\", 2.5]", "[\"x\", \"y\"]", "[[1], []]", "[(), true]", "[\"\", \"a\", \"b\"]", "[\"a\", \"\", \"b\"]", "[\"a\", \"\"]", "[\"\", \"\"]", "[\"\"]",
                "[\"\", 1, \"\", 2.5]",
            ]),
        },
        Ty::Fun(ps, r) if ps.is_empty() => {
            // iterators
            let elem = match &**r {
                Ty::Tup(ts) if ts.len() == 2 => ts[1].clone(),
                _ => Ty::Any,
            };
            match elem {
                Ty::Int => eval_all(&[
                    "[]~", "[7]~", "[12, 10, 6]~", "[-1, 9223372036854775807]~", "[0, 5]~", "[3, 3, 3, 3]~", "[9223372036854775807, 2, 0]~", "[-1, -1, -1]~",
                    "[(-9223372036854775807 - 1), -1]~", "[0, 0]~", "[1, 0, 7]~",
                ]),
                Ty::Float => eval_all(&[
                    "[]~", "[1.5]~", "[0.1, 0.2, 0.3]~", "[1e308, 1e308]~", "[2.0, 0.0, 4.0]~",
                    // a zero followed by a factor that changes it (sign, NaN), sums that cancel, NaN in the middle
                    "[0.0, -2.0]~", "[-0.0, 3.0]~", "[0.0, 1.0 / 0.0]~", "[0.0, 0.0 / 0.0]~", "[2.0, 0.0, -1.0]~", "[-0.0, -0.0]~", "[1e16, 1.0, -1e16]~",
                    "[1.0, 0.0 / 0.0, 2.0]~", "[1.0 / 0.0, -1.0 / 0.0]~", "[-0.0]~",
                ]),
                Ty::Bool => eval_all(&["[]~", "[true]~", "[false]~", "[true, false, true]~", "[false, false]~", "[true, true]~"]),
                Ty::Str => eval_all(&["[]~", "[\"a\"]~", "[\"ab\", \"\", \"ż\"]~"]),
                _ => eval_all(&["[]~", "[1]~"]),
            }
        }
        _ => vec![],
    }
}

fn eval_all(texts: &[&str]) -> Vec<Variable> {
    texts
        .iter()
        .filter_map(|t| match run::run_text(t, false) {
            Outcome::Value(v) => Some(v),
            _ => None,
        })
        .collect()
}

// ---------- naive documented semantics of the pure helpers ----------

fn naive_find(hay: &[char], pat: &[char], from: usize) -> Option<usize> {
    if pat.is_empty() {
        return Some(from);
    }
    let mut i = from;
    while i + pat.len() <= hay.len() {
        if hay[i..i + pat.len()] == *pat {
            return Some(i);
        }
        i += 1;
    }
    None
}

fn naive_split(s: &str, pat: &str) -> Vec<String> {
    let (h, p): (Vec<char>, Vec<char>) = (s.chars().collect(), pat.chars().collect());
    if p.is_empty() {
        // documented after Rust: an empty pattern matches between all characters and at both ends
        let mut out = vec![String::new()];
        out.extend(h.iter().map(|c| c.to_string()));
        out.push(String::new());
        return out;
    }
    let mut out = vec![];
    let mut start = 0;
    while let Some(i) = naive_find(&h, &p, start) {
        out.push(h[start..i].iter().collect());
        start = i + p.len();
    }
    out.push(h[start..].iter().collect());
    out
}

fn naive_replace(s: &str, from: &str, to: &str) -> String {
    let parts = naive_split(s, from);
    if from.is_empty() {
        // "" matches at every boundary: to + c1 + to + c2 ... + to
        let mut out = String::from(to);
        for c in s.chars() {
            out.push(c);
            out.push_str(to);
        }
        return out;
    }
    parts.join(to)
}

fn utf8_decode(bytes: &[u8]) -> Option<String> {
    let mut out = String::new();
    let mut i = 0;
    while i < bytes.len() {
        let b = bytes[i];
        let (len, init, min) = if b < 0x80 {
            (1, b as u32, 0)
        } else if (0xC2..=0xDF).contains(&b) {
            (2, (b & 0x1F) as u32, 0x80)
        } else if (0xE0..=0xEF).contains(&b) {
            (3, (b & 0x0F) as u32, 0x800)
        } else if (0xF0..=0xF4).contains(&b) {
            (4, (b & 0x07) as u32, 0x10000)
        } else {
            return None;
        };
        if i + len > bytes.len() {
            return None;
        }
        let mut cp = init;
        for k in 1..len {
            let c = bytes[i + k];
            if c & 0xC0 != 0x80 {
                return None;
            }
            cp = (cp << 6) | (c & 0x3F) as u32;
        }
        if cp < min || cp > 0x10FFFF || (0xD800..=0xDFFF).contains(&cp) {
            return None;
        }
        out.push(char::from_u32(cp)?);
        i += len;
    }
    Some(out)
}

fn naive_parse_int(s: &str) -> Option<i64> {
    let (neg, digits) = match s.as_bytes().first()? {
        b'-' => (true, &s[1..]),
        b'+' => (false, &s[1..]),
        _ => (false, s),
    };
    if digits.is_empty() || !digits.bytes().all(|b| b.is_ascii_digit()) {
        return None;
    }
    let mut v: i128 = 0;
    for b in digits.bytes() {
        v = v * 10 + (b - b'0') as i128;
        if v > (1i128 << 64) {
            return None;
        }
    }
    let v = if neg { -v } else { v };
    i64::try_from(v).ok()
}

fn naive_round(f: f64, ties_even: bool) -> f64 {
    if !f.is_finite() || f.abs() >= 4503599627370496.0 {
        return f;
    }
    let t = f.trunc();
    let d = (f - t).abs();
    let away = t + f.signum();
    let r = if d > 0.5 {
        away
    } else if d < 0.5 {
        t
    } else if ties_even {
        if (t as i64) % 2 == 0 { t } else { away }
    } else {
        away
    };
    if r == 0.0 { if f.is_sign_negative() { -0.0 } else { 0.0 } } else { r }
}

fn naive_ilog(mut n: i64, base: i64) -> Option<i64> {
    if n <= 0 || base < 2 {
        return None;
    }
    let mut k = 0;
    while n >= base {
        n /= base;
        k += 1;
    }
    Some(k)
}

fn render(v: &Variable, top: bool) -> Option<String> {
    // documented behaviour of to_string / print: strings bare at top level, quoted inside
    Some(match v {
        Variable::Bool(b) => b.to_string(),
        Variable::Int(i) => i.to_string(),
        Variable::Float(f) => {
            if top { format!("{f}") } else { format!("{f:?}") }
        }
        Variable::String(s) => {
            if top {
                s.to_string()
            } else if s.chars().all(|c| c == '\\' || c == '"' || c == '\n' || c == '\t' || c == '\0' || (' '..='~').contains(&c) || c.is_alphabetic()) {
                // inside a container a string is shown as the literal that denotes it (C20's subject in
                // general; here the plain cases: letters, digits, blanks, quote, backslash, \n \t \0)
                lit::escape_string(s)
            } else {
                return None;
            }
        }
        Variable::Void => "()".into(),
        Variable::Array(a) => format!("[{}]", a.iter().map(|x| render(x, false)).collect::<Option<Vec<_>>>()?.join(", ")),
        Variable::Tuple(t) => format!("({})", t.iter().map(|x| render(x, false)).collect::<Option<Vec<_>>>()?.join(", ")),
        // a cell shows its declared type and its content the way every other container shows its
        // elements (the README's `prints (4, "rgg", 56)`: the literal form)
        Variable::Mut(m) => {
            let content = m.variable.read().ok()?.clone();
            let inner = match &content {
                Variable::String(s) => lit::escape_string(s),
                other => render(other, false)?,
            };
            format!("mut {} {inner}", m.var_type)
        }
        _ => return None,
    })
}

fn int(v: &Variable) -> i64 {
    *v.as_int().unwrap()
}
fn flt(v: &Variable) -> f64 {
    *v.as_float().unwrap()
}
fn st(v: &Variable) -> &str {
    v.as_string().unwrap()
}
fn iter_items(text_args: &Variable) -> Option<Vec<Variable>> {
    // drain a *copy*: iterators are stateful, so the harness re-creates them from their arrays
    let _ = text_args;
    None
}

fn bits_of(i: i64) -> Vec<bool> {
    (0..64).map(|k| (i >> k) & 1 == 1).collect()
}

/// documented result (None = only the signature is checked)
fn documented(name: &str, a: &[Variable], items: Option<&[Variable]>) -> Option<Variable> {
    let s = |x: String| Variable::String(x.into());
    let arr_s = |xs: Vec<String>| Variable::from(xs.into_iter().map(|x| Variable::String(x.into())).collect::<Vec<_>>());
    let opt_i = |o: Option<i64>| o.map(Variable::Int).unwrap_or(Variable::Void);
    let b = Variable::Bool;
    let f = Variable::Float;
    Some(match name {
        "std.len" => match &a[0] {
            Variable::String(x) => Variable::Int(x.chars().count() as i64),
            Variable::Array(x) => Variable::Int(x.len() as i64),
            _ => return None,
        },
        "std.convert.to_float" => match &a[0] {
            Variable::Int(i) => f(*i as f64),
            Variable::Float(x) => f(*x),
            _ => return None,
        },
        "std.convert.to_int" => match &a[0] {
            Variable::Int(i) => Variable::Int(*i),
            Variable::Float(x) => Variable::Int(if x.is_nan() {
                0
            } else if *x >= 9223372036854775807.0 {
                i64::MAX
            } else if *x <= -9223372036854775808.0 {
                i64::MIN
            } else {
                x.trunc() as i64
            }),
            _ => return None,
        },
        "std.convert.parse_int" => opt_i(naive_parse_int(st(&a[0]))),
        "std.convert.parse_float" => {
            // "parses string as float": the canonical rendering of a float is read back as that float; a
            // string with blanks around it (or nothing in it) is no more a float than it is an int for
            // parse_int; other spellings are left to the implementation
            let x = st(&a[0]);
            if x.is_empty() || x.trim() != x {
                Variable::Void
            } else {
                match x.parse::<f64>() {
                    Ok(v) if format!("{v:?}") == x && v.is_finite() => f(v),
                    _ => return None,
                }
            }
        }
        // only what the documentation implies: ints, bools and () read as their literal, a string as itself
        "std.convert.to_string" => match &a[0] {
            Variable::Int(_) | Variable::Bool(_) | Variable::Void | Variable::String(_) => s(render(&a[0], true)?),
            _ => return None,
        },
        "std.string.split" => arr_s(naive_split(st(&a[0]), st(&a[1]))),
        "std.string.replace" => s(naive_replace(st(&a[0]), st(&a[1]), st(&a[2]))),
        "std.string.contains" => {
            let (h, p): (Vec<char>, Vec<char>) = (st(&a[0]).chars().collect(), st(&a[1]).chars().collect());
            b(naive_find(&h, &p, 0).is_some())
        }
        "std.string.starts_with" => {
            let (h, p): (Vec<char>, Vec<char>) = (st(&a[0]).chars().collect(), st(&a[1]).chars().collect());
            b(h.len() >= p.len() && h[..p.len()] == p[..])
        }
        "std.string.ends_with" => {
            let (h, p): (Vec<char>, Vec<char>) = (st(&a[0]).chars().collect(), st(&a[1]).chars().collect());
            b(h.len() >= p.len() && h[h.len() - p.len()..] == p[..])
        }
        "std.string.chars" => arr_s(st(&a[0]).chars().map(|c| c.to_string()).collect()),
        "std.string.bytes" => Variable::from(st(&a[0]).as_bytes().iter().map(|x| Variable::Int(*x as i64)).collect::<Vec<_>>()),
        "std.string.str_from_utf8" => {
            let arr = a[0].as_array()?;
            if arr.iter().any(|x| !(0..=255).contains(&int(x))) {
                return None; // values that are not bytes: the documentation is silent
            }
            let bytes: Vec<u8> = arr.iter().map(|x| int(x) as u8).collect();
            utf8_decode(&bytes).map(s).unwrap_or(Variable::Void)
        }
        "std.string.str_from_utf8_lossy" => {
            let arr = a[0].as_array()?;
            if arr.iter().any(|x| !(0..=255).contains(&int(x))) {
                return None;
            }
            let bytes: Vec<u8> = arr.iter().map(|x| int(x) as u8).collect();
            s(utf8_decode(&bytes)?) // only the valid case is specified precisely
        }
        "std.string.to_lowercase" | "std.string.to_uppercase" => {
            let x = st(&a[0]);
            if !x.is_ascii() {
                // beyond ASCII the "lowercase equivalent of the string" is the Unicode mapping of the whole
                // string (context-sensitive: a word-final capital sigma; one-to-many: the sharp s), for which
                // the platform's tables are the reference
                return Some(s(if name.ends_with("lowercase") { x.to_lowercase() } else { x.to_uppercase() }));
            }
            s(x.chars()
                .map(|c| if name.ends_with("lowercase") { c.to_ascii_lowercase() } else { c.to_ascii_uppercase() })
                .collect())
        }
        "std.string.trim" | "std.string.trim_start" | "std.string.trim_end" => {
            let cs: Vec<char> = st(&a[0]).chars().collect();
            let (mut lo, mut hi) = (0, cs.len());
            if !name.ends_with("_end") {
                while lo < hi && cs[lo].is_whitespace() {
                    lo += 1;
                }
            }
            if !name.ends_with("_start") {
                while hi > lo && cs[hi - 1].is_whitespace() {
                    hi -= 1;
                }
            }
            s(cs[lo..hi].iter().collect())
        }
        "std.math.count_ones" => Variable::Int(bits_of(int(&a[0])).iter().filter(|x| **x).count() as i64),
        "std.math.count_zeros" => Variable::Int(bits_of(int(&a[0])).iter().filter(|x| !**x).count() as i64),
        "std.math.leading_zeroes" | "std.math.leading_zeros" => {
            Variable::Int(bits_of(int(&a[0])).iter().rev().take_while(|x| !**x).count() as i64)
        }
        "std.math.trailing_zeroes" | "std.math.trailing_zeros" => {
            Variable::Int(bits_of(int(&a[0])).iter().take_while(|x| !**x).count() as i64)
        }
        "std.math.leading_ones" => Variable::Int(bits_of(int(&a[0])).iter().rev().take_while(|x| **x).count() as i64),
        "std.math.trailing_ones" => Variable::Int(bits_of(int(&a[0])).iter().take_while(|x| **x).count() as i64),
        "std.math.swap_bytes" => {
            let mut x = int(&a[0]).to_le_bytes();
            x.reverse();
            Variable::Int(i64::from_le_bytes(x))
        }
        "std.math.reverse_bits" => {
            let bits = bits_of(int(&a[0]));
            let mut r: u64 = 0;
            for (k, bit) in bits.iter().enumerate() {
                if *bit {
                    r |= 1 << (63 - k);
                }
            }
            Variable::Int(r as i64)
        }
        "std.math.ilog" => opt_i(naive_ilog(int(&a[0]), int(&a[1]))),
        "std.math.ilog2" => opt_i(naive_ilog(int(&a[0]), 2)),
        "std.math.ilog10" => opt_i(naive_ilog(int(&a[0]), 10)),
        "std.math.floor" => {
            let x = flt(&a[0]);
            f(if !x.is_finite() || x.abs() >= 4503599627370496.0 {
                x
            } else {
                let t = x.trunc();
                let r = if x < t { t - 1.0 } else { t };
                if r == 0.0 && x.is_sign_negative() { -0.0 } else { r }
            })
        }
        "std.math.ceil" => {
            let x = flt(&a[0]);
            f(if !x.is_finite() || x.abs() >= 4503599627370496.0 {
                x
            } else {
                let t = x.trunc();
                let r = if x > t { t + 1.0 } else { t };
                if r == 0.0 && x.is_sign_negative() { -0.0 } else { r }
            })
        }
        "std.math.round" => f(naive_round(flt(&a[0]), false)),
        "std.math.round_ties_even" => f(naive_round(flt(&a[0]), true)),
        "std.math.trunc" => {
            let x = flt(&a[0]);
            f(if !x.is_finite() || x.abs() >= 9.3e18 {
                x
            } else {
                let r = (x as i64) as f64;
                if r == 0.0 && x.is_sign_negative() { -0.0 } else { r }
            })
        }
        "std.math.fract" => {
            let x = flt(&a[0]);
            if !x.is_finite() || x.abs() >= 9.3e18 {
                return None;
            }
            let r = x - ((x as i64) as f64);
            if r == 0.0 {
                return None; // the sign of a zero fractional part is not documented
            }
            f(r)
        }
        "std.math.is_nan" => b(flt(&a[0]) != flt(&a[0])),
        "std.math.is_infinite" => b(flt(&a[0]) == f64::INFINITY || flt(&a[0]) == f64::NEG_INFINITY),
        "std.math.is_finite" => b(flt(&a[0]).abs() < f64::INFINITY),
        "std.math.is_subnormal" => b(flt(&a[0]) != 0.0 && flt(&a[0]).abs() < f64::MIN_POSITIVE),
        "std.math.is_normal" => b(flt(&a[0]).abs() >= f64::MIN_POSITIVE && flt(&a[0]).abs() < f64::INFINITY),
        "std.math.is_sign_positive" => b(flt(&a[0]).to_bits() >> 63 == 0),
        "std.math.is_sign_negative" => b(flt(&a[0]).to_bits() >> 63 == 1),
        "std.math.to_bits" => Variable::Int(flt(&a[0]).to_bits() as i64),
        "std.math.from_bits" => f(f64::from_bits(int(&a[0]) as u64)),
        // the remaining float functions are compared with the platform's libm (detects swapped functions)
        "std.math.ln" => f(flt(&a[0]).ln()),
        "std.math.log" => f(flt(&a[0]).log(flt(&a[1]))),
        "std.math.log2" => f(flt(&a[0]).log2()),
        "std.math.log10" => f(flt(&a[0]).log10()),
        "std.math.sin" => f(flt(&a[0]).sin()),
        "std.math.cos" => f(flt(&a[0]).cos()),
        "std.math.tan" => f(flt(&a[0]).tan()),
        "std.math.asin" => f(flt(&a[0]).asin()),
        "std.math.acos" => f(flt(&a[0]).acos()),
        "std.math.atan" => f(flt(&a[0]).atan()),
        "std.math.atan2" => f(flt(&a[0]).atan2(flt(&a[1]))),
        "std.math.exp_m1" => f(flt(&a[0]).exp_m1()),
        "std.math.ln_1p" => f(flt(&a[0]).ln_1p()),
        "std.math.sinh" => f(flt(&a[0]).sinh()),
        "std.math.cosh" => f(flt(&a[0]).cosh()),
        "std.math.tanh" => f(flt(&a[0]).tanh()),
        "std.math.asinh" => f(flt(&a[0]).asinh()),
        "std.math.acosh" => f(flt(&a[0]).acosh()),
        "std.math.atanh" => f(flt(&a[0]).atanh()),
        // iterator reducers: the documented folds over the items the iterator was built from
        "std.operators.int_sum" => Variable::Int(items?.iter().fold(0i64, |acc, x| acc.wrapping_add(int(x)))),
        "std.operators.int_product" => Variable::Int(items?.iter().fold(1i64, |acc, x| acc.wrapping_mul(int(x)))),
        "std.operators.float_sum" => f(items?.iter().fold(0.0, |acc, x| acc + flt(x))),
        "std.operators.float_product" => f(items?.iter().fold(1.0, |acc, x| acc * flt(x))),
        "std.operators.string_sum" => s(items?.iter().map(|x| st(x).to_string()).collect()),
        "std.operators.bitand_reduce" => Variable::Int(items?.iter().fold(-1i64, |acc, x| acc & int(x))),
        "std.operators.bitor_reduce" => Variable::Int(items?.iter().fold(0i64, |acc, x| acc | int(x))),
        "std.operators.all" => b(items?.iter().all(|x| *x.as_bool().unwrap())),
        "std.operators.any" => b(items?.iter().any(|x| *x.as_bool().unwrap())),
        _ => return None,
    })
}

fn same_value(a: &Variable, b: &Variable) -> bool {
    match (a, b) {
        (Variable::Float(x), Variable::Float(y)) => float_bits(*x) == float_bits(*y),
        _ => lit::from_var(a).is_some() && lit::from_var(a) == lit::from_var(b),
    }
}

fn invoke(f: &Arc<Function>, args: Vec<Variable>) -> Outcome {
    run::default_budget();
    match run::guarded(|| f.clone().create_call(args)) {
        Ok(Ok(code)) => run::exec_guarded(&code),
        Ok(Err(e)) => Outcome::Rejected(run::error_kind(&e)),
        Err(c) => Outcome::Panic { phase: "create_call", msg: format!("{c:?}"), loc: c.sig() },
    }
}

fn product(pools: &[Vec<Variable>], cap: usize) -> Vec<Vec<Variable>> {
    let mut out: Vec<Vec<Variable>> = vec![vec![]];
    for p in pools {
        let mut next = vec![];
        for prefix in &out {
            for v in p {
                let mut x = prefix.clone();
                x.push(v.clone());
                next.push(x);
                if next.len() >= cap {
                    break;
                }
            }
        }
        out = next;
    }
    out
}

fn is_boundary(args: &[Variable]) -> bool {
    args.iter().any(|a| match a {
        Variable::Int(i) => *i <= 0 || *i >= (1 << 31),
        Variable::Float(f) => !f.is_normal() || f.fract() == 0.5 || f.abs() >= 1e15,
        Variable::String(s) => s.is_empty() || !s.is_ascii() || s.starts_with(char::is_whitespace),
        Variable::Array(a) => a.is_empty() || a.iter().any(|x| x.as_int().is_some_and(|i| !(0..128).contains(i))),
        Variable::Function(_) => true,
        _ => false,
    })
}

impl Property for C18Prop {
    fn id(&self) -> &'static str {
        "C18"
    }

    fn gen_case(&self, tape: &mut crate::tape::Tape, _tier: crate::engine::Tier) -> Option<Json> {
        // random arguments for a random pure export
        let candidates: Vec<&Export> = exports()
            .iter()
            .filter(|e| matches!(e.value, Variable::Function(_)) && !e.path.starts_with("std.fs.") && !e.path.starts_with("std.io."))
            .collect();
        let e = candidates[tape.below(candidates.len())];
        let Variable::Function(f) = &e.value else { return None };
        let Ty::Fun(params, _) = Ty::from_real(&f.as_type()) else { return None };
        let mut args = vec![];
        for p in &params {
            args.push(random_arg(tape, p)?);
        }
        Some(json!({"kind": "call", "path": e.path, "args": args}))
    }

    fn check_case(&self, case: &Json, stats: &mut Stats) -> Verdict {
        match case["kind"].as_str().unwrap_or("") {
            "pure" => check_pure(case["path"].as_str().unwrap_or(""), stats),
            "call" => check_call(case, stats),
            "constant" => check_constant(case["path"].as_str().unwrap_or(""), stats),
            "fs" => check_fs(case, stats),
            "stdin" => check_stdin(case, stats),
            "stdout-fault" => check_stdout_fault(case, stats),
            _ => Verdict::Discard("unknown kind"),
        }
    }
}

fn random_arg(tape: &mut crate::tape::Tape, t: &Ty) -> Option<Json> {
    Some(match t {
        Ty::Int => match tape.weighted(&[2, 2, 2]) {
            0 => json!(tape.range(-300, 300)),
            1 => {
                let p = tape.range(0, 63);
                json!((if p == 63 { i64::MIN } else { 1i64 << p }).wrapping_add(tape.range(-2, 2)))
            }
            _ => json!(tape.u64() as i64),
        },
        Ty::Float => lit::float(match tape.weighted(&[2, 2, 2]) {
            0 => tape.range(-2000, 2000) as f64 / 8.0,
            1 => (tape.range(-1000, 1000) as f64) * 10f64.powi(tape.range(-320, 308) as i32),
            _ => f64::from_bits(tape.u64()),
        }),
        Ty::Str => {
            const CS: [char; 16] = ['a', 'b', ' ', ',', '1', '-', '+', '.', 'e', 'ż', 'Ż', '\u{a0}', '\t', '\n', '😀', 'ß'];
            let n = tape.below(9);
            json!((0..n).map(|_| *tape.pick(&CS)).collect::<String>())
        }
        Ty::Bool => json!(tape.bool()),
        Ty::Union(ms) => {
            let m = ms[tape.below(ms.len())].clone();
            random_arg(tape, &m)?
        }
        Ty::Arr(e) if **e == Ty::Int && tape.chance(1, 3) => {
            // the encoding of a string over ordinary and boundary scalars, now and then with one byte changed
            const CS: [char; 12] = ['a', 'ż', '😀', '\u{80}', '\u{bf}', '\u{7ff}', '\u{800}', '\u{fffd}', '\u{ffff}', '\u{10000}', '\u{10ffff}', '\u{43f}'];
            let n = tape.below(4);
            let text: String = (0..n).map(|_| *tape.pick(&CS)).collect();
            let mut bytes: Vec<i64> = text.as_bytes().iter().map(|b| *b as i64).collect();
            if !bytes.is_empty() && tape.chance(1, 3) {
                let k = tape.below(bytes.len());
                bytes[k] = tape.range(0, 255);
            }
            json!(bytes)
        }
        Ty::Arr(e) if **e == Ty::Int => {
            let n = tape.below(7);
            Json::Array((0..n).map(|_| if tape.chance(1, 8) { json!(tape.range(-300, 600)) } else { json!(tape.range(0, 255)) }).collect())
        }
        Ty::Arr(_) => {
            let n = tape.below(4);
            Json::Array((0..n).map(|_| if tape.bool() { json!(tape.range(-5, 5)) } else { json!("s") }).collect())
        }
        Ty::Any => {
            if tape.bool() { json!(tape.range(-5, 5)) } else { json!([1, "a"]) }
        }
        _ => return None,
    })
}

fn check_call(case: &Json, stats: &mut Stats) -> Verdict {
    let path = case["path"].as_str().unwrap_or("");
    let Some(e) = find(path) else {
        return Verdict::Discard("not exported");
    };
    let Variable::Function(f) = &e.value else {
        return Verdict::Discard("not a function");
    };
    let Ty::Fun(_, ret) = Ty::from_real(&f.as_type()) else {
        return Verdict::Discard("type");
    };
    let args: Vec<Variable> = case["args"].as_array().map(|a| a.iter().map(lit::to_var).collect()).unwrap_or_default();
    let shown = format!("{args:?}");
    stats.eval();
    stats.label("random-argument calls");
    if is_boundary(&args) {
        stats.nontrivial(&format!("{path}{shown}"));
    }
    let expected = run::guarded(|| documented(path, &args, None)).ok().flatten();
    match invoke(f, args) {
        Outcome::Value(v) => {
            if let Some(why) = ty::not_inhabits(&v, &ret, 0) {
                return fail(format!("C18:result-type:{path}"), format!("{path}{shown}: {why}"));
            }
            if let Some(x) = expected
                && !same_value(&v, &x)
            {
                return fail(format!("C18:documented:{path}"), format!("{path}{shown} returned {}, documented result {}", ty::show(&v), ty::show(&x)));
            }
            Verdict::Pass
        }
        o => fail(format!("C18:raised:{path}:{}", o.panic_sig().unwrap_or_else(|| "error".into())), format!("{path}{shown}: {}", o.short())),
    }
}

fn check_constant(path: &str, stats: &mut Stats) -> Verdict {
    let Some(e) = find(path) else {
        return fail("C18:missing", format!("{path} is not exported"));
    };
    stats.eval();
    stats.nontrivial(path);
    stats.label("constant");
    let expected = match path {
        "std.math.MIN_INT" => Some(Variable::Int(i64::MIN)),
        "std.math.MAX_INT" => Some(Variable::Int(i64::MAX)),
        "std.math.E" => Some(Variable::Float(std::f64::consts::E)),
        "std.math.PI" => Some(Variable::Float(std::f64::consts::PI)),
        _ => None,
    };
    if let Some(x) = expected
        && !same_value(&e.value, &x)
    {
        return fail(format!("C18:constant:{path}"), format!("{path} = {:?}, documented {:?}", e.value, x));
    }
    // the static type of the constant as a program
    if let Ok(Ok((code, t))) = run::parse_type(path, true)
        && let Outcome::Value(v) = run::exec_guarded(&code)
        && let Some(why) = ty::not_inhabits(&v, &Ty::from_real(&t), 0)
    {
        return fail(format!("C18:constant-type:{path}"), why);
    }
    Verdict::Pass
}

fn check_pure(path: &str, stats: &mut Stats) -> Verdict {
    let Some(e) = find(path) else {
        return fail("C18:missing", format!("{path} is not exported"));
    };
    let Variable::Function(f) = &e.value else {
        return Verdict::Discard("not a function");
    };
    let Ty::Fun(params, ret) = Ty::from_real(&f.as_type()) else {
        return Verdict::Discard("not a function type");
    };
    let iterator_arg = matches!(params.first(), Some(Ty::Fun(ps, _)) if ps.is_empty());
    // iterators are stateful: remember the items each one was built from
    let iter_sources: Vec<(&str, Vec<Variable>)> = if iterator_arg {
        let elem = match &params[0] {
            Ty::Fun(_, r) => match &**r {
                Ty::Tup(ts) => ts[1].clone(),
                _ => Ty::Any,
            },
            _ => Ty::Any,
        };
        let texts: &[&str] = match elem {
            Ty::Int => &[
                "[]", "[7]", "[12, 10, 6]", "[-1, 9223372036854775807]", "[0, 5]", "[3, 3, 3, 3]", "[2, 4611686018427387904, 3]", "[9223372036854775807, 2, 0]", "[-1, -1, -1]",
                "[(-9223372036854775807 - 1), -1]", "[0, 0]", "[1, 0, 7]",
            ],
            // (a zero followed by a factor that changes it - sign, NaN -, sums that cancel, NaN in the middle)
            Ty::Float => &[
                "[]", "[1.5]", "[0.1, 0.2, 0.3]", "[1e308, 1e308]", "[2.0, 0.0, 4.0]", "[-0.0]", "[0.0, -2.0]", "[-0.0, 3.0]", "[0.0, 1.0 / 0.0]", "[0.0, 0.0 / 0.0]",
                "[2.0, 0.0, -1.0]", "[-0.0, -0.0]", "[1e16, 1.0, -1e16]", "[1.0, 0.0 / 0.0, 2.0]", "[1.0 / 0.0, -1.0 / 0.0]",
            ],
            Ty::Bool => &["[]", "[true]", "[false]", "[true, false, true]", "[false, false]", "[true, true]", "[false, true]"],
            Ty::Str => &["[]", "[\"a\"]", "[\"ab\", \"\", \"ż\"]"],
            _ => &["[]"],
        };
        texts
            .iter()
            .filter_map(|t| match run::run_text(t, false) {
                Outcome::Value(Variable::Array(a)) => Some((*t, a.iter().cloned().collect())),
                _ => None,
            })
            .collect()
    } else {
        vec![]
    };
    let arg_lists: Vec<(Vec<Variable>, Option<Vec<Variable>>)> = if iterator_arg {
        iter_sources
            .iter()
            .filter_map(|(t, items)| match run::run_text(&format!("{t}~"), false) {
                Outcome::Value(it) => Some((vec![it], Some(items.clone()))),
                _ => None,
            })
            .collect()
    } else {
        let pools: Vec<Vec<Variable>> = params.iter().map(args_for).collect();
        if pools.iter().any(Vec::is_empty) && !params.is_empty() {
            return Verdict::Discard("no argument generator for a parameter type");
        }
        product(&pools, 12_000).into_iter().map(|a| (a, None)).collect()
    };
    let _ = iter_items;
    let quiet = path.starts_with("std.io.print");
    let mut capture = quiet.then(Capture::new);
    for (args, items) in arg_lists {
        stats.eval();
        let shown = format!("{args:?}");
        if is_boundary(&args) {
            stats.nontrivial(&format!("{path}{shown}"));
        }
        // (arguments outside the domain of the harness's own model - a declared type that admits more than the
        // documented one - get no model answer; the call itself is still made and judged)
        let expected = run::guarded(|| documented(path, &args, items.as_deref())).ok().flatten();
        let mut printed_want: Option<String> = None;
        if let Some(c) = &mut capture {
            let _ = c.take();
        }
        let o = invoke(f, args.clone());
        if let Some(c) = &mut capture {
            // what reached stdout: the documented text (top-level rendering, elements joined by the
            // separator) and a line end
            let printed = c.take();
            let want = match path {
                "std.io.print" => render(&args[0], true),
                "std.io.print_array" => match (&args[0], &args[1]) {
                    (Variable::Array(a), Variable::String(sep)) => a.iter().map(|x| render(x, true)).collect::<Option<Vec<_>>>().map(|xs| xs.join(sep)),
                    _ => None,
                },
                _ => None,
            };
            if let Some(want) = want {
                stats.label("printed text compared with the documented text");
                if printed != format!("{want}\n") {
                    return fail(format!("C18:printed:{path}"), format!("{path}{shown} printed {printed:?}, documented output {:?}", format!("{want}\n")));
                }
                printed_want = Some(format!("{want}\n"));
            }
        }
        match &o {
            Outcome::Value(v) => {
                if let Some(why) = ty::not_inhabits(v, &ret, 0) {
                    return fail(format!("C18:result-type:{path}"), format!("{path}{shown} returned a value outside its declared result type: {why}"));
                }
                if let Some(x) = &expected {
                    stats.label("compared with the documented result");
                    if !same_value(v, x) {
                        return fail(
                            format!("C18:documented:{path}"),
                            format!("{path}{shown} returned {}, documented result {}", ty::show(v), ty::show(x)),
                        );
                    }
                }
            }
            other => {
                return fail(
                    format!("C18:raised:{path}:{}", other.panic_sig().unwrap_or_else(|| "error".into())),
                    format!("{path}{shown}: {}", other.short()),
                );
            }
        }
        stats.sample(6, || json!({"call": format!("{path}{shown}"), "result": o.short()}));
        // the same call written in the language (first-order arguments only)
        if !iterator_arg
            && let Some(texts) = args.iter().map(|a| lit::from_var(a).map(|m| lit::to_text(&m))).collect::<Option<Vec<_>>>()
            && !args.iter().any(|a| matches!(a, Variable::Float(f) if f.is_nan()))
        {
            stats.eval();
            let program = format!("{path}({})", texts.join(", "));
            let result = run::run_text(&program, true);
            if let (Some(c), Some(want)) = (&mut capture, &printed_want) {
                let printed = c.take();
                if printed != *want {
                    return fail(format!("C18:printed:{path}:language"), format!("`{program}` printed {printed:?}, documented output {want:?}"));
                }
            }
            match result {
                Outcome::Value(v) => {
                    if let Outcome::Value(w) = &o
                        && !same_value(&v, w)
                        && lit::from_var(&v).is_some()
                    {
                        return fail(
                            format!("C18:language-vs-host:{path}"),
                            format!("`{program}` gives {} but the host call gives {}", ty::show(&v), ty::show(w)),
                        );
                    }
                }
                other => return fail(format!("C18:raised:{path}:language"), format!("`{program}`: {}", other.short())),
            }
        }
    }
    stats.label(&format!("exports exercised: {}", path.split('.').nth(1).unwrap_or("?")));
    Verdict::Pass
}

// ---------- redirection of the process's stdout / stdin (print*, cgetline) ----------

pub(crate) struct Capture {
    saved: i32,
    file: PathBuf,
}

impl Capture {
    pub(crate) fn new() -> Self {
        use std::io::Write;
        let _ = std::io::stdout().flush();
        let file = scratch().join("stdout");
        let c = std::ffi::CString::new(file.to_string_lossy().as_bytes()).expect("path");
        unsafe {
            let saved = libc::dup(1);
            let fd = libc::open(c.as_ptr(), libc::O_WRONLY | libc::O_CREAT | libc::O_TRUNC | libc::O_APPEND, 0o600);
            libc::dup2(fd, 1);
            libc::close(fd);
            Capture { saved, file }
        }
    }

    /// what was written to stdout since the last call
    pub(crate) fn take(&mut self) -> String {
        use std::io::Write;
        let _ = std::io::stdout().flush();
        let text = std::fs::read(&self.file).map(|b| String::from_utf8_lossy(&b).into_owned()).unwrap_or_default();
        unsafe {
            libc::ftruncate(1, 0);
        }
        text
    }
}

impl Drop for Capture {
    fn drop(&mut self) {
        use std::io::Write;
        let _ = std::io::stdout().flush();
        unsafe {
            libc::dup2(self.saved, 1);
            libc::close(self.saved);
        }
    }
}

pub(crate) fn scratch() -> &'static PathBuf {
    static DIR: OnceLock<PathBuf> = OnceLock::new();
    DIR.get_or_init(|| {
        let dir = std::env::temp_dir().join(format!("vcheck-c18-{}", std::process::id()));
        let _ = std::fs::remove_dir_all(&dir);
        std::fs::create_dir_all(&dir).expect("scratch");
        dir
    })
}

/// child side of the stdout fault states: this process's stdout was opened by the parent on
/// something that refuses writes. Every function of std.io except cgetline is called on (a capped
/// product of) its argument pools through the host API, and a program prints in between other
/// work; each call must return a value of its declared result type. Reports go to stderr.
pub fn child(_mode: &str) -> i32 {
    let mut calls = 0u64;
    let mut failures = 0u64;
    for e in exports() {
        if !e.path.starts_with("std.io.") || e.path == "std.io.cgetline" {
            continue;
        }
        let Variable::Function(f) = &e.value else { continue };
        let Ty::Fun(params, ret) = Ty::from_real(&f.as_type()) else { continue };
        let pools: Vec<Vec<Variable>> = params.iter().map(args_for).collect();
        if pools.iter().any(Vec::is_empty) && !params.is_empty() {
            continue;
        }
        for args in product(&pools, 300) {
            calls += 1;
            let shown = format!("{args:?}");
            match invoke(f, args) {
                Outcome::Value(v) => {
                    if let Some(why) = ty::not_inhabits(&v, &ret, 0) {
                        failures += 1;
                        eprintln!("FAIL\t{}\tresult-type\t{}{shown}: {why}", e.path, e.path);
                    }
                }
                other => {
                    failures += 1;
                    eprintln!("FAIL\t{}\traised\t{}{} ended with {}", e.path, e.path, shown.chars().take(200).collect::<String>(), other.short().replace('\n', " "));
                    break;
                }
            }
        }
    }
    for (program, want) in [
        ("std.io.print(1); std.io.print_array([1, 2], \", \"); 5", "5"),
        ("n := mut 0; for x in [1, 2, 3]~ { std.io.print(x); n += x; }; *n", "6"),
        ("f := (s: string) -> int { std.io.print(s); return std.len(s); }; f(\"abc\") + f(\"\")", "3"),
    ] {
        calls += 1;
        match run::run_text(program, true) {
            Outcome::Value(v) if ty::show(&v) == want => {}
            other => {
                failures += 1;
                eprintln!("FAIL\tprogram\traised\t`{program}` ended with {} (expected the value {want})", other.short().replace('\n', " "));
            }
        }
    }
    eprintln!("CALLS\t{calls}");
    if failures > 0 { 1 } else { 0 }
}

/// The print functions with a stdout that cannot be written: a full device, a pipe whose reader is
/// gone, a closed descriptor. The calls run in a child process of the harness whose stdout is that.
fn check_stdout_fault(case: &Json, stats: &mut Stats) -> Verdict {
    use std::process::{Command, Stdio};
    let mode = case["mode"].as_str().unwrap_or("full");
    let mut cmd = Command::new("/proc/self/exe");
    cmd.args(["C18", "child", mode]).stdin(Stdio::null()).stderr(Stdio::piped());
    match mode {
        "full" => match std::fs::OpenOptions::new().write(true).open("/dev/full") {
            Ok(f) => {
                cmd.stdout(f);
            }
            Err(_) => return Verdict::Discard("/dev/full cannot be opened"),
        },
        "read-only" => match std::fs::File::open("/dev/null") {
            // a descriptor opened for reading only: every write fails with EBADF
            Ok(f) => {
                cmd.stdout(f);
            }
            Err(_) => return Verdict::Discard("/dev/null cannot be opened"),
        },
        _ => {
            cmd.stdout(Stdio::piped());
        }
    }
    let Ok(mut child) = cmd.spawn() else {
        return Verdict::Inconclusive("child process did not start");
    };
    // broken pipe: the reading end is closed before the child writes anything of substance
    drop(child.stdout.take());
    let Ok(out) = child.wait_with_output() else {
        return Verdict::Inconclusive("child process did not finish");
    };
    let report = String::from_utf8_lossy(&out.stderr).to_string();
    let calls: u64 = report.lines().find_map(|l| l.strip_prefix("CALLS\t")).and_then(|n| n.trim().parse().ok()).unwrap_or(0);
    stats.evals(calls);
    stats.label(&format!("stdout fault state: {mode}"));
    stats.nontrivial(&format!("stdout fault {mode}"));
    if let Some(line) = report.lines().find(|l| l.starts_with("FAIL\t")) {
        let parts: Vec<&str> = line.splitn(4, '\t').collect();
        let (path, what, msg) = (parts.get(1).copied().unwrap_or("?"), parts.get(2).copied().unwrap_or("raised"), parts.get(3).copied().unwrap_or(line));
        return fail(format!("C18:{what}:{path}:stdout-unwritable"), format!("with a stdout that cannot be written ({mode}): {msg}"));
    }
    if calls == 0 {
        // the child died before reporting (an abort is not a panic the guard can catch)
        if report.contains("INCONCLUSIVE") {
            return Verdict::Inconclusive("child watchdog");
        }
        return fail("C18:raised:std.io:stdout-unwritable", format!("with a stdout that cannot be written ({mode}) the process calling the print functions ended with {:?} before finishing: {}", out.status.code(), report.chars().take(300).collect::<String>()));
    }
    stats.sample(3, || json!({"stdout": mode, "calls_that_returned": calls}));
    Verdict::Pass
}

fn check_stdin(case: &Json, stats: &mut Stats) -> Verdict {
    let Some(e) = find("std.io.cgetline") else {
        return Verdict::Discard("cgetline not exported");
    };
    let Variable::Function(f) = &e.value else {
        return Verdict::Discard("not a function");
    };
    let bytes: Vec<u8> = case["bytes"].as_array().unwrap().iter().map(|b| b.as_u64().unwrap() as u8).collect();
    let file = scratch().join("stdin");
    std::fs::write(&file, &bytes).expect("stdin file");
    let Ty::Fun(_, ret) = Ty::from_real(&f.as_type()) else {
        return Verdict::Discard("type");
    };
    stats.eval();
    stats.nontrivial(&format!("stdin {bytes:?}"));
    stats.label("cgetline with generated stdin");
    let outcome = unsafe {
        let saved = libc::dup(0);
        let path = std::ffi::CString::new(file.to_str().unwrap()).unwrap();
        let fd = libc::open(path.as_ptr(), libc::O_RDONLY);
        libc::dup2(fd, 0);
        libc::close(fd);
        let o = invoke(f, vec![]);
        libc::dup2(saved, 0);
        libc::close(saved);
        o
    };
    match &outcome {
        Outcome::Value(v) => {
            if let Some(why) = ty::not_inhabits(v, &ret, 0) {
                return fail("C18:result-type:std.io.cgetline", format!("cgetline with stdin {bytes:?}: {why}"));
            }
            // documented: the contents of the line, with the newline character removed
            if let Ok(text) = std::str::from_utf8(&bytes) {
                let line = text.strip_suffix('\n').unwrap_or(text);
                if !text[..text.len().saturating_sub(1)].contains('\n')
                    && !matches!(v, Variable::String(s) if s.as_ref() == line)
                {
                    return fail("C18:documented:std.io.cgetline", format!("cgetline with stdin {text:?} returned {}", ty::show(v)));
                }
            } else if matches!(v, Variable::String(_)) {
                return fail("C18:documented:std.io.cgetline", format!("cgetline returned a string for invalid UTF-8 input {bytes:?}"));
            }
        }
        o => return fail("C18:raised:std.io.cgetline", format!("cgetline with stdin {bytes:?}: {}", o.short())),
    }
    stats.sample(2, || json!({"stdin_bytes": bytes, "result": outcome.short()}));
    Verdict::Pass
}

// ---------- file system: differential against std::fs on a twin directory ----------

pub(crate) fn build_state(root: &std::path::Path) {
    let _ = std::fs::remove_dir_all(root);
    std::fs::create_dir_all(root.join("dir/sub")).unwrap();
    std::fs::create_dir_all(root.join("empty")).unwrap();
    std::fs::write(root.join("file"), "content").unwrap();
    std::fs::write(root.join("dir/inner"), "inner").unwrap();
    std::fs::write(root.join("binary"), [0xffu8, 0xfe, 0x00]).unwrap();
    std::fs::write(root.join("occupied"), "x").unwrap();
}

fn snapshot(root: &std::path::Path) -> Vec<String> {
    fn rec(dir: &std::path::Path, root: &std::path::Path, out: &mut Vec<String>) {
        let Ok(rd) = std::fs::read_dir(dir) else {
            return;
        };
        for e in rd.flatten() {
            let p = e.path();
            let rel = p.strip_prefix(root).unwrap().to_string_lossy().to_string();
            if p.is_dir() {
                out.push(format!("{rel}/"));
                rec(&p, root, out);
            } else {
                out.push(format!("{rel}={:?}", std::fs::read(&p).unwrap_or_default()));
            }
        }
    }
    let mut out = vec![];
    rec(root, root, &mut out);
    out.sort();
    out
}

pub(crate) const FS_PATHS: [&str; 14] = [
    "file", "missing", "dir", "empty", "dir/inner", "dir/sub", "file/below", "missing/below", "occupied", "binary", "new/deep/er",
    "", "nul\0byte", "dir/../file",
];

fn reference_fs(op: &str, a: &std::path::Path, b: &std::path::Path, contents: &str) -> std::io::Result<Option<String>> {
    use std::fs;
    Ok(match op {
        "file_read_to_string" => Some(fs::read_to_string(a)?),
        "write_to_file" => {
            fs::write(a, contents)?;
            None
        }
        "copy_file" => {
            fs::copy(a, b)?;
            None
        }
        "remove_file" => {
            fs::remove_file(a)?;
            None
        }
        "remove_dir" => {
            fs::remove_dir(a)?;
            None
        }
        "remove_dir_all" => {
            fs::remove_dir_all(a)?;
            None
        }
        "create_dir" => {
            fs::create_dir(a)?;
            None
        }
        "create_dir_all" => {
            fs::create_dir_all(a)?;
            None
        }
        "rename" => {
            fs::rename(a, b)?;
            None
        }
        _ => unreachable!(),
    })
}

fn check_fs(case: &Json, stats: &mut Stats) -> Verdict {
    let op = case["op"].as_str().unwrap();
    let (pa, pb) = (case["a"].as_str().unwrap(), case["b"].as_str().unwrap_or(""));
    let contents = case["contents"].as_str().unwrap_or("");
    let path = format!("std.fs.{op}");
    let Some(e) = find(&path) else {
        return Verdict::Discard("fs function not exported under this name");
    };
    let Variable::Function(f) = &e.value else {
        return Verdict::Discard("not a function");
    };
    let Ty::Fun(params, ret) = Ty::from_real(&f.as_type()) else {
        return Verdict::Discard("type");
    };
    let thread = std::thread::current().name().unwrap_or("t").to_string();
    let real = scratch().join(format!("{thread}-real"));
    let twin = scratch().join(format!("{thread}-twin"));
    build_state(&real);
    build_state(&twin);
    let join = |root: &std::path::Path, p: &str| format!("{}/{}", root.display(), p);
    let mut args = vec![Variable::String(join(&real, pa).into())];
    if params.len() >= 2 {
        args.push(Variable::String(if op == "write_to_file" { contents.into() } else { join(&real, pb).into() }));
    }
    stats.eval();
    stats.nontrivial(&format!("{op}({pa:?}, {pb:?})"));
    stats.label(&format!("fs {op}"));
    let o = invoke(f, args);
    let expected = reference_fs(op, join(&twin, pa).as_ref(), join(&twin, pb).as_ref(), contents);
    match &o {
        Outcome::Value(v) => {
            if let Some(why) = ty::not_inhabits(v, &ret, 0) {
                return fail(format!("C18:result-type:{path}"), format!("{path}({pa:?}, {pb:?}): {why}"));
            }
            let is_error = matches!(v, Variable::Struct(m) if m.contains_key("error_code") && m.contains_key("msg"));
            match (&expected, is_error) {
                (Ok(Some(text)), false) => {
                    if !matches!(v, Variable::String(s) if s.as_ref() == text) {
                        return fail(format!("C18:fs-result:{op}"), format!("{path}({pa:?}) returned {}, the file holds {text:?}", ty::show(v)));
                    }
                }
                (Ok(None), false) => {
                    if !matches!(v, Variable::Void) {
                        return fail(format!("C18:fs-result:{op}"), format!("{path}({pa:?}, {pb:?}) returned {} on success", ty::show(v)));
                    }
                }
                (Err(_), true) => {}
                (Ok(_), true) => {
                    return fail(
                        format!("C18:fs-spurious-error:{op}"),
                        format!("{path}({pa:?}, {pb:?}) reports {} although the operating system performs the operation", ty::show(v)),
                    );
                }
                (Err(err), false) => {
                    return fail(
                        format!("C18:fs-missed-error:{op}"),
                        format!("{path}({pa:?}, {pb:?}) returned {} although the operating system refuses the operation ({err})", ty::show(v)),
                    );
                }
            }
        }
        other => return fail(format!("C18:raised:{path}"), format!("{path}({pa:?}, {pb:?}): {}", other.short())),
    }
    let (s1, s2) = (snapshot(&real), snapshot(&twin));
    if s1 != s2 {
        return fail(
            format!("C18:fs-state:{op}"),
            format!("after {path}({pa:?}, {pb:?}) the directory tree is {s1:?}; the same operation through the operating system leaves {s2:?}"),
        );
    }
    stats.sample(4, || json!({"call": format!("{path}({pa:?}, {pb:?})"), "result": o.short()}));
    Verdict::Pass
}

/// every std.fs function on every pair of paths of the scratch tree
pub(crate) fn fs_cases() -> Vec<Json> {
    let mut fs_cases = vec![];
    for op in ["file_read_to_string", "remove_file", "remove_dir", "remove_dir_all", "create_dir", "create_dir_all"] {
        for a in FS_PATHS {
            fs_cases.push(json!({"kind": "fs", "op": op, "a": a, "b": ""}));
        }
    }
    for a in FS_PATHS {
        for c in ["", "text", "zażółć\n"] {
            fs_cases.push(json!({"kind": "fs", "op": "write_to_file", "a": a, "b": "", "contents": c}));
        }
        for b in FS_PATHS {
            fs_cases.push(json!({"kind": "fs", "op": "copy_file", "a": a, "b": b}));
            fs_cases.push(json!({"kind": "fs", "op": "rename", "a": a, "b": b}));
        }
    }
    fs_cases
}

/// declared type of an export of std
pub(crate) fn declared(path: &str) -> Option<Ty> {
    find(path).map(|e| Ty::from_real(&e.value.as_type()))
}

pub fn run(session: &Session) -> i32 {
    crate::engine::run_regressions(session, &C18);
    let _ = scratch();
    let mut pure = vec![];
    let mut serial = vec![];
    let mut names = vec![];
    for e in exports() {
        names.push(e.path.clone());
        match &e.value {
            Variable::Function(_) if e.path.starts_with("std.fs.") => {}
            Variable::Function(_) if e.path == "std.io.cgetline" => {}
            Variable::Function(_) if e.path.starts_with("std.io.") => serial.push(json!({"kind": "pure", "path": e.path})),
            Variable::Function(_) => pure.push(json!({"kind": "pure", "path": e.path})),
            _ => pure.push(json!({"kind": "constant", "path": e.path})),
        }
    }
    session.set_extra("exports_discovered", json!(names));
    let fs_cases = fs_cases();
    if !session.stopped() {
        session.run_enum(&C18, pure);
    }
    if !session.stopped() {
        session.run_enum(&C18, fs_cases);
    }
    if !session.stopped() {
        session.run_tapes(&C18, session.tier.of(200_000, 3_000_000), 40, 0);
    }
    // stdout / stdin are process-wide: these run one at a time
    for case in serial {
        if !session.stopped() {
            session.run_one(&C18, &case);
        }
    }
    for bytes in [
        vec![], b"line\n".to_vec(), b"no newline".to_vec(), b"\n".to_vec(), "zażółć\n".as_bytes().to_vec(), vec![0xff, 0xfe, b'\n'],
        vec![b'a', 0xc3, b'\n'], b"  spaced  \n".to_vec(), b"\r\n".to_vec(), vec![0u8, b'\n'],
    ] {
        if !session.stopped() {
            session.run_one(&C18, &json!({"kind": "stdin", "bytes": bytes}));
        }
    }
    for mode in ["full", "broken-pipe", "read-only"] {
        if !session.stopped() {
            session.run_one(&C18, &json!({"kind": "stdout-fault", "mode": mode}));
        }
    }
    let code = session.finish(
        "(plus tape-generated random arguments for every pure export) the export list is discovered by walking the `std` value; every exported function is called through Function::create_call (and, for first-order arguments, as the in-language call) on the product of boundary pools for its declared parameter types (24 ints incl. MIN/MAX, 30 floats incl. NaN, infinities, signed zero, subnormal, ties at .5, beyond 2^52 and 2^63, 22 strings incl. empty, Unicode whitespace, multi-byte, case-special letters, number-like texts; byte arrays incl. invalid UTF-8 and non-byte ints; iterators over int/float/bool/string arrays; any-typed values); the result must inhabit the declared result type and never raise; for len, convert, string, bit-counting, integer-log, rounding, classification, bit-cast and iterator-reducer helpers it must equal the documented result computed by naive independent code (remaining float functions: the platform's libm). File-system functions run on 14 path states (file, missing, directory, empty and non-empty directory, path through a file, missing parent, existing target, non-UTF-8 content, deep new path, empty path, NUL byte, ..) x all pairs for copy/rename, differentially against std::fs on a twin directory: same success/failure, documented error struct on failure, identical resulting trees. cgetline gets 10 generated stdin contents incl. empty, unterminated and invalid UTF-8; print functions run with stdout redirected to a file (printed text compared with the documented text) and, in child processes of the harness, with a stdout that cannot be written (full device, pipe without a reader, descriptor opened read-only): every call still returns. Non-trivial = boundary argument or fault state; distinct by call.",
        true,
        &["transcendental float functions are compared with the platform libm (the same one the implementation uses): this only detects swapped or mis-wired functions",
          "exhaustive over the stated argument pools, not over all arguments"],
    );
    let _ = std::fs::remove_dir_all(scratch());
    code
}
