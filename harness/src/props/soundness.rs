//! Shared driver of C01 (type soundness, monitor on) and C02 (accepted programs do not go
//! wrong): the same populations of accepted programs and function values are executed; the
//! two properties judge different things.
use crate::{
    engine::{Property, Session, Stats, Tier, Verdict, fail},
    exec::{self, Run},
    genr::matrix::{self, BINARY, CATALOGUE, INFIX, UNARY},
    run::Outcome,
    tape::Tape,
};
use serde_json::{Value as Json, json};
use simplesl::variable::Variable;

#[derive(Clone, Copy, PartialEq, Eq)]
pub enum Mode {
    /// C01: every observed value inhabits its static type
    Types,
    /// C02: no panic
    Panics,
    /// C13: after any accepted sequence of assignments every reachable cell holds a value
    /// of its declared type (monitor on, only cell-content violations are judged)
    Cells,
}

pub struct Soundness {
    pub mode: Mode,
    pub id: &'static str,
}

thread_local! {
    static KNOWN_SIGS: std::cell::RefCell<Vec<String>> = const { std::cell::RefCell::new(Vec::new()) };
}

static KNOWN_GLOBAL: std::sync::OnceLock<Vec<String>> = std::sync::OnceLock::new();

fn load_known_into_thread() {
    KNOWN_SIGS.with(|k| {
        if k.borrow().is_empty()
            && let Some(g) = KNOWN_GLOBAL.get()
        {
            *k.borrow_mut() = g.clone();
        }
    });
}

pub static C01: Soundness = Soundness { mode: Mode::Types, id: "C01" };
pub static C02: Soundness = Soundness { mode: Mode::Panics, id: "C02" };
pub static C13_CELLS: Soundness = Soundness { mode: Mode::Cells, id: "C13" };

impl Soundness {
    /// judges one execution; Some(verdict) = stop here
    fn judge(&self, what: &str, run: &Run, stats: &mut Stats) -> Option<Verdict> {
        stats.eval();
        match self.mode {
            Mode::Panics => match &run.outcome {
                Outcome::Panic { msg, loc, phase } => Some(fail(
                    format!("{}:{}", self.id, run.outcome.panic_sig().unwrap_or_default()),
                    format!("{what}: panicked during {phase}: {msg} @ {loc}"),
                )),
                Outcome::ExecError(k) => {
                    stats.label(&format!("run-time error {k}"));
                    None
                }
                Outcome::Aborted(w) => {
                    stats.label(&format!("budget exhausted ({w})"));
                    None
                }
                _ => None,
            },
            Mode::Cells => {
                // cell contents, and the value an assignment yields against the static type the checker
                // gives the assignment (`c = v` yields v, `c op= v` yields `*c op v`)
                let assignment = |sig: &str| {
                    ["=", "+=", "-=", "*=", "/=", "%=", "<<=", ">>=", "&=", "|=", "^=", "**="].iter().any(|op| sig.contains(&format!(":Bin:{op}:")))
                };
                let cellish = |sig: &str| sig == "C01:cell-content" || sig.ends_with(":cell") || assignment(sig);
                // (an array label that does not admit a cell among its elements lets a later narrowing hand the
                // cell out at the wrong cell type)
                let cell_label = |v: &exec::TypeViolation| v.sig.ends_with(":label") && v.msg.contains("mut ");
                run.log.violations.iter().find(|v| cellish(&v.sig) || cell_label(v)).map(|v| {
                    fail(format!("C13:cell-typing:{}", v.sig.trim_start_matches("C01:")), format!("{what}: {}", v.msg))
                })
            }
            Mode::Types => {
                for ((kind, shape), n) in &run.log.hits {
                    stats.label_n(&format!("observed {kind} : {shape}"), *n);
                }
                // a listed finding does not hide a different violation of the same run
                let known = |sig: &str| KNOWN_SIGS.with(|k| k.borrow().iter().any(|s| s == sig));
                let chosen = run.log.violations.iter().find(|v| !known(&v.sig)).or(run.log.violations.first());
                chosen.map(|v| fail(v.sig.clone(), format!("{what}: {}", v.msg)))
            }
        }
    }

    fn nontrivial(&self, key: &str, run: &Run, stats: &mut Stats) {
        match self.mode {
            Mode::Panics => {
                if matches!(run.outcome, Outcome::Value(_) | Outcome::ExecError(_)) {
                    stats.nontrivial(key);
                }
            }
            Mode::Types => {
                if run.log.compound_events > 0 {
                    stats.nontrivial(key);
                }
            }
            Mode::Cells => {
                if run.log.hits.keys().any(|(_, shape)| *shape == "mut") {
                    stats.nontrivial(key);
                }
            }
        }
    }

    fn monitor(&self) -> bool {
        self.mode != Mode::Panics
    }

    /// a function program of the matrix: accept -> call with every combination of operand values
    fn check_function(&self, program: &str, values: &[&[&str]], stats: &mut Stats) -> Verdict {
        let run = exec::run_program(program, self.monitor());
        let f = match &run.outcome {
            Outcome::Rejected(_) => {
                stats.label("matrix: rejected by the checker");
                return Verdict::Pass;
            }
            Outcome::Value(Variable::Function(f)) => f.clone(),
            _ => {
                return self.judge(program, &run, stats).unwrap_or(Verdict::Pass);
            }
        };
        stats.label("matrix: accepted");
        if let Some(v) = self.judge(program, &run, stats) {
            return v;
        }
        // all combinations of argument values (each evaluated afresh: cells and iterators are stateful)
        let mut combos: Vec<Vec<&str>> = vec![vec![]];
        for vs in values {
            let mut next = vec![];
            for c in &combos {
                for v in vs.iter() {
                    let mut x = c.clone();
                    x.push(*v);
                    next.push(x);
                }
            }
            combos = next;
        }
        // subsumption: values of every other catalogue type are offered to a one-parameter
        // function too; the host API decides whether they are admissible
        if values.len() == 1 {
            for other in CATALOGUE {
                for v in other.values {
                    if !values[0].contains(v) {
                        combos.push(vec![*v]);
                    }
                }
            }
        }
        for combo in combos {
            let mut args = vec![];
            for text in &combo {
                match exec::run_program(text, false).outcome {
                    Outcome::Value(v) => args.push(v),
                    _ => return Verdict::Discard("operand value text did not evaluate"),
                }
            }
            let what = format!("`{program}` called through the host API with ({})", combo.join(", "));
            let kept = args.clone();
            let mut run = exec::call_function(&f, args, self.monitor());
            if self.monitor() {
                // the cells handed in stay reachable for the caller: whatever the call did and
                // however it ended, each must still hold a value of its declared type
                for a in &kept {
                    if let Some(why) = crate::ty::cells_ok(a, 0) {
                        run.log.violations.push(exec::TypeViolation { sig: "C01:cell-content".into(), msg: format!("argument after the call: {why}") });
                    }
                }
            }
            if matches!(run.outcome, Outcome::Rejected(_)) {
                // the host API refused values the catalogue lists for the parameter type
                stats.label("matrix: host call rejected");
                continue;
            }
            self.nontrivial(&what, &run, stats);
            if let Some(v) = self.judge(&what, &run, stats) {
                return v;
            }
            // the same call written in the language
            let text = format!("{program}; f({})", combo.join(", "));
            let run = exec::run_program(&text, self.monitor());
            if let Some(v) = self.judge(&format!("`{text}`"), &run, stats) {
                return v;
            }
            stats.sample(10, || json!({"program": text, "outcome": run.outcome.short()}));
        }
        Verdict::Pass
    }
}

impl Property for Soundness {
    fn id(&self) -> &'static str {
        self.id
    }

    fn gen_case(&self, tape: &mut Tape, _tier: Tier) -> Option<Json> {
        if tape.chance(7, 8) {
            // a tape-generated typed program (all constructs, nested), printed with some literals hidden
            let profile = *tape.pick(&[
                crate::genr::prog::Profile::GENERAL,
                crate::genr::prog::Profile::ITERATORS,
                crate::genr::prog::Profile::CELLS,
                crate::genr::prog::Profile::CONTROL,
                crate::genr::prog::Profile::SCOPING,
            ]);
            let profile = if tape.bool() { profile.with_free_dispatch() } else { profile };
            let program = crate::genr::case::generate(tape, profile);
            let hide = match tape.below(3) {
                0 => crate::genr::ast::Hide::None,
                1 => crate::genr::ast::Hide::All,
                _ => crate::genr::ast::Hide::Mask(tape.u64()),
            };
            let text = crate::genr::case::print(&program, hide);
            let files: serde_json::Map<String, Json> = crate::genr::case::import_files(&program).into_iter().map(|(n, t)| (n, json!(t))).collect();
            if tape.chance(1, 3) {
                // near miss: the same program with one or two token-level edits
                return Some(json!({"kind": "near-miss", "text": crate::genr::nearmiss::mutate_text(&text, tape), "files": files}));
            }
            return Some(json!({"kind": "program", "text": text, "files": files}));
        }
        // a random cell of the binary part of the matrix
        let x = tape.below(CATALOGUE.len());
        let y = tape.below(CATALOGUE.len());
        Some(if tape.bool() {
            json!({"kind": "infix", "x": x, "y": y, "op": tape.below(INFIX.len())})
        } else {
            json!({"kind": "binary", "x": x, "y": y, "t": tape.below(BINARY.len())})
        })
    }

    fn check_case(&self, case: &Json, stats: &mut Stats) -> Verdict {
        load_known_into_thread();
        let idx = |k: &str| case[k].as_u64().unwrap_or(0) as usize;
        match case["kind"].as_str().unwrap_or("") {
            "unary" => {
                let x = matrix::operand(idx("x"));
                let program = matrix::unary_program(x.ty, UNARY[idx("t") % UNARY.len()]);
                self.check_function(&program, &[x.values], stats)
            }
            "filter-to" => {
                // a type filter for every catalogue type (and types built from it), pulled past its end: the
                // filler an exhausted filter yields belongs to the type asked for
                let t = matrix::operand(idx("t")).ty;
                let wrapped = match idx("w") {
                    0 => t.to_string(),
                    1 => format!("[{t}]"),
                    2 => format!("(int, {t})"),
                    3 => format!("struct{{f: {t}}}"),
                    _ => format!("mut {}", if t.contains('|') && !t.contains("->") || t.starts_with("mut ") { format!("({t})") } else { t.to_string() }),
                };
                let any = CATALOGUE.iter().find(|o| o.ty == "any").map(|o| o.values).unwrap_or(&[]);
                let program = format!("f := (x: any) -> any {{ it := [x, x]~ ? {wrapped}; a := it(); b := it(); c := it(); return (a, b, c); }}");
                self.check_function(&program, &[any], stats)
            }
            "infix" => {
                let (x, y) = (matrix::operand(idx("x")), matrix::operand(idx("y")));
                let program = matrix::infix_program(x.ty, y.ty, INFIX[idx("op") % INFIX.len()]);
                self.check_function(&program, &[x.values, y.values], stats)
            }
            "binary" => {
                let (x, y) = (matrix::operand(idx("x")), matrix::operand(idx("y")));
                let program = matrix::binary_program(x.ty, y.ty, BINARY[idx("t") % BINARY.len()]);
                self.check_function(&program, &[x.values, y.values], stats)
            }
            "unary-own" => {
                // the parameter is spelled like the function: inside the body the name means the parameter
                let x = matrix::operand(idx("x"));
                let body = UNARY[idx("t") % UNARY.len()].replace('X', "f");
                let body = if body.contains("r :=") { format!("{body}; return r;") } else { format!("{body}; return 0;") };
                let program = format!("f := (f: {}) -> any {{ {body} }}", x.ty);
                self.check_function(&program, &[x.values], stats)
            }
            "std-unary" => {
                let x = matrix::operand(idx("x"));
                let path = case["path"].as_str().unwrap_or("std.len");
                let program = format!("f := (x: {}) -> any {{ r := {path}(x); return r; }}", x.ty);
                self.check_function(&program, &[x.values], stats)
            }
            "std-binary" => {
                let (x, y) = (matrix::operand(idx("x")), matrix::operand(idx("y")));
                let path = case["path"].as_str().unwrap_or("std.len");
                let program = format!("f := (x: {}, y: {}) -> any {{ r := {path}(x, y); return r; }}", x.ty, y.ty);
                self.check_function(&program, &[x.values, y.values], stats)
            }
            "probe" => {
                // a fixed program of a recorded finding, with a signature of its own: an accepted program that
                // ends in an internal panic
                let text = case["text"].as_str().unwrap_or("");
                stats.eval();
                stats.nontrivial(text);
                let run = exec::run_program(text, false);
                match &run.outcome {
                    Outcome::Panic { msg, loc, phase } => fail(
                        case["sig"].as_str().unwrap_or("probe").to_string(),
                        format!("probe `{text}`\n  accepted, then an internal panic during {phase}: {msg} @ {loc}"),
                    ),
                    _ => Verdict::Pass,
                }
            }
            "program" | "near-miss" => {
                let text = &crate::genr::case::materialise(case["text"].as_str().unwrap_or(""), case);
                let text = text.as_str();
                if case["kind"].as_str() == Some("near-miss") {
                    // token edits must not turn an import of a scratch file into an import of something else
                    let imports = text.matches("import").count();
                    let scratch = text.matches("import \"/tmp/vcheck-imports-").count() + text.matches(&format!("import \"{}/vcheck-imports-", std::env::temp_dir().display())).count();
                    if imports > scratch || text.matches(['(', '[', '{']).count() > 400 {
                        return Verdict::Discard("edited program outside the safe domain");
                    }
                    stats.label("near-miss programs tried");
                }
                let t0 = std::time::Instant::now();
                let run = exec::run_program(text, self.monitor());
                if std::env::var("VERIF_TRACE").is_ok() && t0.elapsed().as_millis() > 300 {
                    eprintln!("SLOW {} ms: {text}", t0.elapsed().as_millis());
                }
                if matches!(run.outcome, Outcome::Rejected(_)) {
                    return Verdict::Discard("rejected by the checker");
                }
                if case["kind"].as_str() == Some("near-miss") {
                    stats.label("near-miss programs still accepted (executed)");
                }
                self.nontrivial(text, &run, stats);
                stats.sample(10, || json!({"program": text, "outcome": run.outcome.short()}));
                self.judge(&format!("`{text}`"), &run, stats).unwrap_or(Verdict::Pass)
            }
            "sequence" => {
                // several programs one after the other on this thread over one set of files that is written
                // once: each is judged like a program of its own (whatever an earlier program of the sequence
                // imported, checked or left behind)
                let texts: Vec<&str> = case["texts"].as_array().map(|a| a.iter().filter_map(|t| t.as_str()).collect()).unwrap_or_default();
                let joined = crate::genr::case::materialise(&texts.join("\u{1}"), case);
                stats.label("sequences of programs over one set of files");
                for (k, text) in joined.split('\u{1}').enumerate() {
                    let run = exec::run_program(text, self.monitor());
                    if matches!(run.outcome, Outcome::Rejected(_)) {
                        continue;
                    }
                    self.nontrivial(text, &run, stats);
                    if let Some(v) = self.judge(&format!("`{text}` (program {k} of a sequence over the same files: {:?})", case["files"]), &run, stats)
                        && !matches!(v, Verdict::Pass)
                    {
                        return v;
                    }
                }
                Verdict::Pass
            }
            "session" => {
                // inputs parsed and run one after the other into one interpreter, as a REPL or an embedding
                // host does; the session goes on after a documented run-time error: whatever an input that
                // failed left behind, the inputs after it neither panic nor meet ill-typed cell contents
                let inputs: Vec<&str> = case["inputs"].as_array().map(|a| a.iter().filter_map(|i| i.as_str()).collect()).unwrap_or_default();
                let mut interp = exec::safe_interpreter();
                let mut failed = false;
                for (k, input) in inputs.iter().enumerate() {
                    crate::run::default_budget();
                    let code = match crate::run::parse_guarded(&interp, input) {
                        Ok(Ok(code)) => code,
                        Ok(Err(_)) => continue,
                        Err(o) => {
                            let run = exec::Run { outcome: o, log: Default::default(), static_type: None };
                            return self.judge(&format!("input {k} `{input}` of the session {inputs:?}"), &run, stats).unwrap_or(Verdict::Pass);
                        }
                    };
                    let (outcome, mut log) = if self.monitor() {
                        exec::monitored(|| crate::run::exec_unscoped_guarded(&code, &mut interp))
                    } else {
                        (crate::run::exec_unscoped_guarded(&code, &mut interp), Default::default())
                    };
                    if self.monitor() {
                        for name in ["c", "cs", "s", "d"] {
                            if let Some(v) = interp.get_variable(name)
                                && let Some(why) = crate::ty::cells_ok(v, 0)
                            {
                                log.violations.push(exec::TypeViolation { sig: "C01:cell-content".into(), msg: format!("`{name}` after the input: {why}") });
                            }
                        }
                    }
                    if matches!(outcome, Outcome::ExecError(_)) {
                        failed = true;
                    }
                    let run = exec::Run { outcome, log, static_type: None };
                    if failed {
                        self.nontrivial(&format!("{inputs:?}#{k}"), &run, stats);
                    }
                    if let Some(v) = self.judge(&format!("input {k} `{input}` of the session {inputs:?}"), &run, stats) {
                        return v;
                    }
                }
                stats.label(if failed { "session continued after a run-time error" } else { "session without a run-time error" });
                stats.sample(4, || json!({"session": inputs}));
                Verdict::Pass
            }
            "fs" => {
                // a std.fs call on a scratch tree, written in the language, and a match with one arm per
                // member of the declared result type: whatever the operating system answers (also errors
                // that carry no OS code), the result is one of the declared members
                let op = case["op"].as_str().unwrap_or("");
                let (pa, pb) = (case["a"].as_str().unwrap_or(""), case["b"].as_str().unwrap_or(""));
                let Some(crate::ty::Ty::Fun(params, ret)) = crate::props::c18::declared(&format!("std.fs.{op}")) else {
                    return Verdict::Discard("fs function not exported under this name");
                };
                let thread = std::thread::current().name().unwrap_or("t").to_string();
                let root = crate::props::c18::scratch().join(format!("{thread}-{}", self.id()));
                crate::props::c18::build_state(&root);
                let lit = |p: &str| crate::lit::escape_string(&format!("{}/{p}", root.display()));
                let mut args = lit(pa);
                if params.len() >= 2 {
                    args += ", ";
                    args += &if op == "write_to_file" { crate::lit::escape_string(case["contents"].as_str().unwrap_or("")) } else { lit(pb) };
                }
                let arms: String = ret.members().iter().enumerate().map(|(i, m)| format!("v: {} => {i}, ", m.print())).collect();
                let text = format!("r := std.fs.{op}({args}); n := match r {{ {arms}}}; (r, n)");
                let run = exec::run_program_full(&text, self.monitor());
                if matches!(run.outcome, Outcome::Rejected(_)) {
                    return Verdict::Discard("rejected by the checker");
                }
                stats.label(&format!("fs {op}"));
                self.nontrivial(&text, &run, stats);
                stats.sample(4, || json!({"program": text, "outcome": run.outcome.short()}));
                self.judge(&format!("`{text}`"), &run, stats).unwrap_or(Verdict::Pass)
            }
            _ => Verdict::Discard("unknown kind"),
        }
    }
}

/// sessions in which an input fails with a documented error in the middle of an update of a cell, and
/// later inputs go on using the cell (every fallible assignment operator x every way of holding a cell)
/// files that use names of whoever imports them, imported by programs that declare those names at
/// different types, as cells, as parameters, or not at all, one after the other and within one program
pub fn import_sequences() -> Vec<Json> {
    let files = json!({
        "lib.sl": "value := k; pair := (k, k); twice := [k, k];",
        "cells.sl": "seen := *counter; bump := () -> any { return *counter; };",
        "arith.sl": "twice := k * 2; g := (x: int) -> int { return x + k; };",
        "outer.sl": "inner := import \"@DIR@/lib.sl\"; v := inner.value;",
    });
    let programs = [
        "k := 2; lib := import \"@DIR@/lib.sl\"; c := mut lib.value; c += 1; (*c, lib.pair, lib.twice[0] + 1)",
        "k := \"s\"; lib := import \"@DIR@/lib.sl\"; c := mut lib.value; c += \"t\"; (*c, lib.pair, lib.twice[0] + \"u\")",
        "f := (k: float) -> any { lib := import \"@DIR@/lib.sl\"; c := mut lib.value; c += 1.5; return (*c, lib.twice); }; f(2.5)",
        "k := [1]; lib := import \"@DIR@/lib.sl\"; (lib.value + [2], std.len(lib.pair.0))",
        "lib := import \"@DIR@/lib.sl\"; lib",
        // importers that only look at what they imported (accepted whatever type the checker believes in)
        "k := \"s\"; lib := import \"@DIR@/lib.sl\"; c := mut lib.value; r := *c; (r, lib.pair, [lib.value], lib.twice)",
        "k := 2.5; lib := import \"@DIR@/lib.sl\"; c := mut lib.value; d := [lib.value, lib.pair.0]; (*c, d, lib)",
        "k := [1, 2]; lib := import \"@DIR@/lib.sl\"; c := mut lib.value; (*c, lib.pair.1, lib.twice)",
        "k := mut 7; lib := import \"@DIR@/lib.sl\"; c := mut lib.value; (*c, lib.pair.0)",
        "f := (k: string) -> any { lib := import \"@DIR@/lib.sl\"; c := mut lib.value; return (*c, lib.pair, [lib.value]); }; g := (k: int) -> any { lib := import \"@DIR@/lib.sl\"; c := mut lib.value; return (*c, lib.pair, [lib.value]); }; (g(1), f(\"s\"), g(2))",
        "counter := mut \"s\"; lib := import \"@DIR@/cells.sl\"; c := mut lib.seen; (*c, lib.bump(), [lib.seen])",
        "counter := mut 2.5; lib := import \"@DIR@/cells.sl\"; c := mut lib.seen; (*c, lib.bump(), [lib.seen])",
        "k := \"s\"; lib := import \"@DIR@/outer.sl\"; c := mut lib.v; (*c, lib.inner.pair)",
        "k := 2; a := import \"@DIR@/lib.sl\"; f := (k: string) -> any { b := import \"@DIR@/lib.sl\"; return b.value + \"x\"; }; (a.value + 1, f(\"s\"))",
        "counter := mut 5; lib := import \"@DIR@/cells.sl\"; (lib.seen + 1, lib.bump())",
        "counter := mut \"s\"; lib := import \"@DIR@/cells.sl\"; (lib.seen + \"t\", lib.bump())",
        "f := (counter: mut float) -> any { lib := import \"@DIR@/cells.sl\"; return lib.seen + 0.5; }; f(mut 1.5)",
        "k := 3; lib := import \"@DIR@/arith.sl\"; (lib.twice, lib.g(1))",
        "k := \"s\"; lib := import \"@DIR@/arith.sl\"; (lib.twice, lib.g(1))",
        "f := (k: int) -> int { lib := import \"@DIR@/arith.sl\"; return lib.twice; }; g := (k: string) -> any { lib := import \"@DIR@/arith.sl\"; return lib.twice; }; (f(21), g(\"s\"))",
        "k := 2; lib := import \"@DIR@/outer.sl\"; lib.v + 1",
        "k := \"s\"; lib := import \"@DIR@/outer.sl\"; lib.v + \"t\"",
    ];
    let mut out = vec![];
    let n = programs.len();
    for shift in 0..n {
        let texts: Vec<&str> = (0..n).map(|i| programs[(i + shift) % n]).collect();
        out.push(json!({"kind": "sequence", "texts": texts, "files": files}));
        let back: Vec<&str> = texts.iter().rev().copied().collect();
        out.push(json!({"kind": "sequence", "texts": back, "files": files}));
    }
    for i in 0..n {
        for j in 0..n {
            if i != j {
                out.push(json!({"kind": "sequence", "texts": [programs[i], programs[j], programs[i]], "files": files}));
            }
        }
    }
    out
}

pub fn error_sessions() -> Vec<Json> {
    let holders = [
        ("c := mut 7;", "c"),
        ("cs := [mut 7, mut 8];", "cs[0]"),
        ("s := struct{k := mut 7};", "s.k"),
        ("d := mut 7; c := d;", "c"),
    ];
    let failing = [("/=", "zero()"), ("%=", "zero()"), ("<<=", "zero() + 64"), (">>=", "zero() - 1"), ("**=", "zero() - 1"), ("+=", "[1][zero() + 5]"), ("=", "7 / zero()")];
    let mut out = vec![];
    for (decl, x) in holders {
        for (op, bad) in failing {
            let fail_now = format!("{x} {op} {bad}");
            let inputs = vec![
                "zero := () -> int { return 0; };".to_string(),
                decl.to_string(),
                fail_now.clone(),
                format!("{x} += 1; *{x}"),
                format!("{x} /= 2; *{x}"),
                format!("g := () -> int {{ {fail_now}; return *{x}; }};"),
                "g()".to_string(),
                format!("(*{x} + 1, [*{x}][0] - 1)"),
                format!("{x} **= 2; {x} <<= 1; {x} %= 5; *{x}"),
                "g()".to_string(),
                format!("{x} = 3; {x} *= 3"),
            ];
            out.push(json!({"kind": "session", "inputs": inputs}));
        }
    }
    out
}

/// Recorded findings kept visible: accepted programs that end in an internal panic, outside what the
/// generators write (they never use the untyped `[]` where a typed array is expected).
const PROBES: &[(&str, &str)] = &[(
    "pruned-branch-retypes-sum-of-empty-array",
    "a := if true { [] } else { [\"x\"] }; c := (a~ $+)[0]; c",
)];

pub fn run(session: &Session, prop: &'static Soundness) -> i32 {
    let _ = KNOWN_GLOBAL.set(session.known.iter().map(|k| k.sig.clone()).collect());
    crate::engine::run_regressions(session, prop);
    let mut cases = vec![];
    for x in 0..CATALOGUE.len() {
        for t in 0..UNARY.len() {
            cases.push(json!({"kind": "unary", "x": x, "t": t}));
        }
    }
    for x in 0..CATALOGUE.len() {
        for t in (0..UNARY.len()).step_by(2) {
            cases.push(json!({"kind": "unary-own", "x": x, "t": t}));
        }
    }
    for t in 0..CATALOGUE.len() {
        for w in 0..5 {
            cases.push(json!({"kind": "filter-to", "t": t, "w": w}));
        }
    }
    // a cell made without a declared type from an expression whose static type is wider than its value:
    // the cell has the static type, whatever is later stored in it and however the cell itself is tested
    for src in ["(x: int|float)", "(x: any)", "(x: int|string|[int])", "(x: [int]|[float])"] {
        let wide = src.trim_start_matches("(x: ").trim_end_matches(')');
        let paren = if wide.contains('|') { format!("({wide})") } else { wide.to_string() };
        let (arg, other) = match wide {
            "int|float" => ("1", "2.5"),
            "any" => ("1", "\"s\""),
            "int|string|[int]" => ("1", "[2]"),
            _ => ("[1]", "[2.5]"),
        };
        for body in [
            format!("m := mut x; return match m {{ c: mut {paren} => 1, }};"),
            format!("m := mut x; m = {other}; return match m {{ c: mut {paren} => *c, }};"),
            format!("m := mut x; m = {other}; if c: mut int = m {{ return *c + 1; }} return 0;"),
            format!("m := mut x; r := [m]~ ? mut {paren} $]; return (std.len(r), *r[0]);"),
            format!("m := mut x; n := mut {wide} {other}; ms := [m, n]; ms[0] = {other}; return (*ms[0], *ms[1]);"),
            format!("mk := (v: {wide}) -> mut {paren} {{ return mut v; }}; m := mk(x); m = {other}; return *m;"),
            format!("m := mut [x]; m += [{other}]; return *m;"),
            format!("t := (mut x, 1); c := t.0; c = {other}; return match c {{ k: mut {paren} => *k, }};"),
        ] {
            cases.push(json!({"kind": "program", "text": format!("f := {src} -> any {{ {body} }}; (f({arg}), f({other}))")}));
            cases.push(json!({"kind": "program", "text": format!("x := [{arg}, {other}][*(mut int 0)]; w := () -> any {{ {body} }}; w()")}));
        }
    }
    // a callee known only as a union of function types: the call is checked against every member (the
    // argument must fit the parameter of each), for parameters that are structs of different widths,
    // tuples of different lengths, arrays, cells, functions
    for (m1, m2, arg, other) in [
        ("(s: struct{a: int}) -> int { return s.a; }", "(s: struct{a: int, b: int}) -> int { return s.a + s.b; }", "struct{a := 1}", "struct{a := 1, b := 2}"),
        ("(s: struct{a: int, c: string}) -> int { return s.a; }", "(s: struct{a: int, b: int}) -> int { return s.b; }", "struct{a := 1, c := \"s\"}", "struct{a := 1, b := 2, c := \"s\"}"),
        ("(t: (int, int)) -> int { return t.1; }", "(t: (int, int, int)) -> int { return t.2; }", "(1, 2)", "(1, 2, 3)"),
        ("(a: [int]) -> int { return a[0]; }", "(a: [int|string]) -> int { return std.len(a); }", "[1]", "[1, \"s\"]"),
        ("(c: mut int) -> int { return *c + 1; }", "(c: mut (int|string)) -> int { c = \"s\"; return 0; }", "mut 1", "mut int|string 1"),
        ("(f: (int) -> int) -> int { return f(1); }", "(f: (string) -> int) -> int { return f(\"s\"); }", "(x: int) -> int { return x; }", "(x: int|string) -> int { return 1; }"),
        ("(x: int|string) -> int { return 1; }", "(x: int|float) -> int { return 2; }", "1", "2.5"),
    ] {
        for (pick, value) in [("true", arg), ("false", arg), ("true", other), ("false", other)] {
            cases.push(json!({"kind": "near-miss", "text": format!("f1 := {m1}; f2 := {m2}; g := if *(mut bool {pick}) {{ f1 }} else {{ f2 }}; g({value})")}));
            cases.push(json!({"kind": "near-miss", "text": format!("f1 := {m1}; f2 := {m2}; call := (g: any) -> any {{ if h: ({}) -> int | ({}) -> int = g {{ return h({value}); }} return 0; }}; call(if *(mut bool {pick}) {{ f1 }} else {{ f2 }})", m1.split(") ->").next().unwrap_or("").split(": ").nth(1).unwrap_or("any"), m2.split(") ->").next().unwrap_or("").split(": ").nth(1).unwrap_or("any"))}));
        }
    }
    let sequences = import_sequences();
    session.set_extra("import_sequence_cases", json!(sequences.len()));
    cases.extend(sequences);
    if prop.id == "C02" {
        // programs that print while stdout refuses writes (child processes of the harness, see C18)
        for mode in ["full", "broken-pipe", "read-only"] {
            if !session.stopped() {
                session.run_one(&crate::props::c18::C18, &json!({"kind": "stdout-fault", "mode": mode}));
            }
        }
    }
    // every pure std function applied to parameters of the catalogue types: the declared result
    // type is what the checker believes about the call
    let small: Vec<usize> = CATALOGUE
        .iter()
        .enumerate()
        .filter(|(_, o)| matches!(o.ty, "int" | "float" | "string" | "bool" | "int|float" | "[int]" | "[string]" | "any"))
        .map(|(i, _)| i)
        .collect();
    for (path, arity) in crate::props::c18::pure_functions() {
        match arity {
            1 => {
                for x in 0..CATALOGUE.len() {
                    cases.push(json!({"kind": "std-unary", "x": x, "path": path}));
                }
            }
            2 => {
                for x in &small {
                    for y in &small {
                        cases.push(json!({"kind": "std-binary", "x": x, "y": y, "path": path}));
                    }
                }
            }
            _ => {}
        }
    }
    if prop.id == "C02" {
        // probes of recorded findings (each keeps its own signature)
        for (sig_tail, text) in PROBES {
            session.run_one(prop, &json!({"kind": "probe", "sig": format!("C02:probe:{sig_tail}"), "text": text}));
        }
    }
    for text in crate::props::c03::corpus() {
        cases.push(json!({"kind": "program", "text": text}));
    }
    for text in crate::genr::nearmiss::control_placement_programs() {
        cases.push(json!({"kind": "near-miss", "text": text}));
    }
    for text in crate::genr::nearmiss::conditional_declaration_programs() {
        cases.push(json!({"kind": "near-miss", "text": text}));
    }
    for text in crate::genr::nearmiss::redeclaration_programs() {
        cases.push(json!({"kind": "near-miss", "text": text}));
    }
    for text in crate::genr::nearmiss::never_iterator_programs() {
        cases.push(json!({"kind": "program", "text": text}));
    }
    for text in crate::genr::nearmiss::binder_scope_programs() {
        cases.push(json!({"kind": "near-miss", "text": text}));
    }
    for text in crate::genr::nearmiss::missing_return_programs() {
        cases.push(json!({"kind": "near-miss", "text": text}));
    }
    for text in crate::genr::nearmiss::literal_spelling_programs() {
        cases.push(json!({"kind": "near-miss", "text": text}));
    }
    for text in crate::genr::nearmiss::cell_widening_programs() {
        cases.push(json!({"kind": "near-miss", "text": text}));
    }
    for text in crate::genr::nearmiss::string_spelling_programs() {
        cases.push(json!({"kind": "near-miss", "text": text}));
    }
    for text in crate::genr::nearmiss::duplicate_name_programs() {
        cases.push(json!({"kind": "near-miss", "text": text}));
    }
    {
        for x in 0..CATALOGUE.len() {
            for y in 0..CATALOGUE.len() {
                for op in 0..INFIX.len() {
                    cases.push(json!({"kind": "infix", "x": x, "y": y, "op": op}));
                }
                for t in 0..BINARY.len() {
                    cases.push(json!({"kind": "binary", "x": x, "y": y, "t": t}));
                }
            }
        }
    }
    cases.extend(crate::props::c18::fs_cases());
    cases.extend(error_sessions());
    session.set_extra("enumerated_cases", json!(cases.len()));
    if !session.stopped() {
        session.run_enum(prop, cases);
    }
    if !session.stopped() {
        session.run_tapes(prop, session.tier.of(40_000, 2_000_000), 600, 0);
    }
    crate::genr::case::cleanup_import_dirs();
    let (rule, assumptions): (&str, &[&str]) = match prop.mode {
        Mode::Cells => ("", &[]),
        Mode::Types => (
            "the operator x operand-type matrix: every unary/postfix/statement template applied to a parameter of each of 60 catalogue types (exhaustive), every infix/assignment operator and two-operand template on all pairs of catalogue types (exhaustive); each function the checker accepts is called through the host API and in-language with every combination of the catalogue's values for its parameter types (every union member, empty arrays, exhausted iterators, cells); the documentation corpus, 480 control-placement and 96 cell-widening near misses (a narrow cell offered where a wider cell type is declared, through parameters, if-set, match, arrays, tuples, structs, results, closures, iterators; break/continue/return after, beside and inside every loop form in every kind of body; whatever is accepted is executed), and 40k (quick) tape-generated typed programs of every profile, a third of them with token-level edits (near misses; executed when still accepted) (closures, cells, iterators incl. exhausted ones, control flow, unions) are executed too. Oracle: the verif monitor reports every instruction result, argument binding, function return, the final result and every reachable cell with the static type the checker computed; the harness's own membership test (tag and contents, recursively) must hold. Non-trivial = an execution with at least one observation whose static type is a union, array, tuple, struct, function or mut; distinct by call.",
            &["instructions inside the placeholder-typed helper closures of @ ? ~ are not judged (their static types are not claims about user values)"],
        ),
        Mode::Panics => (
            "the operator x operand-type matrix (as for C01), the documentation corpus, 480 control-placement near misses and 40k (quick) tape-generated typed programs of every profile (a third of them with token-level edits, executed when the checker still accepts them): every accepted function is called through the host API and in-language with every combination of catalogue values of its parameter types. Oracle: execution ends in a value or one of the six documented run-time errors; a panic is a violation; exhausted fuel/depth/length budgets are counted as inconclusive. Non-trivial = an accepted program that was executed to a value or documented error; distinct by call.",
            &["generated programs run against std without fs and io; std.fs is called by the hand-written fs programs over a scratch directory only"],
        ),
    };
    session.finish(rule, false, assumptions)
}

/// C13's share of the matrix: every template applied to parameters whose type mentions `mut`,
/// called with the values of every catalogue type the host API admits (subsumption)
pub fn run_cells(session: &Session) {
    let prop: &'static Soundness = &C13_CELLS;
    let _ = KNOWN_GLOBAL.set(session.known.iter().map(|k| k.sig.clone()).collect());
    let mut cases = vec![];
    for (x, op) in CATALOGUE.iter().enumerate() {
        if !op.ty.contains("mut") {
            continue;
        }
        for t in 0..UNARY.len() {
            cases.push(json!({"kind": "unary", "x": x, "t": t}));
        }
        for y in 0..CATALOGUE.len() {
            for o in 0..INFIX.len() {
                if INFIX[o].contains('=') && !matches!(INFIX[o], "==" | "!=" | "<=" | ">=") {
                    cases.push(json!({"kind": "infix", "x": x, "y": y, "op": o}));
                }
                // concatenation of arrays that hold cells: the label of the result admits every cell in it
                if INFIX[o] == "+" && op.ty.starts_with('[') && CATALOGUE[y].ty.starts_with('[') && CATALOGUE[y].ty.contains("mut") {
                    cases.push(json!({"kind": "infix", "x": x, "y": y, "op": o}));
                }
            }
            for t in 0..BINARY.len() {
                if BINARY[t].contains(" = ") || BINARY[t].contains("+=") || BINARY[t].contains("X(Y") {
                    cases.push(json!({"kind": "binary", "x": x, "y": y, "t": t}));
                }
            }
        }
    }
    // calls: a function (or a union of functions) over cells applied to every cell / array of cells
    for (x, fx) in CATALOGUE.iter().enumerate() {
        if !(fx.ty.contains("->") && fx.ty.contains("mut")) {
            continue;
        }
        for (y, cy) in CATALOGUE.iter().enumerate() {
            if cy.ty.contains("mut") && !cy.ty.contains("->") {
                for (t, template) in BINARY.iter().enumerate() {
                    if template.contains("X(Y") {
                        cases.push(json!({"kind": "binary", "x": x, "y": y, "t": t}));
                    }
                }
            }
        }
    }
    for text in crate::genr::nearmiss::cell_widening_programs() {
        cases.push(json!({"kind": "near-miss", "text": text}));
    }
    for text in crate::genr::nearmiss::duplicate_name_programs() {
        if text.contains("mut ") {
            cases.push(json!({"kind": "near-miss", "text": text}));
        }
    }
    session.set_extra("cell_typing_matrix_cases", json!(cases.len()));
    session.run_enum(prop, cases);
}
