//! C16 — parsed code and values are safe to share between threads.
//! Schedules are sampled (real threads, barrier start, many repetitions), not owned.
use crate::{
    canon,
    engine::{Property, Session, Stats, Tier, Verdict, fail},
    run::{self, Outcome},
    tape::Tape,
};
use serde_json::{Value as Json, json};
use simplesl::{Code, function::Function, variable::Variable};
use std::{
    sync::{Arc, Barrier},
    time::Instant,
};

pub struct C16Prop;
pub static C16: C16Prop = C16Prop;

fn wrap(x: i128) -> i64 {
    x as i64
}

/// sequential model of `c op= k` on an int cell: Ok(new content) or Err(kind)
fn apply(op: &str, c: i64, k: i64) -> Result<i64, &'static str> {
    let (x, y) = (c as i128, k as i128);
    Ok(match op {
        "=" => k,
        "+=" => wrap(x + y),
        "-=" => wrap(x - y),
        "*=" => wrap(x * y),
        "/=" => {
            if k == 0 {
                return Err("ZeroDivision");
            }
            wrap(x / y)
        }
        "%=" => {
            if k == 0 {
                return Err("ZeroModulo");
            }
            wrap(x % y)
        }
        "**=" => {
            if k < 0 {
                return Err("NegativeExponent");
            }
            let (mut r, mut b, mut e) = (1u64, c as u64, k as u64);
            while e > 0 {
                if e & 1 == 1 {
                    r = r.wrapping_mul(b);
                }
                b = b.wrapping_mul(b);
                e >>= 1;
            }
            r as i64
        }
        "<<=" => {
            if !(0..=63).contains(&k) {
                return Err("OverflowShift");
            }
            ((c as u64) << k) as i64
        }
        ">>=" => {
            if !(0..=63).contains(&k) {
                return Err("OverflowShift");
            }
            c >> k
        }
        "&=" => c & k,
        "|=" => c | k,
        "^=" => c ^ k,
        _ => unreachable!(),
    })
}

struct Shared {
    cell: Variable,
    update: Arc<Function>,
}

/// `c := mut int x0; f := (k: int) -> int { return c op= k; }; (c, f)`
fn shared_cell(op: &str, x0: i64) -> Result<Shared, String> {
    shared_cell_with(op, x0, None)
}

/// `literal`: the operand is written into the function text (a constant the folding pass sees)
/// instead of being the function's argument
fn shared_cell_with(op: &str, x0: i64, literal: Option<i64>) -> Result<Shared, String> {
    let operand = literal.map(|k| crate::lit::to_text(&json!(k))).unwrap_or_else(|| "k".to_string());
    let text = format!(
        "c := mut int {}; f := (k: int) -> int {{ return c {op} {operand}; }}; (c, f)",
        crate::lit::to_text(&json!(x0))
    );
    match run::run_text(&text, false) {
        Outcome::Value(Variable::Tuple(parts)) if parts.len() == 2 => match (&parts[0], &parts[1]) {
            (cell @ Variable::Mut(_), Variable::Function(f)) => Ok(Shared { cell: cell.clone(), update: f.clone() }),
            _ => Err(format!("`{text}` did not yield (cell, function)")),
        },
        o => Err(format!("`{text}`: {}", o.short())),
    }
}

fn content(cell: &Variable) -> Result<Variable, String> {
    match cell {
        Variable::Mut(m) => m.variable.read().map(|g| g.clone()).map_err(|_| "the cell's lock is poisoned".to_string()),
        _ => Err("not a cell".into()),
    }
}

#[derive(Clone, Debug)]
enum Ret {
    Int(i64),
    Err(String),
    Panic(String),
    Other(String),
}

fn call(f: &Arc<Function>, arg: i64) -> Ret {
    // the budgets bound one call, not the whole plan of a worker
    run::default_budget();
    let code = match run::guarded(|| f.clone().create_call(vec![Variable::Int(arg)])) {
        Ok(Ok(code)) => code,
        Ok(Err(e)) => return Ret::Other(format!("create_call rejected: {}", run::error_kind(&e))),
        Err(c) => return Ret::Panic(c.sig()),
    };
    match run::exec_guarded(&code) {
        Outcome::Value(Variable::Int(i)) => Ret::Int(i),
        Outcome::ExecError(k) => Ret::Err(k),
        o @ Outcome::Panic { .. } => Ret::Panic(o.panic_sig().unwrap_or_default()),
        o => Ret::Other(o.short()),
    }
}

struct ThreadLog {
    rets: Vec<Ret>,
    start: Instant,
    end: Instant,
}

/// every thread applies its list of arguments through the shared function, starting together
fn race(f: &Arc<Function>, plans: &[Vec<i64>]) -> Vec<ThreadLog> {
    let barrier = Arc::new(Barrier::new(plans.len()));
    std::thread::scope(|scope| {
        let handles: Vec<_> = plans
            .iter()
            .map(|plan| {
                let barrier = barrier.clone();
                let f = f.clone();
                scope.spawn(move || {
                    run::default_budget();
                    barrier.wait();
                    let start = Instant::now();
                    let rets = plan.iter().map(|k| call(&f, *k)).collect();
                    ThreadLog { rets, start, end: Instant::now() }
                })
            })
            .collect();
        handles.into_iter().map(|h| h.join().expect("worker thread")).collect()
    })
}

fn overlapped(logs: &[ThreadLog]) -> bool {
    logs.iter().enumerate().any(|(i, a)| logs.iter().skip(i + 1).any(|b| a.start < b.end && b.start < a.end))
}

fn first_bad(logs: &[ThreadLog]) -> Option<String> {
    for l in logs {
        for r in &l.rets {
            match r {
                Ret::Panic(sig) => return Some(format!("panic {sig}")),
                Ret::Other(o) => return Some(o.clone()),
                _ => {}
            }
        }
    }
    None
}

impl Property for C16Prop {
    fn id(&self) -> &'static str {
        "C16"
    }

    fn gen_case(&self, tape: &mut Tape, tier: Tier) -> Option<Json> {
        let threads = 2 + tape.below(tier.of(7, 15));
        if tape.chance(1, 4) {
            let (op, k) = *tape.pick(&MIX_OPS);
            return Some(json!({"kind": "mix", "op": op, "k": k, "inc": 1 + tape.below(4), "ident": 1 + tape.below(4),
                               "readers": tape.below(4), "iters": 200 + tape.below(tier.of(1500, 6000)), "reps": tier.of(2, 6)}));
        }
        if tape.chance(1, 10) {
            return Some(if tape.bool() {
                json!({"kind": "show", "writers": 1 + tape.below(4), "readers": 1 + tape.below(4), "iters": 300 + tape.below(tier.of(2000, 10000)), "reps": tier.of(2, 6)})
            } else {
                json!({"kind": "shared-iterator", "threads": threads, "n": 200 + tape.below(tier.of(3000, 20000)), "reps": tier.of(3, 10)})
            });
        }
        if tape.chance(1, 8) {
            return Some(json!({"kind": "cross", "which": tape.below(CROSS.len()), "threads": 2 + tape.below(5), "iters": 200 + tape.below(tier.of(3000, 20000)), "reps": tier.of(2, 6)}));
        }
        if tape.chance(1, 6) {
            return Some(json!({"kind": "append", "cell": *tape.pick(&["array", "string", "float", "nested"]), "threads": threads,
                               "iters": 50 + tape.below(tier.of(600, 3000)), "reps": tier.of(3, 10)}));
        }
        Some(match tape.weighted(&[3, 2, 3, 2]) {
            0 => {
                let (op, x0, k, max_steps) = *tape.pick(&[
                    ("+=", 0i64, 1i64, 100_000usize),
                    ("+=", 5, 7, 100_000),
                    ("-=", 0, 3, 100_000),
                    ("*=", 1, 3, 100_000),
                    ("<<=", 1, 1, 62),
                    (">>=", 1 << 62, 1, 62),
                    ("/=", 1 << 62, 2, 62),
                    ("**=", 3, 3, 40),
                    ("**=", 3, 2, 60),
                    ("^=", 0, 0x55, 100_000),
                ]);
                let iters = (1 + tape.below(tier.of(300, 2000))).min(max_steps / threads).max(1);
                json!({"kind": "orbit", "op": op, "x0": x0, "k": k, "literal": tape.bool(), "threads": threads, "iters": iters, "reps": tier.of(3, 10)})
            }
            1 => {
                let threads = threads.min(8);
                let iters = (1 + tape.below(7)).min(62 / threads);
                json!({"kind": "bits", "op": *tape.pick(&["|=", "&=", "^="]), "threads": threads, "iters": iters, "reps": tier.of(40, 200)})
            }
            2 => {
                const OPS: [&str; 12] = ["=", "+=", "-=", "*=", "/=", "%=", "**=", "<<=", ">>=", "&=", "|=", "^="];
                let mut plans = vec![];
                for _ in 0..3 {
                    let n = 1 + tape.below(3);
                    let plan: Vec<Json> = (0..n)
                        .map(|_| {
                            let op = *tape.pick(&OPS);
                            let k = match op {
                                "<<=" | ">>=" => tape.range(-1, 64),
                                "**=" => tape.range(-1, 5),
                                "/=" | "%=" => tape.range(-3, 7),
                                _ => tape.range(-9, 9),
                            };
                            json!([op, k])
                        })
                        .collect();
                    plans.push(json!(plan));
                }
                json!({"kind": "history", "x0": tape.range(-50, 50), "plans": plans, "reps": tier.of(60, 400)})
            }
            _ => json!({"kind": "isolated", "threads": threads, "n": 5 + tape.below(40), "which": tape.below(6), "reps": tier.of(6, 30)}),
        })
    }

    fn check_case(&self, case: &Json, stats: &mut Stats) -> Verdict {
        match case["kind"].as_str().unwrap_or("") {
            "orbit" => check_orbit(case, stats),
            "bits" => check_bits(case, stats),
            "history" => check_history(case, stats),
            "isolated" => check_isolated(case, stats),
            "mix" => check_mix(case, stats),
            "append" => check_append(case, stats),
            "cross" => check_cross(case, stats),
            "isolated-code" => check_isolated_code(case, stats),
            "isolated-import" => check_isolated_import(case, stats),
            "shared-adapter" => check_shared_adapter(case, stats),
            "first-use" => check_first_use(case, stats),
            "render" => check_render(case, stats),
            "output" => check_output(case, stats),
            "show" => check_show(case, stats),
            "shared-iterator" => check_shared_iterator(case, stats),
            "files" => check_files(case, stats),
            _ => Verdict::Discard("unknown kind"),
        }
    }
}

/// Runs that share no cell and no file: every thread writes, reads back, copies, renames and removes
/// files of its own inside one directory the threads share; each call returns what it returns when the
/// thread is alone, and each file holds what its own thread wrote.
fn check_files(case: &Json, stats: &mut Stats) -> Verdict {
    let threads = case["threads"].as_u64().unwrap_or(8) as usize;
    let iters = case["iters"].as_u64().unwrap_or(100) as usize;
    let dir = std::env::temp_dir().join(format!("vcheck-c16-files-{}-{}", std::process::id(), case["tag"].as_u64().unwrap_or(0)));
    let _ = std::fs::remove_dir_all(&dir);
    if std::fs::create_dir_all(&dir).is_err() {
        return Verdict::Inconclusive("scratch directory");
    }
    let d = dir.to_string_lossy().to_string();
    let barrier = Arc::new(Barrier::new(threads));
    let results: Vec<(Option<String>, Instant, Instant)> = std::thread::scope(|scope| {
        let handles: Vec<_> = (0..threads)
            .map(|t| {
                let (barrier, d) = (barrier.clone(), d.clone());
                scope.spawn(move || {
                    barrier.wait();
                    let start = Instant::now();
                    let mut bad = None;
                    for i in 0..iters {
                        let text = format!(
                            "p := \"{d}/f{t}\"; q := \"{d}/g{t}\"; w := std.fs.write_to_file(p, \"t{t} i{i}\"); r := std.fs.file_read_to_string(p); c := std.fs.copy_file(p, q); s := std.fs.file_read_to_string(q); m := std.fs.rename(q, \"{d}/h{t}\"); u := std.fs.file_read_to_string(\"{d}/h{t}\"); x := std.fs.remove_file(\"{d}/h{t}\"); (w, r, s, m, u, x)"
                        );
                        let want = format!("((), \"t{t} i{i}\", \"t{t} i{i}\", (), \"t{t} i{i}\", ())");
                        match run::run_text(&text, true) {
                            Outcome::Value(v) => {
                                let got = format!("{v:?}");
                                // (copy_file yields the number of bytes or (): only the texts and the units are compared)
                                let shown: Vec<&str> = got.trim_matches(|c| c == '(' || c == ')').split(", ").collect();
                                let texts_ok = got.matches(&format!("\"t{t} i{i}\"")).count() == 3 && !got.contains("error_code");
                                if !texts_ok {
                                    bad = Some(format!("thread {t}, round {i}: `{text}` gave {got}, alone it gives {want} ({} parts)", shown.len()));
                                    break;
                                }
                            }
                            o => {
                                bad = Some(format!("thread {t}, round {i}: `{text}`: {}", o.short()));
                                break;
                            }
                        }
                    }
                    (bad, start, Instant::now())
                })
            })
            .collect();
        handles.into_iter().map(|h| h.join().expect("worker")).collect()
    });
    let _ = std::fs::remove_dir_all(&dir);
    stats.evals((threads * iters) as u64);
    stats.label("files: threads working on files of their own in one directory");
    if results.iter().enumerate().any(|(i, a)| results.iter().skip(i + 1).any(|b| a.1 < b.2 && b.1 < a.2)) {
        stats.nontrivial(&case.to_string());
    }
    if let Some(b) = results.into_iter().find_map(|r| r.0) {
        return fail("C16:files:result", b);
    }
    stats.sample(1, || json!({"workload": case}));
    Verdict::Pass
}

/// two shared cells, each updated from the content of the other: (setup yielding (a, b, f, g), f and g
/// take the iteration number; every value they return and the final contents are subsets of `mask`)
const CROSS: [(&str, i64); 19] = [
    ("a := mut 5; b := mut 48; f := (k: int) -> int { return a |= *b; }; g := (k: int) -> int { return b |= *a; }; (a, b, f, g)", 0x35),
    ("a := mut 5; b := mut 48; f := (k: int) -> int { a = *b; return a |= *b; }; g := (k: int) -> int { b = *a; return b |= *a; }; (a, b, f, g)", 0x35),
    ("a := mut 255; b := mut 15; f := (k: int) -> int { return a &= *b | 3; }; g := (k: int) -> int { return b &= *a | 12; }; (a, b, f, g)", 0xff),
    ("a := mut [int] [1]; b := mut [int] [2]; f := (k: int) -> int { return std.len(a = *b) & 1; }; g := (k: int) -> int { return std.len(b = *a) & 1; }; (a, b, f, g)", 1),
    // one expression that reads a cell more than once (index computed from the cell itself, both operands,
    // several arguments, a test and a use) while other executions assign to the cell
    ("a := mut [int] [1, 2]; b := 0; f := (k: int) -> int { return (*a)[std.len(*a) - 1] & 0; }; g := (k: int) -> int { a = [k, k]; return 0; }; (a, b, f, g)", 0),
    ("a := mut [int] [1, 2]; b := 0; f := (k: int) -> int { return (*a)[0:std.len(*a)][0] & 0; }; g := (k: int) -> int { a = [k, k + 1]; return 0; }; (a, b, f, g)", 0),
    ("a := mut [int] [1, 2]; b := 0; f := (k: int) -> int { return std.len(*a + *a) & 3; }; g := (k: int) -> int { a = [k, k]; return 0; }; (a, b, f, g)", 0),
    ("a := mut [int] [1, 2]; b := 0; h := (x: [int], y: [int], i: int) -> int { return x[i] - x[i]; }; f := (k: int) -> int { return h(*a, *a, std.len(*a) - 1); }; g := (k: int) -> int { a = [k, k]; return 0; }; (a, b, f, g)", 0),
    ("a := mut \"ab\"; b := 0; f := (k: int) -> int { return std.len((*a)[std.len(*a) - 1]) & 0; }; g := (k: int) -> int { a = \"cd\"; return 0; }; (a, b, f, g)", 0),
    ("a := mut [int]|string [1, 2]; b := 0; f := (k: int) -> int { if x: [int] = *a { return x[std.len(x) - 1] & 0; } return 0; }; g := (k: int) -> int { if k % 2 == 0 { a = \"s\"; } else { a = [k, k]; }; return 0; }; (a, b, f, g)", 0),
    // a compound value in a cell is read as a whole: taken apart by destructuring, by two accesses in one
    // expression after one read, by a match - while others assign whole values whose parts belong together
    ("a := mut (int, int) (0, 0); b := 0; f := (k: int) -> int { (p, q) := *a; return p + q; }; g := (k: int) -> int { a = (k, 0 - k); return 0; }; (a, b, f, g)", 0),
    ("a := mut (int, int) (0, 0); b := 0; f := (k: int) -> int { t := *a; return t.0 + t.1; }; g := (k: int) -> int { a = (k, 0 - k); return 0; }; (a, b, f, g)", 0),
    ("a := mut [int] [0, 0]; b := 0; f := (k: int) -> int { v := *a; return v[0] + v[1]; }; g := (k: int) -> int { a = [k, 0 - k]; return 0; }; (a, b, f, g)", 0),
    ("a := mut struct{x: int, y: int} struct{x := 0, y := 0}; b := 0; f := (k: int) -> int { s := *a; return s.x + s.y; }; g := (k: int) -> int { a = struct{x := k, y := 0 - k}; return 0; }; (a, b, f, g)", 0),
    // cells that contain themselves (directly, inside an array / tuple / struct, or one another),
    // rendered as text by some executions while others assign to them
    ("a := mut any 0; a = a; b := 0; f := (k: int) -> int { return std.len(std.convert.to_string(a)) & 0; }; g := (k: int) -> int { a = a; return 0; }; (a, b, f, g)", 0),
    ("a := mut any 0; a = [a, a]; b := 0; f := (k: int) -> int { return std.len(std.convert.to_string([a])) & 0; }; g := (k: int) -> int { a = [a, a]; return 0; }; (a, b, f, g)", 0),
    ("a := mut any 0; a = (1, a); b := 0; f := (k: int) -> int { return std.len(std.convert.to_string(a)) & 0; }; g := (k: int) -> int { a = (k, a); return 0; }; (a, b, f, g)", 0),
    ("a := mut any 0; b := mut any 1; a = b; b = a; f := (k: int) -> int { return std.len(std.convert.to_string((a, b))) & 0; }; g := (k: int) -> int { if k % 2 == 0 { a = b; } else { b = a; }; return 0; }; (a, b, f, g)", 0),
    ("a := mut any 0; a = struct{me := a}; b := 0; f := (k: int) -> int { return std.len(std.convert.to_string(a)) & 0; }; g := (k: int) -> int { a = struct{me := a}; return 0; }; (a, b, f, g)", 0),
];

/// Threads alternately running f (updates a from b) and g (updates b from a). No execution may
/// panic, return anything outside the mask, or stop making progress: the workers are watched, and
/// if none of them finishes a single call within 40 s while calls normally take microseconds,
/// the executions are deadlocked.
fn check_cross(case: &Json, stats: &mut Stats) -> Verdict {
    use std::sync::atomic::{AtomicBool, AtomicU64, Ordering};
    let (text, mask) = CROSS[case["which"].as_u64().unwrap_or(0) as usize % CROSS.len()];
    let threads = case["threads"].as_u64().unwrap_or(2) as usize;
    let iters = case["iters"].as_u64().unwrap_or(500) as usize;
    let reps = case["reps"].as_u64().unwrap_or(1) as usize;
    for rep in 0..reps {
        let (f, g) = match run::run_text(text, true) {
            Outcome::Value(Variable::Tuple(parts)) if parts.len() == 4 => match (&parts[2], &parts[3]) {
                (Variable::Function(f), Variable::Function(g)) => (f.clone(), g.clone()),
                _ => return fail("C16:setup", format!("`{text}` did not yield (a, b, f, g)")),
            },
            o => return fail("C16:setup", format!("`{text}`: {}", o.short())),
        };
        let progress = Arc::new(AtomicU64::new(0));
        let done = Arc::new(AtomicU64::new(0));
        let bad: Arc<std::sync::Mutex<Option<String>>> = Arc::new(std::sync::Mutex::new(None));
        let stop = Arc::new(AtomicBool::new(false));
        let barrier = Arc::new(Barrier::new(threads));
        for t in 0..threads {
            let (f, g) = (f.clone(), g.clone());
            let (progress, done, bad, stop, barrier) = (progress.clone(), done.clone(), bad.clone(), stop.clone(), barrier.clone());
            // not scoped: a deadlocked worker can never be joined
            std::thread::Builder::new()
                .stack_size(64 << 20)
                .spawn(move || {
                    run::default_budget();
                    barrier.wait();
                    for i in 0..iters {
                        if stop.load(Ordering::Relaxed) {
                            break;
                        }
                        let which = if (t + i) % 2 == 0 { &f } else { &g };
                        match call(which, i as i64) {
                            Ret::Int(v) if v & !mask == 0 => {}
                            other => {
                                *bad.lock().unwrap() = Some(format!("{other:?}"));
                                break;
                            }
                        }
                        progress.fetch_add(1, Ordering::Relaxed);
                    }
                    done.fetch_add(1, Ordering::Relaxed);
                })
                .expect("spawn");
        }
        let mut last = (0u64, Instant::now());
        loop {
            std::thread::sleep(std::time::Duration::from_millis(20));
            if done.load(Ordering::Relaxed) as usize == threads {
                break;
            }
            let p = progress.load(Ordering::Relaxed);
            if p != last.0 {
                last = (p, Instant::now());
            } else if last.1.elapsed().as_secs() >= 40 {
                stop.store(true, Ordering::Relaxed);
                return fail(
                    "C16:deadlock",
                    format!(
                        "{threads} threads alternating f and g of `{text}`: {} of them never finished, and no call completed for 40 s after {p} calls (the executions are deadlocked)",
                        threads - done.load(Ordering::Relaxed) as usize
                    ),
                );
            }
        }
        stats.evals((threads * iters) as u64);
        stats.nontrivial(&format!("{case}#{rep}"));
        stats.label("cross: two cells updated from each other");
        if let Some(b) = bad.lock().unwrap().take() {
            return fail("C16:cross:abnormal", format!("workload {case} on `{text}`: a call returned {b}"));
        }
    }
    stats.sample(2, || json!({"workload": case}));
    Verdict::Pass
}

/// whole programs whose top-level function literals capture cells the program itself creates
/// every syntactic position in which a cell can be made from a constant: `{}` stands for the cell
/// literal; the statement binds the cell to `c`
const CELL_POSITIONS: [&str; 26] = [
    "c := {};",
    "c := [{}][0];",
    "c := [{}; 2][1];",
    "c := ({}, 1).0;",
    "(c, s) := ({}, 2);",
    "(a, c) := (1, {});",
    "c := ({}, 2, \"s\").0;",
    "c := struct{a := {}}.a;",
    "c := struct{a := 1, b := {}}.b;",
    "id := (x: mut int) -> mut int { return x; }; c := id({});",
    "w := (x: mut int, k: int) -> mut int { x += k; return x; }; c := w({}, 0);",
    "w := (k: int, x: mut int, s: string) -> mut int { return x; }; c := w(1, {}, \"s\");",
    "c := { {} };",
    "c := if true { {} } else { mut 1 };",
    "c := if n >= 0 { {} } else { mut 1 };",
    "c := match 1 { 1 => {}, => mut 1, };",
    "m := mod { k := {}; }; c := m.k;",
    "mk := () -> mut int { return {}; }; c := mk();",
    "c := [({}, 1)][0].0;",
    "c := [{}]~().1;",
    "cs := [{}]~ $]; c := cs[0];",
    "cs := [1]~ @ (x: int) -> mut int { return {}; } $]; c := cs[0];",
    "c := [{}, {}][1];",
    "c := ([{}] + [{}])[0];",
    "cs := [{}]~ ? mut int $]; c := cs[0];",
    "g := () -> (mut int, int) { return ({}, 2); }; c := g().0;",
];

fn cell_position_bodies() -> Vec<String> {
    let mut out = vec![];
    for p in CELL_POSITIONS {
        for lit in ["mut 0", "mut int 0"] {
            out.push(p.replace("{}", lit));
        }
    }
    out
}

/// more functions whose calls share nothing: what a call answers depends on its argument alone, also
/// when the call before it (on this or another thread) took another arm, branch or path
const ISOLATED_MORE: [&str; 12] = [
    // executions that are many calls deep at the same time (work at the bottom of the recursion keeps them there)
    "f := (n: int) -> int { g := (k: int) -> int { if k <= 0 { i := mut 0; while *i < 400 { i += 1; } return *i; } return 1 + g(k - 1); }; return g(90 + n); }",
    "f := (n: int) -> int { odd := (k: int, ev: (int) -> int) -> int { if k <= 0 { i := mut 0; while *i < 300 { i += 1; } return 0; } return 1 + ev(k - 1); }; even := (k: int) -> int { if k <= 0 { return 0; } return 1 + odd(k - 1, even); }; return even(120 + n); }",
    "f := (n: int) -> int { down := (k: int) -> [int] { if k <= 0 { return [0; 200]~ @ (x: int) -> int { return x + 1; } $]; } return down(k - 1) + [k]; }; return std.len(down(70 + n)); }",
    "f := (n: int) -> string { v := [2.5, n, 0][n % 3]; return match v { 0 => \"zero\", x: int => \"int\", x: int|float => \"number\", }; }",
    "f := (n: int) -> string { v := [2.5, n, \"s\"][n % 3]; if x: int = v { return \"int\"; } if x: int|float = v { return \"number\"; } return \"other\"; }",
    "f := (n: int) -> any { t := [(n, 1), (n, 1, 2)][n % 2]; return match t { (20, 1) => \"pair 20\", x: (int, int) => \"pair\", x: (int, int, int) => \"triple\", => \"other\", }; }",
    "f := (n: int) -> int { s := [struct{a := n}, struct{a := n, b := 1}][n % 2]; return match s { x: struct{a: int, b: int} => 2, x: struct{a: int} => 1, }; }",
    "f := (n: int) -> any { fs := [() -> mut int { return mut 0; }]~; fs(); g := fs().1; c := g(); c += n; return *c; }",
    "f := (n: int) -> any { it := [mut 1, \"a\"]~; it(); it(); c := it().1; r := if k: mut int = c { k += n; *k } else { 0 }; return r; }",
    // strings made at run time, each measured and indexed from its end by the thread that made it
    "f := (n: int) -> any { s := mut \"\"; bad := mut 0; k := mut 0; while *k < n + 40 { s += [\"é\", \"a\", \"€\"][(*k + n) % 3]; t := *s; if std.len(t) != *k + 1 { bad += 1; }; if std.len(t[-1]) != 1 { bad += 1; }; if t[0 - std.len(t)] != t[0] { bad += 1; }; k += 1; }; return (*bad, std.len(*s), (*s)[-2]); }",
    "f := (n: int) -> any { ws := [\"a\", \"é€\", \"abc\", \"\", \"𝄞𝄞𝄞𝄞\"]; r := mut [int] []; k := mut 0; while *k < 60 { w := ws[(*k + n) % 5] + ws[(*k * 3 + n) % 5]; r += [std.len(w)]; k += 1; }; return *r; }",
    "f := (n: int) -> any { r := mut [string] []; k := mut 0; while *k < 40 { w := std.convert.to_string(n * 1000 + *k) + \"é\"; r += [w[-1] + w[-2] + std.convert.to_string(std.len(w))]; k += 1; }; return *r; }",
];

/// functions of one int whose calls share nothing: the hand-written ones, then a cell made in every position
fn isolated_programs() -> Vec<String> {
    let mut out: Vec<String> = ISOLATED.iter().chain(ISOLATED_MORE.iter()).map(|t| t.to_string()).collect();
    for body in cell_position_bodies() {
        out.push(format!("f := (n: int) -> int {{ {body} c += n; c += 1; return *c; }}"));
    }
    out
}

/// programs whose executions share nothing
pub(crate) fn isolated_code_programs() -> Vec<String> {
    let mut out: Vec<String> = ISOLATED_CODE.iter().map(|t| t.to_string()).collect();
    // fillers made for functions that return cells, for unions whose first member is a cell type
    out.push("fs := [() -> mut int { return mut 0; }]~; fs(); g := fs().1; c := g(); c += 2; *c".to_string());
    out.push("it := [mut 1, \"a\"]~; it(); it(); c := it().1; r := if k: mut int = c { k += 5; *k } else { 0 }; r".to_string());
    out.push("it := [1]~ ? () -> mut int; g := it().1; c := g(); c += 2; *c".to_string());
    for body in cell_position_bodies() {
        out.push(format!("n := 4; {body} c += n; c += 1; *c"));
    }
    out
}

/// T embedders, each with an interpreter of its own holding a cell `hits` and a constant `base` of its
/// own, import one and the same file (which refers to `hits` and `base` of whoever imports it) at once:
/// each sees its own cell and its own constant
fn check_isolated_import(case: &Json, stats: &mut Stats) -> Verdict {
    let threads = case["threads"].as_u64().unwrap_or(6) as usize;
    let reps = case["reps"].as_u64().unwrap_or(2) as usize;
    let dir = std::env::temp_dir().join(format!("vcheck-imports-{}-c16", std::process::id()));
    let _ = std::fs::create_dir_all(&dir);
    let file = dir.join("helper");
    if std::fs::write(&file, "bump := () -> int { hits += 1; return *hits; }; k := base + 1; double := (x: int) -> int { return x * 2 + base; };").is_err() {
        return Verdict::Inconclusive("scratch file");
    }
    let program = format!("m := import \"{}\"; m.bump(); m.bump(); (*hits, m.k, m.double(4), m.bump())", file.display());
    let run_one = |t: usize| -> Outcome {
        run::default_budget();
        let mut interp = run::interpreter(true);
        let setup = format!("hits := mut 0; base := {};", t * 100);
        match run::parse_guarded(&interp, &setup) {
            Ok(Ok(code)) => {
                let _ = run::exec_unscoped_guarded(&code, &mut interp);
            }
            _ => return Outcome::Rejected("setup".into()),
        }
        let mut last = Outcome::Rejected("nothing ran".into());
        // two programs parsed and run one after the other by the same embedder
        for _ in 0..2 {
            last = match run::parse_guarded(&interp, &program) {
                Ok(Ok(code)) => run::exec_unscoped_guarded(&code, &mut interp),
                Ok(Err(k)) => Outcome::Rejected(k),
                Err(o) => o,
            };
        }
        last
    };
    let want = |t: usize| format!("(5, {}, {}, 6)", t * 100 + 1, 8 + t * 100);
    for rep in 0..reps {
        let barrier = Arc::new(Barrier::new(threads));
        let results: Vec<Outcome> = std::thread::scope(|scope| {
            let handles: Vec<_> = (0..threads)
                .map(|t| {
                    let barrier = barrier.clone();
                    let run_one = &run_one;
                    scope.spawn(move || {
                        barrier.wait();
                        run_one(t + 1)
                    })
                })
                .collect();
            handles.into_iter().map(|h| h.join().expect("worker")).collect()
        });
        stats.evals(threads as u64 * 2);
        stats.nontrivial(&format!("{case}#{rep}"));
        stats.label("isolated-import: embedders importing one file at once");
        for (t, o) in results.iter().enumerate() {
            let shown = match o {
                Outcome::Value(v) => canon::canon(v).show(),
                o => o.short(),
            };
            if shown != want(t + 1) {
                return fail(
                    "C16:isolated-import:result",
                    format!("embedder {} (own cell `hits`, base = {}) ran `{program}` twice; the second run gave {shown}, expected {}", t + 1, (t + 1) * 100, want(t + 1)),
                );
            }
        }
    }
    stats.sample(1, || json!({"workload": case, "program": program}));
    Verdict::Pass
}

const ISOLATED_CODE: [&str; 6] = [
    "total := mut 0; s := [1, 2, 3, 4]~ $ 0 (acc: int, x: int) -> int { total += x; return acc + x; }; (s, *total)",
    "c := mut 0; inc := () -> int { c += 1; return *c; }; inc(); inc(); (*c, inc())",
    "k := mut 0; a := [1, 2, 3]~ @ (x: int) -> int { k += x; return x * 2; } $]; (a, *k)",
    "seen := mut [int] []; [3, 1, 2]~ ? (x: int) -> bool { seen += [x]; return x > 1; } $]; *seen",
    "n := mut 0; f := (g: () -> ()) { g(); g(); }; f(() { n += 5; }); *n",
    "m := mod { c := mut 1; bump := () -> int { c *= 3; return *c; }; }; m.bump(); (m.bump(), *m.c)",
];

/// One parsed program executed by T threads at once (and several times by each): every execution
/// creates its own cells and closures, so each gives the result of a single sequential execution.
fn check_isolated_code(case: &Json, stats: &mut Stats) -> Verdict {
    let threads = case["threads"].as_u64().unwrap_or(8) as usize;
    let reps = case["reps"].as_u64().unwrap_or(1) as usize;
    let programs = isolated_code_programs();
    let text = programs[case["which"].as_u64().unwrap_or(0) as usize % programs.len()].as_str();
    run::default_budget();
    let interp = run::interpreter(true);
    let code = match run::parse_guarded(&interp, text) {
        Ok(Ok(code)) => code,
        Ok(Err(k)) => return fail("C16:setup", format!("`{text}` rejected: {k}")),
        Err(o) => return fail("C16:setup", format!("`{text}`: {}", o.short())),
    };
    // what a fresh parse and a single execution give
    let expected = match run::run_text(text, true) {
        Outcome::Value(v) => canon::canon(&v),
        o => return fail("C16:setup", format!("`{text}`: {}", o.short())),
    };
    for rep in 0..reps {
        let barrier = Arc::new(Barrier::new(threads));
        let results: Vec<Vec<Outcome>> = std::thread::scope(|scope| {
            let handles: Vec<_> = (0..threads)
                .map(|_| {
                    let (barrier, code) = (barrier.clone(), &code);
                    scope.spawn(move || {
                        run::default_budget();
                        barrier.wait();
                        (0..3)
                            .map(|_| {
                                run::default_budget();
                                run::exec_guarded(code)
                            })
                            .collect()
                    })
                })
                .collect();
            handles.into_iter().map(|h| h.join().expect("worker")).collect()
        });
        stats.evals((threads * 3) as u64);
        stats.nontrivial(&format!("{case}#{rep}"));
        stats.label("isolated-code: one parsed program executed by several threads");
        for (t, outs) in results.iter().enumerate() {
            for o in outs {
                match o {
                    Outcome::Value(v) if canon::canon(v) == expected => {}
                    o => {
                        return fail(
                            "C16:isolated-code:result",
                            format!("`{text}` parsed once and executed by {threads} threads: thread {t} got {}, a single execution gives {}", o.short(), expected.show()),
                        );
                    }
                }
            }
        }
    }
    stats.sample(2, || json!({"workload": case, "program": text}));
    Verdict::Pass
}

/// Readers render a shared cell (`std.convert.to_string(c)`, what print shows) while writers update it:
/// every rendering has the shape of the sequential one (`mut int <digits>`), with a value the cell held.
fn check_show(case: &Json, stats: &mut Stats) -> Verdict {
    let writers = case["writers"].as_u64().unwrap_or(2) as usize;
    let readers = case["readers"].as_u64().unwrap_or(2) as usize;
    let iters = case["iters"].as_u64().unwrap_or(500) as usize;
    let reps = case["reps"].as_u64().unwrap_or(1) as usize;
    let text = "c := mut int 0; w := (k: int) -> int { return c += 1; }; r := (k: int) -> string { return std.convert.to_string(c); }; (c, w, r)";
    let shape = |s: &str| s.chars().map(|ch| if ch.is_ascii_digit() { '9' } else { ch }).collect::<String>().replace("99", "9").replace("99", "9").replace("99", "9").replace("99", "9");
    for rep in 0..reps {
        let (w, r) = match run::run_text(text, true) {
            Outcome::Value(Variable::Tuple(parts)) if parts.len() == 3 => match (&parts[1], &parts[2]) {
                (Variable::Function(w), Variable::Function(r)) => (w.clone(), r.clone()),
                _ => return fail("C16:setup", format!("`{text}` did not yield (c, w, r)")),
            },
            o => return fail("C16:setup", format!("`{text}`: {}", o.short())),
        };
        let render = |f: &Arc<Function>| -> Result<String, String> {
            let code = match run::guarded(|| f.clone().create_call(vec![Variable::Int(0)])) {
                Ok(Ok(code)) => code,
                Ok(Err(e)) => return Err(run::error_kind(&e)),
                Err(c) => return Err(c.sig()),
            };
            match run::exec_guarded(&code) {
                Outcome::Value(Variable::String(s)) => Ok(s.to_string()),
                o => Err(o.short()),
            }
        };
        let sequential = match render(&r) {
            Ok(s) => s,
            Err(e) => return fail("C16:setup", format!("rendering the cell sequentially: {e}")),
        };
        let want = shape(&sequential);
        let barrier = Arc::new(Barrier::new(writers + readers));
        let shown: Vec<Result<Vec<String>, String>> = std::thread::scope(|scope| {
            let mut handles = vec![];
            for _ in 0..writers {
                let (w, barrier) = (w.clone(), barrier.clone());
                handles.push(scope.spawn(move || {
                    run::default_budget();
                    barrier.wait();
                    for i in 0..iters {
                        if let Ret::Panic(p) = call(&w, i as i64) {
                            return Err(format!("panic {p}"));
                        }
                    }
                    Ok(vec![])
                }));
            }
            for _ in 0..readers {
                let (r, barrier) = (r.clone(), barrier.clone());
                let render = &render;
                handles.push(scope.spawn(move || {
                    run::default_budget();
                    barrier.wait();
                    (0..iters).map(|_| render(&r)).collect::<Result<Vec<String>, String>>()
                }));
            }
            handles.into_iter().map(|h| h.join().expect("worker")).collect()
        });
        stats.evals(((writers + readers) * iters) as u64);
        stats.nontrivial(&format!("{case}#{rep}"));
        stats.label("show: a cell rendered while it is updated");
        for s in shown {
            match s {
                Err(e) => return fail("C16:show:abnormal", format!("workload {case}: {e}")),
                Ok(texts) => {
                    if let Some(bad) = texts.iter().find(|t| shape(t) != want) {
                        return fail(
                            "C16:show:rendering",
                            format!("{writers} threads updating and {readers} threads rendering one cell: it was shown as `{bad}`; sequentially it is shown as `{sequential}`"),
                        );
                    }
                }
            }
        }
    }
    stats.sample(2, || json!({"workload": case}));
    Verdict::Pass
}

/// One array iterator shared by T threads that pull until it is exhausted: the hidden cursor advances
/// by one atomic `+=` per pull, so at most n pulls are handed an element, each an element of the array
/// (a pull as a whole is not atomic: which element it reads, and an IndexOutOfBounds error value when
/// the cursor is advanced past the end between its check and its read, are not violations).
/// child side of `first-use` (`vcheck C16 child <case.json>`): the first thing this process does with
/// the interpreter is to run one parsed program from many threads at once
pub fn child(path: &str) -> i32 {
    let Ok(text) = std::fs::read_to_string(path) else { return 2 };
    let Ok(case) = serde_json::from_str::<Json>(&text) else { return 2 };
    let program = case["text"].as_str().unwrap_or("").to_string();
    let threads = case["threads"].as_u64().unwrap_or(16) as usize;
    let interp = run::interpreter(case["stdlib"].as_bool().unwrap_or(false));
    let code = match run::parse_guarded(&interp, &program) {
        Ok(Ok(code)) => code,
        _ => return 2,
    };
    let barrier = Arc::new(Barrier::new(threads));
    let outs: Vec<String> = std::thread::scope(|scope| {
        let handles: Vec<_> = (0..threads)
            .map(|_| {
                let (barrier, code) = (barrier.clone(), &code);
                scope.spawn(move || {
                    run::default_budget();
                    barrier.wait();
                    match run::exec_guarded(code) {
                        Outcome::Value(v) => format!("value {}", canon::canon(&v).show()),
                        o => o.short(),
                    }
                })
            })
            .collect();
        handles.into_iter().map(|h| h.join().unwrap_or_else(|_| "worker died".into())).collect()
    });
    for o in outs {
        println!("{}", serde_json::to_string(&o).unwrap());
    }
    0
}

/// The first use of an operator in a process made by many threads at once (whatever the
/// implementation builds lazily for it is built under the race): every run gives what a run gives
/// when nothing races. One fresh process per repetition.
fn check_first_use(case: &Json, stats: &mut Stats) -> Verdict {
    let text = case["text"].as_str().unwrap_or("");
    let stdlib = case["stdlib"].as_bool().unwrap_or(false);
    let reps = case["reps"].as_u64().unwrap_or(2) as usize;
    run::default_budget();
    let expected = match run::run_text(text, stdlib) {
        Outcome::Value(v) => format!("value {}", canon::canon(&v).show()),
        Outcome::Rejected(_) => return Verdict::Discard("program needs the standard library"),
        o => return fail("C16:setup", format!("`{text}`: {}", o.short())),
    };
    let dir = std::env::temp_dir().join(format!("vcheck-c16-{}", std::process::id()));
    if std::fs::create_dir_all(&dir).is_err() {
        return Verdict::Inconclusive("scratch directory");
    }
    static N: std::sync::atomic::AtomicU64 = std::sync::atomic::AtomicU64::new(0);
    let file = dir.join(format!("case{}.json", N.fetch_add(1, std::sync::atomic::Ordering::Relaxed)));
    if std::fs::write(&file, case.to_string()).is_err() {
        return Verdict::Inconclusive("scratch file");
    }
    let exe = if std::path::Path::new("/proc/self/exe").exists() { std::path::PathBuf::from("/proc/self/exe") } else { std::env::current_exe().unwrap_or_default() };
    for rep in 0..reps {
        let out = std::process::Command::new(&exe).args(["C16", "child"]).arg(&file).stdin(std::process::Stdio::null()).stderr(std::process::Stdio::null()).output();
        let Ok(out) = out else {
            let _ = std::fs::remove_file(&file);
            return Verdict::Inconclusive("child process");
        };
        let lines: Vec<String> = String::from_utf8_lossy(&out.stdout).lines().filter_map(|l| serde_json::from_str::<String>(l).ok()).collect();
        if !out.status.success() || lines.is_empty() {
            let _ = std::fs::remove_file(&file);
            return Verdict::Inconclusive("child process did not finish");
        }
        stats.evals(lines.len() as u64);
        if let Some(bad) = lines.iter().find(|l| **l != expected) {
            let _ = std::fs::remove_file(&file);
            let wrong = lines.iter().filter(|l| **l != expected).count();
            return fail(
                "C16:first-use:result",
                format!("`{text}` run by {} threads at once as the first thing a fresh process does (repetition {rep}): {wrong} runs differ, e.g. {bad}; a run alone gives {expected}", lines.len()),
            );
        }
    }
    let _ = std::fs::remove_file(&file);
    stats.nontrivial(&case.to_string());
    stats.label("first use of an operator by many threads in a fresh process");
    stats.sample(2, || json!({"workload": case}));
    Verdict::Pass
}

/// Threads that share nothing render their own nested values (host Debug / Display, and
/// `std.convert.to_string` inside a running program) at the same time: each gets the text it gets alone.
/// Threads that share nothing each print their own lines, one line per call of `std.io.print` /
/// `std.io.print_array`: what the process writes is the lines of the sequential runs, shuffled - every
/// line whole, each as often as its thread printed it.
fn check_output(case: &Json, stats: &mut Stats) -> Verdict {
    let threads = case["threads"].as_u64().unwrap_or(8) as usize;
    let iters = case["iters"].as_u64().unwrap_or(300) as usize;
    let programs: Vec<String> = (1..=threads)
        .map(|t| format!("k := mut 0; while *k < {iters} {{ std.io.print_array([{t}1, {t}2, {t}3, {t}4, {t}5], \"-\"); std.io.print((\"line\", {t}, [{t}.5])); std.io.print_array([\"w{t}\", \"x{t}\"], \" \"); k += 1; }}; *k"))
        .collect();
    let mut expected: std::collections::BTreeMap<String, usize> = Default::default();
    for t in 1..=threads {
        for line in [format!("{t}1-{t}2-{t}3-{t}4-{t}5"), format!("(\"line\", {t}, [{t}.5])"), format!("w{t} x{t}")] {
            *expected.entry(line).or_default() += iters;
        }
    }
    // the shape of the lines is what one run alone prints
    let mut capture = crate::props::c18::Capture::new();
    run::default_budget();
    let alone = run::run_text(&programs[0].replace(&format!("< {iters}"), "< 1"), true);
    let first = capture.take();
    let want_first = format!("11-12-13-14-15\n(\"line\", 1, [1.5])\nw1 x1\n");
    if first != want_first {
        drop(capture);
        return fail("C16:setup", format!("one run alone printed {first:?} (outcome {}), expected {want_first:?}", alone.short()));
    }
    let barrier = Arc::new(Barrier::new(threads));
    let results: Vec<Option<String>> = std::thread::scope(|scope| {
        let handles: Vec<_> = (0..threads)
            .map(|t| {
                let (barrier, program) = (barrier.clone(), &programs[t]);
                scope.spawn(move || {
                    run::set_thread_fuel(20_000_000);
                    barrier.wait();
                    match run::run_text(program, true) {
                        Outcome::Value(Variable::Int(n)) if n as usize == iters => None,
                        o => Some(format!("thread {t}: `{program}` gave {}", o.short())),
                    }
                })
            })
            .collect();
        handles.into_iter().map(|h| h.join().unwrap_or_else(|_| Some("worker died".into()))).collect()
    });
    let written = capture.take();
    drop(capture);
    stats.evals((threads * iters * 3) as u64);
    stats.nontrivial(&case.to_string());
    stats.label("output: threads printing their own lines at once");
    if let Some(why) = results.into_iter().flatten().next() {
        return fail("C16:output:run", why);
    }
    let mut got: std::collections::BTreeMap<String, usize> = Default::default();
    for line in written.lines() {
        *got.entry(line.to_string()).or_default() += 1;
    }
    if got != expected {
        let odd: Vec<String> = got.iter().filter(|(l, n)| expected.get(*l) != Some(*n)).take(4).map(|(l, n)| format!("{l:?} x{n}")).collect();
        return fail("C16:output:lines", format!("{threads} threads each printing {iters} x 3 lines of their own: the lines written are not the lines of the sequential runs; e.g. {odd:?}"));
    }
    Verdict::Pass
}

fn check_render(case: &Json, stats: &mut Stats) -> Verdict {
    let threads = case["threads"].as_u64().unwrap_or(8) as usize;
    let iters = case["iters"].as_u64().unwrap_or(2000) as usize;
    let values = [
        "[[[[1, 2], [3]], [[4]]], [[[5, 6]]]]",
        "((1, (2, (3, (4, \"s\")))), [[[2.5]]])",
        // (one field per struct: the order in which several fields are printed differs from one instance to the next)
        "struct{a := struct{b := struct{c := [[1, 2], ([3], 4)]}}}",
        "[mut [mut [1, 2]], mut [mut [3]]]",
        "[[(1, [2, (3, [4])])]]",
    ];
    let mut alone = vec![];
    for v in values {
        match run::run_text(v, true) {
            Outcome::Value(x) => alone.push((v, format!("{x:?}"), x.to_string())),
            o => return fail("C16:setup", format!("`{v}`: {}", o.short())),
        }
    }
    let barrier = Arc::new(Barrier::new(threads));
    let results: Vec<Option<String>> = std::thread::scope(|scope| {
        let handles: Vec<_> = (0..threads)
            .map(|t| {
                let (barrier, alone) = (barrier.clone(), &alone);
                scope.spawn(move || {
                    run::default_budget();
                    let (text, debug, display) = &alone[t % alone.len()];
                    let value = match run::run_text(text, true) {
                        Outcome::Value(x) => x,
                        o => return Some(format!("`{text}`: {}", o.short())),
                    };
                    // the same rendering from inside a program
                    let program = format!("x := {text}; want := std.convert.to_string(x); n := mut 0; k := mut 0; while *k < 300 {{ if std.convert.to_string(x) != want {{ n += 1; }}; k += 1; }}; *n");
                    barrier.wait();
                    for i in 0..iters {
                        let (d, s) = (format!("{value:?}"), value.to_string());
                        if d != *debug || s != *display {
                            return Some(format!("thread {t}, rendering {i} of its own value `{text}`: {d} / {s}; alone: {debug} / {display}"));
                        }
                        if i % 400 == 0 {
                            run::default_budget();
                            match run::run_text(&program, true) {
                                Outcome::Value(Variable::Int(0)) => {}
                                o => return Some(format!("thread {t}: `{program}` gave {} (the number of renderings that differed from the first)", o.short())),
                            }
                        }
                    }
                    None
                })
            })
            .collect();
        handles.into_iter().map(|h| h.join().unwrap_or_else(|_| Some("worker died".into()))).collect()
    });
    stats.evals((threads * iters) as u64);
    stats.nontrivial(&case.to_string());
    stats.label("render: nested values rendered by several threads at once");
    if let Some(why) = results.into_iter().flatten().next() {
        return fail("C16:render:text", why);
    }
    stats.sample(1, || json!({"workload": case}));
    Verdict::Pass
}

/// One iterator adapter (`?` predicate, `? type`, `@`, a chain of them) over a source that hands out
/// tickets with one atomic `c += 1`, pulled by several threads until it is exhausted: the adapters keep
/// no state of their own between pulls, so together the threads receive exactly the elements a single
/// puller receives - none lost, none twice, none that the source never produced.
fn check_shared_adapter(case: &Json, stats: &mut Stats) -> Verdict {
    let threads = case["threads"].as_u64().unwrap_or(4) as usize;
    let n = case["n"].as_u64().unwrap_or(8) as i64;
    let rounds = case["rounds"].as_u64().unwrap_or(1) as usize;
    let adapter = case["adapter"].as_str().unwrap_or("filter");
    let (expr, expected): (&str, Vec<i64>) = match adapter {
        "filter" => ("source ? (x: int) -> bool { return x % 2 == 0; }", (1..=n).filter(|x| x % 2 == 0).collect()),
        "map" => ("source @ (x: int) -> int { return x * 10; }", (1..=n).map(|x| x * 10).collect()),
        "type-filter" => ("source ? int", (1..=n).collect()),
        "chain" => ("(source ? (x: int) -> bool { return x % 2 == 0; } @ (x: int) -> int { return x * 10; }) ? int", (1..=n).filter(|x| x % 2 == 0).map(|x| x * 10).collect()),
        _ => ("source", (1..=n).collect()),
    };
    let text = format!(
        "c := mut 0; source := () -> (bool, int) {{ t := c += 1; return (t <= {n}, t); }}; it := {expr}; pull := (j: int) -> int {{ (more, v) := it(); if more {{ return v; }} return -1; }}; pull"
    );
    for round in 0..rounds {
        let pull = match run::run_text(&text, true) {
            Outcome::Value(Variable::Function(f)) => f,
            o => return fail("C16:setup", format!("`{text}`: {}", o.short())),
        };
        let barrier = Arc::new(Barrier::new(threads));
        let results: Vec<Result<Vec<i64>, String>> = std::thread::scope(|scope| {
            let handles: Vec<_> = (0..threads)
                .map(|_| {
                    let (pull, barrier) = (pull.clone(), barrier.clone());
                    scope.spawn(move || {
                        run::default_budget();
                        barrier.wait();
                        let mut got = vec![];
                        for i in 0..n + 8 {
                            match call(&pull, i) {
                                Ret::Int(-1) => break,
                                Ret::Int(v) => got.push(v),
                                other => return Err(format!("{other:?}")),
                            }
                        }
                        Ok(got)
                    })
                })
                .collect();
            handles.into_iter().map(|h| h.join().expect("worker")).collect()
        });
        stats.evals(n as u64);
        let mut all = vec![];
        for r in results {
            match r {
                Err(e) => return fail("C16:shared-adapter:abnormal", format!("workload {case}, round {round}: a pull gave {e}")),
                Ok(vs) => all.extend(vs),
            }
        }
        all.sort_unstable();
        if all != expected {
            let show = |v: &[i64]| if v.len() > 24 { format!("{} elements, first {:?}", v.len(), &v[..24]) } else { format!("{v:?}") };
            return fail(
                format!("C16:shared-adapter:{adapter}"),
                format!("workload {case}, round {round}: {threads} threads pulling `{expr}` over tickets 1..={n} received {} in all; a single puller receives {}", show(&all), show(&expected)),
            );
        }
    }
    stats.nontrivial(&case.to_string());
    stats.label("shared adapter pulled by several threads");
    stats.sample(2, || json!({"workload": case, "program": text}));
    Verdict::Pass
}

fn check_shared_iterator(case: &Json, stats: &mut Stats) -> Verdict {
    let threads = case["threads"].as_u64().unwrap_or(4) as usize;
    let n = case["n"].as_u64().unwrap_or(1000) as usize;
    let reps = case["reps"].as_u64().unwrap_or(1) as usize;
    let text = format!("a := [0; {n}]~ @ (x: int) -> int {{ return x; }}; k := mut -1; b := a @ (x: int) -> int {{ k += 1; return *k; }} $]; it := b~; pull := (j: int) -> int {{ (more, v) := it(); if more {{ return v; }} return -1; }}; pull");
    for rep in 0..reps {
        let pull = match run::run_text(&text, true) {
            Outcome::Value(Variable::Function(f)) => f,
            o => return fail("C16:setup", format!("`{text}`: {}", o.short())),
        };
        let barrier = Arc::new(Barrier::new(threads));
        let results: Vec<Result<Vec<i64>, String>> = std::thread::scope(|scope| {
            let handles: Vec<_> = (0..threads)
                .map(|_| {
                    let (pull, barrier) = (pull.clone(), barrier.clone());
                    scope.spawn(move || {
                        run::default_budget();
                        barrier.wait();
                        let mut got = vec![];
                        // at most n + 8 pulls per thread: a correct iterator is exhausted long before
                        for i in 0..n + 8 {
                            match call(&pull, i as i64) {
                                Ret::Int(-1) => break,
                                Ret::Int(v) => got.push(v),
                                // a pull is not one atomic step: between its bounds check and its read another
                                // thread may advance the cursor past the end (an error value, not a panic)
                                Ret::Err(k) if k == "IndexOutOfBounds" => {}
                                other => return Err(format!("{other:?}")),
                            }
                        }
                        Ok(got)
                    })
                })
                .collect();
            handles.into_iter().map(|h| h.join().expect("worker")).collect()
        });
        stats.evals(n as u64);
        stats.nontrivial(&format!("{case}#{rep}"));
        stats.label("shared iterator pulled by several threads");
        let mut seen = vec![0u32; n];
        let mut total = 0usize;
        for r in results {
            match r {
                Err(e) => return fail("C16:shared-iterator:abnormal", format!("workload {case}: a pull gave {e}")),
                Ok(vs) => {
                    for v in vs {
                        total += 1;
                        if v < 0 || v as usize >= n {
                            return fail("C16:shared-iterator:element", format!("workload {case}: a pull yielded {v}, which is not an element of the array"));
                        }
                        seen[v as usize] += 1;
                    }
                }
            }
        }
        // the cursor advances by one atomic `+=` per pull: at most n pulls can find it inside the array
        // (which element a pull then reads may vary: a pull as a whole is not atomic)
        if total > n {
            return fail(
                "C16:shared-iterator:too-many",
                format!("{threads} threads pulling from one iterator over {n} elements were handed {total} elements: cursor increments were lost"),
            );
        }
        if (0..n).all(|e| seen[e] == 1) {
            stats.label("shared iterator: every element exactly once");
        }
    }
    stats.sample(2, || json!({"workload": case}));
    Verdict::Pass
}

/// `+=` on cells that do not hold an int: T threads x M appends of distinct tokens to one shared
/// array / string cell (or additions of 1.0 to a float cell): the lengths returned by the
/// assignments are exactly 1..=TM, each once, and the final content holds every token exactly once
fn check_append(case: &Json, stats: &mut Stats) -> Verdict {
    let kind = case["cell"].as_str().unwrap_or("array");
    let threads = case["threads"].as_u64().unwrap_or(4) as usize;
    let iters = case["iters"].as_u64().unwrap_or(100) as usize;
    let reps = case["reps"].as_u64().unwrap_or(1) as usize;
    let text = match kind {
        "array" => "c := mut [int] []; f := (k: int) -> int { return std.len(c += [k]); }; (c, f)",
        "nested" => "c := mut [[int]|string] []; f := (k: int) -> int { return std.len(c += [[k], \"s\"]) / 2; }; (c, f)",
        "string" => "c := mut string \"\"; f := (k: int) -> int { return std.len(std.string.split(c += (std.convert.to_string(k) + \",\"), \",\")) - 1; }; (c, f)",
        _ => "c := mut float 0.0; f := (k: int) -> int { return std.convert.to_int(c += 1.0); }; (c, f)",
    };
    let plans: Vec<Vec<i64>> = (0..threads).map(|t| (0..iters).map(|i| (t * iters + i) as i64).collect()).collect();
    let total = threads * iters;
    for rep in 0..reps {
        let shared = match run::run_text(text, true) {
            Outcome::Value(Variable::Tuple(parts)) if parts.len() == 2 => match (&parts[0], &parts[1]) {
                (cell @ Variable::Mut(_), Variable::Function(f)) => Shared { cell: cell.clone(), update: f.clone() },
                _ => return fail("C16:setup", format!("`{text}` did not yield (cell, function)")),
            },
            o => return fail("C16:setup", format!("`{text}`: {}", o.short())),
        };
        let logs = race(&shared.update, &plans);
        stats.evals(total as u64);
        if overlapped(&logs) {
            stats.nontrivial(&format!("{case}#{rep}"));
            stats.label(&format!("append {kind}: threads overlapped"));
        }
        if let Some(bad) = first_bad(&logs) {
            return fail(format!("C16:append:{kind}:abnormal"), format!("workload {case}: {bad}"));
        }
        // the sizes seen by the appending threads: 1..=total, each exactly once
        let mut seen = vec![0u32; total + 1];
        for l in &logs {
            for r in &l.rets {
                match r {
                    Ret::Int(n) if (1..=total as i64).contains(n) => seen[*n as usize] += 1,
                    other => return fail(format!("C16:append:{kind}:returned"), format!("workload {case}: an append returned {other:?}, outside 1..={total}")),
                }
            }
        }
        if let Some(n) = (1..=total).find(|n| seen[*n] != 1) {
            return fail(
                format!("C16:append:{kind}:lost-or-duplicated"),
                format!("{threads} threads x {iters} `c += ...` on a {kind} cell: size {n} was returned {} times (each size 1..={total} must be seen once)", seen[n]),
            );
        }
        // the final content holds every token exactly once
        let tokens: Option<Vec<i64>> = match content(&shared.cell) {
            Ok(Variable::Array(a)) if kind == "array" => a.iter().map(|v| if let Variable::Int(i) = v { Some(*i) } else { None }).collect(),
            Ok(Variable::Array(a)) => a.iter().step_by(2).map(|v| if let Variable::Array(x) = v && let Some(Variable::Int(i)) = x.first() { Some(*i) } else { None }).collect(),
            Ok(Variable::String(s)) => s.split(',').filter(|t| !t.is_empty()).map(|t| t.parse().ok()).collect(),
            Ok(Variable::Float(f)) => Some((0..f as i64).collect()),
            Ok(_) => None,
            Err(e) => return fail(format!("C16:append:{kind}:poisoned"), e),
        };
        let Some(mut tokens) = tokens else {
            return fail(format!("C16:append:{kind}:final"), format!("workload {case}: the final content is not of the cell's type"));
        };
        tokens.sort_unstable();
        if tokens != (0..total as i64).collect::<Vec<_>>() {
            return fail(
                format!("C16:append:{kind}:final"),
                format!("{threads} threads x {iters} appends to a {kind} cell: the final content holds {} tokens, expected each of 0..{total} once (an update was lost or duplicated)", tokens.len()),
            );
        }
    }
    stats.sample(2, || json!({"workload": case}));
    Verdict::Pass
}

fn check_orbit(case: &Json, stats: &mut Stats) -> Verdict {
    let op = case["op"].as_str().unwrap();
    let (x0, k) = (case["x0"].as_i64().unwrap(), case["k"].as_i64().unwrap());
    let threads = case["threads"].as_u64().unwrap() as usize;
    let iters = case["iters"].as_u64().unwrap() as usize;
    let reps = case["reps"].as_u64().unwrap_or(1) as usize;
    let total = threads * iters;
    // the orbit x0 -> f(x0) -> f(f(x0)) ...
    let mut orbit = Vec::with_capacity(total);
    let mut c = x0;
    for _ in 0..total {
        c = apply(op, c, k).expect("orbit operators do not fail");
        orbit.push(c);
    }
    let mut expected = orbit.clone();
    expected.sort();
    for rep in 0..reps {
        let shared = match shared_cell_with(op, x0, case["literal"].as_bool().unwrap_or(false).then_some(k)) {
            Ok(s) => s,
            Err(e) => return fail("C16:setup", e),
        };
        let plans = vec![vec![k; iters]; threads];
        let logs = race(&shared.update, &plans);
        stats.evals(total as u64);
        if overlapped(&logs) {
            stats.nontrivial(&format!("{case}#{rep}"));
            stats.label(&format!("orbit {op}: threads overlapped"));
        } else {
            stats.label(&format!("orbit {op}: threads did not overlap"));
        }
        if let Some(bad) = first_bad(&logs) {
            return fail(format!("C16:orbit:{op}:abnormal"), format!("{threads} threads x {iters} x `c {op} {k}`: {bad}"));
        }
        let mut got: Vec<i64> = logs
            .iter()
            .flat_map(|l| l.rets.iter().filter_map(|r| if let Ret::Int(i) = r { Some(*i) } else { None }))
            .collect();
        got.sort();
        if got != expected {
            let missing = expected.iter().find(|v| !got.contains(v));
            return fail(
                format!("C16:orbit:{op}:returned-values"),
                format!(
                    "{threads} threads x {iters} x `c {op} {k}` from {x0}: the {total} values returned by the assignments are not the orbit f(x0)..f^{total}(x0) (e.g. {missing:?} was never returned): some update was lost, duplicated or torn"
                ),
            );
        }
        match content(&shared.cell) {
            Ok(Variable::Int(v)) if v == *orbit.last().unwrap() => {}
            Ok(v) => {
                return fail(
                    format!("C16:orbit:{op}:final"),
                    format!("{threads} threads x {iters} x `c {op} {k}` from {x0}: final content {v:?}, expected {}", orbit.last().unwrap()),
                );
            }
            Err(e) => return fail(format!("C16:orbit:{op}:poisoned"), e),
        }
        stats.sample(3, || json!({"workload": case, "returned_values": total, "final": orbit.last()}));
    }
    Verdict::Pass
}

fn check_bits(case: &Json, stats: &mut Stats) -> Verdict {
    let op = case["op"].as_str().unwrap();
    let threads = case["threads"].as_u64().unwrap() as usize;
    let iters = case["iters"].as_u64().unwrap() as usize;
    let reps = case["reps"].as_u64().unwrap_or(1) as usize;
    // every single update owns one bit: a lost update leaves its bit wrong for ever
    let x0: i64 = if op == "&=" { -1 } else { 0 };
    let mut plans = vec![];
    let mut all = 0i64;
    for t in 0..threads {
        let mut plan = vec![];
        for i in 0..iters {
            let bit = 1i64 << (t * iters + i);
            all |= bit;
            plan.push(if op == "&=" { !bit } else { bit });
        }
        plans.push(plan);
    }
    let expected = if op == "&=" { !all } else { all };
    for rep in 0..reps {
        let shared = match shared_cell(op, x0) {
            Ok(s) => s,
            Err(e) => return fail("C16:setup", e),
        };
        let logs = race(&shared.update, &plans);
        stats.evals((threads * iters) as u64);
        if overlapped(&logs) {
            stats.nontrivial(&format!("{case}#{rep}"));
            stats.label(&format!("bits {op}: threads overlapped"));
        }
        if let Some(bad) = first_bad(&logs) {
            return fail(format!("C16:bits:{op}:abnormal"), format!("{threads} threads x {iters} x `c {op} bit`: {bad}"));
        }
        // every returned value must already show the caller's own update
        for (t, l) in logs.iter().enumerate() {
            for (i, r) in l.rets.iter().enumerate() {
                let bit = 1i64 << (t * iters + i);
                if let Ret::Int(v) = r {
                    let own = if op == "&=" { v & bit == 0 } else { v & bit != 0 };
                    if !own {
                        return fail(
                            format!("C16:bits:{op}:own-update"),
                            format!("thread {t}: `c {op} ...` for bit {bit:#x} returned {v:#x}, which does not contain the caller's own update"),
                        );
                    }
                }
            }
        }
        match content(&shared.cell) {
            Ok(Variable::Int(v)) if v == expected => {}
            Ok(v) => {
                return fail(
                    format!("C16:bits:{op}:final"),
                    format!("{threads} threads x {iters} single-bit `c {op} bit` updates: final content {v:?}, expected {expected:#x} (an update was lost)"),
                );
            }
            Err(e) => return fail(format!("C16:bits:{op}:poisoned"), e),
        }
    }
    stats.sample(2, || json!({"workload": case, "final": format!("{expected:#x}")}));
    Verdict::Pass
}

fn check_history(case: &Json, stats: &mut Stats) -> Verdict {
    let x0 = case["x0"].as_i64().unwrap();
    let reps = case["reps"].as_u64().unwrap_or(1) as usize;
    let plans: Vec<Vec<(String, i64)>> = case["plans"]
        .as_array()
        .unwrap()
        .iter()
        .map(|p| p.as_array().unwrap().iter().map(|o| (o[0].as_str().unwrap().to_string(), o[1].as_i64().unwrap())).collect())
        .collect();
    // one function per operator, all on the same cell
    let ops: Vec<String> = {
        let mut v: Vec<String> = plans.iter().flatten().map(|(op, _)| op.clone()).collect();
        v.sort();
        v.dedup();
        v
    };
    let names: Vec<String> = (0..ops.len()).map(|i| format!("f{i}")).collect();
    let mut text = format!("c := mut int {}; ", crate::lit::to_text(&json!(x0)));
    for (name, op) in names.iter().zip(&ops) {
        text.push_str(&format!("{name} := (k: int) -> int {{ return c {op} k; }}; "));
    }
    text.push_str(&format!("(c, {})", names.join(", ")));
    if names.len() == 1 {
        text = text.replace(&format!("(c, {})", names[0]), &format!("(c, {}, 0)", names[0]));
    }
    for rep in 0..reps {
        let parts = match run::run_text(&text, false) {
            Outcome::Value(Variable::Tuple(parts)) => parts,
            o => return fail("C16:setup", format!("`{text}`: {}", o.short())),
        };
        let cell = parts[0].clone();
        let funs: Vec<Arc<Function>> = parts.iter().skip(1).filter_map(|p| p.as_function().cloned()).collect();
        let fun_of = |op: &str| funs[ops.iter().position(|o| o == op).unwrap()].clone();
        let barrier = Arc::new(Barrier::new(plans.len()));
        let logs: Vec<ThreadLog> = std::thread::scope(|scope| {
            let handles: Vec<_> = plans
                .iter()
                .map(|plan| {
                    let barrier = barrier.clone();
                    let calls: Vec<(Arc<Function>, i64)> = plan.iter().map(|(op, k)| (fun_of(op), *k)).collect();
                    scope.spawn(move || {
                        run::default_budget();
                        barrier.wait();
                        let start = Instant::now();
                        let rets = calls.iter().map(|(f, k)| call(f, *k)).collect();
                        ThreadLog { rets, start, end: Instant::now() }
                    })
                })
                .collect();
            handles.into_iter().map(|h| h.join().expect("worker")).collect()
        });
        stats.evals(plans.iter().map(Vec::len).sum::<usize>() as u64);
        if overlapped(&logs) {
            stats.nontrivial(&format!("{case}#{rep}"));
            stats.label("history: threads overlapped");
        }
        if let Some(bad) = first_bad(&logs) {
            return fail("C16:history:abnormal", format!("history {case}: {bad}"));
        }
        let final_content = match content(&cell) {
            Ok(Variable::Int(v)) => v,
            Ok(v) => return fail("C16:history:final-kind", format!("final content {v:?}")),
            Err(e) => return fail("C16:history:poisoned", e),
        };
        // brute-force linearizability: some interleaving respecting each thread's order
        // must explain every returned value and the final content
        let observed: Vec<Vec<Result<i64, String>>> = logs
            .iter()
            .map(|l| {
                l.rets
                    .iter()
                    .map(|r| match r {
                        Ret::Int(i) => Ok(*i),
                        Ret::Err(k) => Err(k.clone()),
                        _ => Err("?".into()),
                    })
                    .collect()
            })
            .collect();
        fn search(
            plans: &[Vec<(String, i64)>],
            observed: &[Vec<Result<i64, String>>],
            pos: &mut Vec<usize>,
            c: i64,
            final_content: i64,
        ) -> bool {
            if pos.iter().zip(plans).all(|(p, plan)| *p == plan.len()) {
                return c == final_content;
            }
            for t in 0..plans.len() {
                if pos[t] < plans[t].len() {
                    let (op, k) = &plans[t][pos[t]];
                    let (next, ret) = match apply(op, c, *k) {
                        Ok(v) => (v, Ok(v)),
                        Err(kind) => (c, Err(kind.to_string())),
                    };
                    if observed[t][pos[t]] == ret {
                        pos[t] += 1;
                        let ok = search(plans, observed, pos, next, final_content);
                        pos[t] -= 1;
                        if ok {
                            return true;
                        }
                    }
                }
            }
            false
        }
        let mut pos = vec![0; plans.len()];
        if !search(&plans, &observed, &mut pos, x0, final_content) {
            return fail(
                "C16:history:not-linearizable",
                format!("cell from {x0}, thread plans {plans:?}: observed returns {observed:?} and final content {final_content} are explained by no sequential order of the operations"),
            );
        }
    }
    stats.sample(3, || json!({"workload": case}));
    Verdict::Pass
}

/// updates that leave an int cell (holding a small non-negative value) unchanged
const MIX_OPS: [(&str, i64); 9] = [
    ("/=", 1), ("**=", 1), ("<<=", 0), (">>=", 0), ("%=", i64::MAX), ("*=", 1), ("-=", 0), ("|=", 0), ("&=", -1),
];

/// incrementing threads, threads applying an identity update of another operator family,
/// and reading threads, all on one cell: no increment may be lost, reads never fail
fn check_mix(case: &Json, stats: &mut Stats) -> Verdict {
    let op = case["op"].as_str().unwrap();
    let k = case["k"].as_i64().unwrap();
    let (n_inc, n_ident, n_read) = (
        case["inc"].as_u64().unwrap() as usize,
        case["ident"].as_u64().unwrap() as usize,
        case["readers"].as_u64().unwrap() as usize,
    );
    let iters = case["iters"].as_u64().unwrap() as usize;
    let reps = case["reps"].as_u64().unwrap_or(1) as usize;
    let text = format!(
        "c := mut int 0; inc := (k: int) -> int {{ return c += k; }}; idf := (k: int) -> int {{ return c {op} k; }}; \
         rd := (k: int) -> int {{ return *c; }}; (c, inc, idf, rd)"
    );
    for rep in 0..reps {
        let parts = match run::run_text(&text, false) {
            Outcome::Value(Variable::Tuple(parts)) if parts.len() == 4 => parts,
            o => return fail("C16:setup", format!("`{text}`: {}", o.short())),
        };
        let cell = parts[0].clone();
        let funs: Vec<Arc<Function>> = parts.iter().skip(1).filter_map(|p| p.as_function().cloned()).collect();
        let mut jobs: Vec<(usize, i64)> = vec![];
        jobs.extend(std::iter::repeat_n((0usize, 1i64), n_inc));
        jobs.extend(std::iter::repeat_n((1usize, k), n_ident));
        jobs.extend(std::iter::repeat_n((2usize, 0i64), n_read));
        let barrier = Arc::new(Barrier::new(jobs.len()));
        let logs: Vec<ThreadLog> = std::thread::scope(|scope| {
            let handles: Vec<_> = jobs
                .iter()
                .map(|(which, arg)| {
                    let barrier = barrier.clone();
                    let f = funs[*which].clone();
                    let arg = *arg;
                    scope.spawn(move || {
                        run::default_budget();
                        barrier.wait();
                        let start = Instant::now();
                        let rets = (0..iters).map(|_| call(&f, arg)).collect();
                        ThreadLog { rets, start, end: Instant::now() }
                    })
                })
                .collect();
            handles.into_iter().map(|h| h.join().expect("worker")).collect()
        });
        stats.evals((jobs.len() * iters) as u64);
        if overlapped(&logs) {
            stats.nontrivial(&format!("{case}#{rep}"));
            stats.label(&format!("mix += with identity {op}: threads overlapped"));
        }
        if let Some(bad) = first_bad(&logs) {
            return fail(format!("C16:mix:{op}:abnormal"), format!("workload {case}: {bad}"));
        }
        let total = (n_inc * iters) as i64;
        // every increment returns a distinct value 1..=total
        let mut seen: Vec<i64> = logs
            .iter()
            .zip(&jobs)
            .filter(|(_, j)| j.0 == 0)
            .flat_map(|(l, _)| l.rets.iter().filter_map(|r| if let Ret::Int(i) = r { Some(*i) } else { None }))
            .collect();
        seen.sort();
        let distinct_ok = seen.len() == total as usize && seen.iter().enumerate().all(|(i, v)| *v == i as i64 + 1);
        let final_content = match content(&cell) {
            Ok(Variable::Int(v)) => v,
            Ok(v) => return fail(format!("C16:mix:{op}:final-kind"), format!("final content {v:?}")),
            Err(e) => return fail(format!("C16:mix:{op}:poisoned"), e),
        };
        if final_content != total || !distinct_ok {
            return fail(
                format!("C16:mix:{op}:lost-update"),
                format!(
                    "{n_inc} threads x {iters} x `c += 1` while {n_ident} threads apply the identity update `c {op} {k}` and {n_read} threads read: final content {final_content}, expected {total}; increments returned 1..={total} exactly once: {distinct_ok}"
                ),
            );
        }
        // reads and identity updates only ever see values between 0 and total, never decreasing per thread
        for (l, j) in logs.iter().zip(&jobs) {
            if j.0 == 0 {
                continue;
            }
            let mut last = 0i64;
            for r in &l.rets {
                match r {
                    Ret::Int(v) if *v >= last && *v <= total => last = *v,
                    other => {
                        return fail(
                            format!("C16:mix:{op}:observed-value"),
                            format!("a {} thread observed {other:?} after {last} (cell only grows from 0 to {total})", if j.0 == 1 { "identity-update" } else { "reading" }),
                        );
                    }
                }
            }
        }
    }
    stats.sample(2, || json!({"workload": case}));
    Verdict::Pass
}

const ISOLATED: [&str; 12] = [
    "f := (n: int) -> int { c := mut 0; i := mut 0; while *i < n { c += *i; i += 1; } return *c; }",
    "f := (n: int) -> [int] { sq := (x: int) -> int { return x * x; }; a := [n; 4] + [1, 2, 3]; return a~ @ sq $]; }",
    "f := (n: int) -> int { odd := (x: int) -> bool { return x % 2 == 1; }; return [n, 1, 2, 3, n + 1]~ ? odd $+; }",
    "f := (n: int) -> any { r := [n, \"a\", 2.5, n]~ ? int $]; return (r, [1, 2, 3]~$*, [true, false]~$||, [n]~$&); }",
    "f := (n: int) -> int { g := (k: int) -> int { if k <= 0 { return 0; } return k + g(k - 1); }; return g(n); }",
    "f := (n: int) -> any { it := [n, n + 1]~; a := it(); b := it(); c := it(); return (a, b, c.0, ([n, 2]~ \\ (x: int) -> bool { return x > 1; })); }",
    // state that must be created by each execution, not once per parsed program: fillers that are cells,
    // cells made from literals, iterators over literal arrays, captured constants
    "f := (n: int) -> int { it := [mut 5]~ ? mut int; it(); c := it().1; k := mut 0; while *k < n { c += 1; k += 1; } return *c; }",
    "f := (n: int) -> int { mk := () -> mut int { return mut int 0; }; a := mk(); b := mk(); a += n; b += 1; return *a * 1000 + *b; }",
    "f := (n: int) -> int { t := mut 0; for x in [1, 2, 3]~ { for y in [10, 20]~ { t += x * y; } } return *t + n; }",
    "f := (n: int) -> int { it := [1, 2, 3]~ @ (x: int) -> int { return x * n; }; a := it $+; b := it $+; return a * 100 + b; }",
    "f := (n: int) -> any { it := [n, \"s\"]~ ? string; a := it(); b := it(); c := [mut 0; 2]; c[0] += n; return (a, b, c); }",
    "f := (n: int) -> any { cs := [mut [int] [], mut [int] []]; cs[0] += [n]; m := mod { k := mut 1; }; m.k += n; return (cs, m.k, std.len(*cs[1])); }",
];

fn check_isolated(case: &Json, stats: &mut Stats) -> Verdict {
    let threads = case["threads"].as_u64().unwrap() as usize;
    let n = case["n"].as_i64().unwrap();
    let programs = isolated_programs();
    let which = case["which"].as_u64().unwrap() as usize % programs.len();
    let reps = case["reps"].as_u64().unwrap_or(1) as usize;
    let text = programs[which].as_str();
    let f = match run::run_text(text, true) {
        Outcome::Value(Variable::Function(f)) => f,
        o => return fail("C16:setup", format!("`{text}`: {}", o.short())),
    };
    // sequential reference results, one per thread (different arguments)
    let make = |k: i64| -> Result<Code, String> {
        match run::guarded(|| f.clone().create_call(vec![Variable::Int(k)])) {
            Ok(Ok(code)) => Ok(code),
            Ok(Err(e)) => Err(run::error_kind(&e)),
            Err(c) => Err(c.sig()),
        }
    };
    let mut codes = vec![];
    let mut expected = vec![];
    for t in 0..threads {
        let code = match make(n + t as i64 % 3) {
            Ok(c) => c,
            Err(e) => return fail("C16:isolated:create_call", e),
        };
        // the reference: a fresh parse of the program followed by the call (nothing can be left over
        // from an earlier call there)
        let k = n + t as i64 % 3;
        let fresh = match run::run_text(&format!("{text}; f({k})"), true) {
            Outcome::Value(v) => canon::canon(&v),
            o => return fail("C16:setup", format!("`{text}; f({k})`: {}", o.short())),
        };
        run::default_budget();
        match run::exec_guarded(&code) {
            Outcome::Value(v) if canon::canon(&v) == fresh => expected.push(fresh),
            o => return fail("C16:isolated:sequential", format!("`{text}` called with {k} after {t} earlier calls: {}; a fresh parse and the same call give {}", o.short(), fresh.show())),
        }
        codes.push(code);
    }
    for rep in 0..reps {
        let barrier = Arc::new(Barrier::new(threads));
        // every thread executes the same shared Code objects (clones share the instruction tree)
        let results: Vec<(Vec<Outcome>, Instant, Instant)> = std::thread::scope(|scope| {
            let handles: Vec<_> = (0..threads)
                .map(|t| {
                    let barrier = barrier.clone();
                    let codes = &codes;
                    scope.spawn(move || {
                        run::default_budget();
                        barrier.wait();
                        let start = Instant::now();
                        // own code, then a neighbour's code (shared between two threads)
                        let outs = vec![run::exec_guarded(&codes[t]), run::exec_guarded(&codes[(t + 1) % codes.len()]), run::exec_guarded(&codes[t])];
                        (outs, start, Instant::now())
                    })
                })
                .collect();
            handles.into_iter().map(|h| h.join().expect("worker")).collect()
        });
        stats.evals((threads * 3) as u64);
        let overlap = results.iter().enumerate().any(|(i, a)| results.iter().skip(i + 1).any(|b| a.1 < b.2 && b.1 < a.2));
        if overlap {
            stats.nontrivial(&format!("{case}#{rep}"));
            stats.label("isolated: threads overlapped");
        }
        for (t, (outs, _, _)) in results.iter().enumerate() {
            for (j, o) in outs.iter().enumerate() {
                let want = &expected[if j == 1 { (t + 1) % threads } else { t }];
                match o {
                    Outcome::Value(v) if canon::canon(v) == *want => {}
                    o => {
                        return fail(
                            "C16:isolated:result",
                            format!("`{text}` run by thread {t} concurrently gave {}, sequentially {}", o.short(), want.show()),
                        );
                    }
                }
            }
        }
    }
    stats.sample(2, || json!({"workload": case, "function": text}));
    Verdict::Pass
}

pub fn run(session: &Session) -> i32 {
    crate::engine::run_regressions(session, &C16);
    // fixed workloads first (every orbit operator, every bit operator, every isolated program)
    let mut cases = vec![];
    for (op, x0, k, iters) in [
        ("+=", 0i64, 1i64, 2000usize), ("-=", 0, 3, 1000), ("*=", 1, 3, 1000), ("<<=", 1, 1, 7), (">>=", 1 << 62, 1, 7),
        ("/=", 1 << 62, 2, 7), ("**=", 3, 3, 5), ("**=", 3, 2, 7), ("^=", 0, 0x55, 1000),
    ] {
        cases.push(json!({"kind": "orbit", "op": op, "x0": x0, "k": k, "threads": 8, "iters": iters, "reps": session.tier.of(4, 20)}));
        cases.push(json!({"kind": "orbit", "op": op, "x0": x0, "k": k, "literal": true, "threads": 8, "iters": iters, "reps": session.tier.of(4, 20)}));
    }
    for op in ["|=", "&=", "^="] {
        cases.push(json!({"kind": "bits", "op": op, "threads": 8, "iters": 7, "reps": session.tier.of(100, 1000)}));
    }
    for (op, k) in MIX_OPS {
        cases.push(json!({"kind": "mix", "op": op, "k": k, "inc": 3, "ident": 3, "readers": 2, "iters": session.tier.of(1500, 10000), "reps": session.tier.of(2, 8)}));
    }
    for which in 0..isolated_code_programs().len() {
        cases.push(json!({"kind": "isolated-code", "which": which, "threads": 8, "reps": if which < ISOLATED_CODE.len() { session.tier.of(6, 40) } else { session.tier.of(2, 10) }}));
    }
    cases.push(json!({"kind": "isolated-import", "threads": 6, "reps": session.tier.of(3, 20)}));
    cases.push(json!({"kind": "render", "threads": 8, "iters": session.tier.of(2000, 20000)}));
    cases.push(json!({"kind": "output", "threads": 8, "iters": session.tier.of(400, 4000)}));
    {
        let it = "k := mut 0; it := () -> (bool, int) { k += 1; return (*k < 4, *k); }; ";
        let bt = "k := mut 0; it := () -> (bool, bool) { k += 1; return (*k < 4, *k < 9); }; ";
        for (text, stdlib) in [
            (format!("{it}it $*"), false), (format!("{it}it $+"), false), (format!("{it}it $&"), false), (format!("{it}it $|"), false),
            (format!("{bt}it $&&"), false), (format!("{bt}it $||"), false), (format!("{it}it $]"), false),
            (format!("{it}it @ (x: int) -> int {{ return x * 2; }} $]"), false), (format!("{it}it ? (x: int) -> bool {{ return x > 1; }} $]"), false),
            (format!("{it}it ? int $]"), false), (format!("{it}it \\ (x: int) -> bool {{ return x > 1; }}"), false),
            (format!("{it}it $ 0 (a: int, x: int) -> int {{ return a + x; }}"), false), (format!("{it}r := mut 0; for x in it {{ r += x; }}; *r"), false),
            ("[1, 2, 3]~ $*".to_string(), false), ("[1.5, 2.0]~ $*".to_string(), false), ("[\"a\", \"b\"]~ $+".to_string(), false), ("[1, 2, 3][1:]~ $]".to_string(), false),
            ("std.len(\"abc\") + std.len([1])".to_string(), true), ("std.convert.to_string([1, (2, \"s\")])".to_string(), true), ("std.string.split(\"a,b\", \",\")".to_string(), true),
            ("[3, 1, 2]~ $*".to_string(), true), ("x := [mut 1]~; (x().1, x())".to_string(), true),
        ] {
            cases.push(json!({"kind": "first-use", "text": text, "stdlib": stdlib, "threads": 16, "reps": session.tier.of(2, 10)}));
        }
    }
    for adapter in ["filter", "map", "type-filter", "chain"] {
        // long streams (races anywhere) and very short ones (races at the end)
        cases.push(json!({"kind": "shared-adapter", "adapter": adapter, "threads": 4, "n": 4000, "rounds": session.tier.of(3, 20)}));
        cases.push(json!({"kind": "shared-adapter", "adapter": adapter, "threads": 4, "n": 8, "rounds": session.tier.of(300, 3000)}));
    }
    cases.push(json!({"kind": "files", "threads": 8, "iters": session.tier.of(150, 1500), "tag": 1}));
    cases.push(json!({"kind": "files", "threads": 16, "iters": session.tier.of(60, 600), "tag": 2}));
    cases.push(json!({"kind": "show", "writers": 4, "readers": 4, "iters": session.tier.of(3000, 30000), "reps": session.tier.of(3, 10)}));
    cases.push(json!({"kind": "shared-iterator", "threads": 8, "n": session.tier.of(4000, 30000), "reps": session.tier.of(4, 20)}));
    for which in 0..CROSS.len() {
        cases.push(json!({"kind": "cross", "which": which, "threads": 4, "iters": session.tier.of(3000, 30000), "reps": session.tier.of(3, 10)}));
        cases.push(json!({"kind": "cross", "which": which, "threads": 2, "iters": session.tier.of(5000, 50000), "reps": session.tier.of(2, 6)}));
    }
    for cell in ["array", "string", "float", "nested"] {
        cases.push(json!({"kind": "append", "cell": cell, "threads": 8, "iters": session.tier.of(1000, 5000), "reps": session.tier.of(3, 12)}));
    }
    for which in 0..isolated_programs().len() {
        cases.push(json!({"kind": "isolated", "threads": 16, "n": 20, "which": which, "reps": if which < ISOLATED.len() + ISOLATED_MORE.len() { session.tier.of(8, 40) } else { session.tier.of(2, 10) }}));
    }
    for case in &cases {
        if session.stopped() {
            break;
        }
        session.run_one(&C16, case);
    }
    // generated workloads, one at a time (each one owns all cores)
    let n = session.tier.of(400, 4000);
    let mut seed = session.seed;
    for i in 0..n {
        if session.stopped() {
            break;
        }
        let mut data = vec![];
        for _ in 0..64 {
            seed = crate::tape::mix(seed.wrapping_add(i as u64));
            data.push(seed as u32);
        }
        let mut tape = Tape::new(data);
        if let Some(case) = C16.gen_case(&mut tape, session.tier) {
            session.run_one(&C16, &case);
        }
    }
    session.finish(
        "workloads on real threads released by a barrier and repeated: (orbit) T threads x M identical updates `c op= k` through one shared function value for updates with an injective orbit (+= -= *= <<= >>= /= **= ^=): the multiset of values returned by the assignments must be exactly {f(x0)..f^(TM)(x0)} and the final content f^(TM)(x0); (bits) every single update owns one bit (|= &= ^=): each returned value shows the caller's own update and the final content shows all; (history) 3 threads x 1-3 operations over all 12 assignment operators incl. failing ones, brute-force linearizability of returned values + final content against the i128 model; (mix) incrementing threads + threads applying an identity update of each other operator family (/= 1, **= 1, <<= 0, >>= 0, %= MAX, *= 1, -= 0, |= 0, &= -1) + reading threads on one cell: no increment lost, every increment returns a distinct value, reads/identity updates see a non-decreasing value in range; (append) T threads x M `c += [k]` / `c += \"k,\"` / `c += 1.0` on one shared array, string, float or nested-array cell: the sizes returned by the assignments are exactly 1..TM, each once, and the final content holds every token exactly once; (cross) threads alternately updating each of two cells from the content of the other, and threads rendering a cell that contains itself (directly, in an array / tuple / struct, or through a second cell) while others assign to it: every call returns a value within the expected mask, and the workers are watched - if no call completes for 40 s the executions are reported as deadlocked; (files) threads writing, reading back, copying, renaming and removing files of their own inside one shared directory: every call gives what it gives alone; (show) threads rendering a cell as text while others update it: every rendering has the sequential shape; (shared-iterator) T threads pulling from one array iterator over n elements are handed at most n elements, each from the array; (isolated-code) six whole programs whose top-level function literals capture cells the program creates, parsed once and executed three times by each of 8 threads: every execution gives the single-execution result; (isolated) 16 threads executing the same Code objects (loops, closures, recursion, iterator helpers @ ? ~ $] $+ $* $|| $& \\ ? T) must each get the sequential result. Workload shapes are drawn from VERIF_SEED; interleavings are whatever the scheduler produces. Non-trivial = a repetition in which at least two threads' execution intervals overlapped; distinct by workload and repetition.",
        false,
        &["schedules are sampled, not enumerated: a race that needs one specific interleaving can be missed; a deadlock among the workers of the cross workload is reported as a violation after 40 s without a completed call (calls take microseconds); any other hang ends in the watchdog (exit 2)",
          "overlap is measured by wall-clock intervals of the worker threads"],
    )
}
