//! Drivers (proptest over tapes, enumeration), statistics, known findings, evidence, verdicts.
use crate::tape::{Tape, mix};
use proptest::{
    collection::vec,
    prelude::any,
    test_runner::{Config, RngAlgorithm, TestCaseError, TestError, TestRng, TestRunner},
};
use serde_json::{Value as Json, json};
use std::{
    cell::Cell,
    collections::{BTreeMap, HashSet},
    hash::{Hash, Hasher},
    path::PathBuf,
    sync::{
        Mutex,
        atomic::{AtomicBool, AtomicU64, Ordering},
    },
    time::Instant,
};

pub const SHARDS: usize = 16;
pub const STACK: usize = 1 << 30; // virtual; committed lazily

#[derive(Clone, Copy, Debug, PartialEq, Eq)]
pub enum Tier {
    Quick,
    Thorough,
}

impl Tier {
    pub fn name(self) -> &'static str {
        match self {
            Tier::Quick => "quick",
            Tier::Thorough => "thorough",
        }
    }
    /// pick by tier
    pub fn of<T>(self, quick: T, thorough: T) -> T {
        match self {
            Tier::Quick => quick,
            Tier::Thorough => thorough,
        }
    }
}

#[derive(Clone, Debug)]
pub struct Failure {
    /// stable signature used to match KNOWN_FINDINGS.txt entries
    pub sig: String,
    /// human readable: expected vs actual
    pub msg: String,
}

#[derive(Clone, Debug)]
pub enum Verdict {
    Pass,
    /// generated input outside the property's domain (counted)
    Discard(&'static str),
    /// could not conclude on this case (fuel, depth, length): counted, never a violation
    Inconclusive(&'static str),
    Fail(Failure),
}

pub fn fail(sig: impl Into<String>, msg: impl Into<String>) -> Verdict {
    Verdict::Fail(Failure {
        sig: sig.into(),
        msg: msg.into(),
    })
}

#[derive(Default)]
pub struct Stats {
    pub evaluations: u64,
    pub distinct: HashSet<u64>,
    pub labels: BTreeMap<String, u64>,
    pub samples: Vec<Json>,
    pub discards: BTreeMap<String, u64>,
    pub inconclusive: BTreeMap<String, u64>,
    pub known_hits: BTreeMap<String, u64>,
    pub frozen: bool,
}

pub fn hash_str(s: &str) -> u64 {
    let mut h = std::collections::hash_map::DefaultHasher::new();
    s.hash(&mut h);
    h.finish()
}

impl Stats {
    /// one execution / comparison was performed
    pub fn eval(&mut self) {
        if !self.frozen {
            self.evaluations += 1;
        }
    }
    pub fn evals(&mut self, n: u64) {
        if !self.frozen {
            self.evaluations += n;
        }
    }
    /// `key` identifies the case (canonical text); counted once if non-trivial
    pub fn nontrivial(&mut self, key: &str) {
        if !self.frozen {
            self.distinct.insert(hash_str(key));
        }
    }
    pub fn label(&mut self, label: &str) {
        if !self.frozen {
            *self.labels.entry(label.to_string()).or_default() += 1;
        }
    }
    pub fn label_n(&mut self, label: &str, n: u64) {
        if !self.frozen && n > 0 {
            *self.labels.entry(label.to_string()).or_default() += n;
        }
    }
    pub fn sample(&mut self, cap: usize, f: impl FnOnce() -> Json) {
        if !self.frozen && self.samples.len() < cap {
            self.samples.push(f());
        }
    }
    fn merge(&mut self, other: Stats) {
        self.evaluations += other.evaluations;
        self.distinct.extend(other.distinct);
        for (k, v) in other.labels {
            *self.labels.entry(k).or_default() += v;
        }
        for (k, v) in other.discards {
            *self.discards.entry(k).or_default() += v;
        }
        for (k, v) in other.inconclusive {
            *self.inconclusive.entry(k).or_default() += v;
        }
        for (k, v) in other.known_hits {
            *self.known_hits.entry(k).or_default() += v;
        }
        self.samples.extend(other.samples);
    }
}

/// What one property contributes: a decoder from tapes to concrete cases and a checker
/// of concrete cases (also used by replay, which bypasses the generator entirely).
pub trait Property: Sync {
    fn id(&self) -> &'static str;
    /// decode one concrete case (plain JSON: inputs + expected outcome); None = discard
    fn gen_case(&self, _tape: &mut Tape, _tier: Tier) -> Option<Json> {
        None
    }
    /// run the real code on the concrete case and judge it
    fn check_case(&self, case: &Json, stats: &mut Stats) -> Verdict;
}

#[derive(Clone, Debug)]
pub struct Known {
    pub property: String,
    pub sig: String,
    pub text: String,
}

pub fn load_known(root: &std::path::Path) -> Vec<Known> {
    let Ok(text) = std::fs::read_to_string(root.join("KNOWN_FINDINGS.txt")) else {
        return vec![];
    };
    let mut out = vec![];
    for line in text.lines() {
        let line = line.trim();
        let Some(rest) = line.strip_prefix("finding:") else {
            continue; // "fixed:" lines and comments suppress nothing
        };
        let rest = rest.trim();
        let mut property = String::new();
        let mut sig = String::new();
        let mut words = vec![];
        for w in rest.split_whitespace() {
            if let Some(p) = w.strip_prefix("property=") {
                property = p.to_string();
            } else if let Some(s) = w.strip_prefix("sig=") {
                sig = s.to_string();
            } else {
                words.push(w);
            }
        }
        if !property.is_empty() && !sig.is_empty() {
            out.push(Known {
                property,
                sig,
                text: words.join(" "),
            });
        }
    }
    out
}

pub struct Session {
    pub id: &'static str,
    pub tier: Tier,
    pub seed: u64,
    pub root: PathBuf,
    pub known: Vec<Known>,
    pub stats: Mutex<Stats>,
    pub violation: Mutex<Option<(Failure, Json)>>,
    pub stop: AtomicBool,
    pub start: Instant,
    pub replay_n: AtomicU64,
    pub harness_error: Mutex<Option<String>>,
    pub printed_known: Mutex<HashSet<String>>,
    pub extra: Mutex<BTreeMap<String, Json>>,
}

impl Session {
    pub fn new(id: &'static str, tier: Tier, seed: u64, root: PathBuf) -> Self {
        let known = load_known(&root)
            .into_iter()
            .filter(|k| k.property == id)
            .collect();
        Self {
            id,
            tier,
            seed,
            root,
            known,
            stats: Mutex::new(Stats::default()),
            violation: Mutex::new(None),
            stop: AtomicBool::new(false),
            start: Instant::now(),
            replay_n: AtomicU64::new(0),
            harness_error: Mutex::new(None),
            printed_known: Mutex::new(HashSet::new()),
            extra: Mutex::new(BTreeMap::new()),
        }
    }

    pub fn is_known(&self, sig: &str) -> Option<&Known> {
        self.known.iter().find(|k| k.sig == sig)
    }

    /// Applies the known-findings filter: a listed finding becomes Pass (counted, printed once).
    pub fn filter(&self, verdict: Verdict, stats: &mut Stats) -> Verdict {
        match verdict {
            Verdict::Fail(f) => {
                if let Some(k) = self.is_known(&f.sig) {
                    if !stats.frozen {
                        *stats.known_hits.entry(f.sig.clone()).or_default() += 1;
                    }
                    let mut printed = self.printed_known.lock().unwrap();
                    if printed.insert(f.sig.clone()) {
                        println!("KNOWN-FINDING: property={} sig={} {}", self.id, k.sig, k.text);
                    }
                    Verdict::Pass
                } else {
                    Verdict::Fail(f)
                }
            }
            Verdict::Discard(why) => {
                if !stats.frozen {
                    *stats.discards.entry(why.to_string()).or_default() += 1;
                }
                Verdict::Discard(why)
            }
            Verdict::Inconclusive(why) => {
                if !stats.frozen {
                    *stats.inconclusive.entry(why.to_string()).or_default() += 1;
                }
                Verdict::Inconclusive(why)
            }
            v => v,
        }
    }

    pub fn record_violation(&self, failure: Failure, case: Json) {
        let mut v = self.violation.lock().unwrap();
        if v.is_none() {
            *v = Some((failure, case));
        }
        self.stop.store(true, Ordering::SeqCst);
    }

    pub fn set_extra(&self, key: &str, value: Json) {
        self.extra.lock().unwrap().insert(key.to_string(), value);
    }

    /// proptest-driven exploration of `prop` over tapes, sharded over SHARDS threads.
    pub fn run_tapes(&self, prop: &dyn Property, cases: u32, max_len: usize, stream: u64) {
        let per_shard = cases.div_ceil(SHARDS as u32);
        std::thread::scope(|scope| {
            for shard in 0..SHARDS {
                let builder = std::thread::Builder::new()
                    .name(format!("shard{shard}"))
                    .stack_size(STACK);
                builder
                    .spawn_scoped(scope, move || self.run_shard(prop, shard, per_shard, max_len, stream))
                    .expect("spawn shard");
            }
        });
    }

    fn run_shard(&self, prop: &dyn Property, shard: usize, cases: u32, max_len: usize, stream: u64) {
        let mut seed_bytes = [0u8; 32];
        let mut s = mix(self.seed ^ mix(stream.wrapping_mul(0x1000) + shard as u64 + 1));
        for chunk in seed_bytes.chunks_mut(8) {
            s = mix(s);
            chunk.copy_from_slice(&s.to_le_bytes());
        }
        let config = Config {
            cases,
            failure_persistence: None,
            max_shrink_iters: self.tier.of(1500, 20000),
            max_global_rejects: cases.saturating_mul(4).max(1024),
            ..Config::default()
        };
        let mut runner = TestRunner::new_with_rng(config, TestRng::from_seed(RngAlgorithm::ChaCha, &seed_bytes));
        let stats = std::cell::RefCell::new(Stats::default());
        let failed = Cell::new(false);
        let last_fail: std::cell::RefCell<Option<(Failure, Json)>> = std::cell::RefCell::new(None);
        let strategy = vec(any::<u32>(), 0..max_len);
        let result = runner.run(&strategy, |data| {
            if self.stop.load(Ordering::Relaxed) {
                // another shard recorded a (shrunk) violation: finish quickly, also when this
                // shard is in the middle of shrinking its own
                return Ok(());
            }
            let mut tape = Tape::new(data);
            let mut st = stats.borrow_mut();
            st.frozen = failed.get();
            let outcome = std::panic::catch_unwind(std::panic::AssertUnwindSafe(|| {
                let Some(case) = prop.gen_case(&mut tape, self.tier) else {
                    return (Verdict::Discard("generator"), Json::Null);
                };
                let v = prop.check_case(&case, &mut st);
                (v, case)
            }));
            let (verdict, case) = match outcome {
                Ok(x) => x,
                Err(_) => {
                    let info = crate::run::take_panic();
                    *self.harness_error.lock().unwrap() = Some(format!("harness panic: {info:?}"));
                    self.stop.store(true, Ordering::SeqCst);
                    return Ok(());
                }
            };
            let verdict = self.filter(verdict, &mut st);
            match verdict {
                Verdict::Fail(f) => {
                    failed.set(true);
                    st.frozen = true;
                    let msg = f.sig.clone();
                    *last_fail.borrow_mut() = Some((f, case));
                    Err(TestCaseError::fail(msg))
                }
                _ => Ok(()),
            }
        });
        let mut st = stats.into_inner();
        st.frozen = false;
        self.stats.lock().unwrap().merge(st);
        if let Err(TestError::Fail(_, data)) = result {
            // `data` is the shrunk tape: decode once more to get the minimal concrete case
            let mut tape = Tape::new(data);
            let mut scratch = Stats {
                frozen: true,
                ..Stats::default()
            };
            let shrunk = prop.gen_case(&mut tape, self.tier).and_then(|case| {
                match self.filter(prop.check_case(&case, &mut scratch), &mut scratch) {
                    Verdict::Fail(f) => Some((f, case)),
                    _ => None,
                }
            });
            let chosen = shrunk.or_else(|| last_fail.borrow_mut().take());
            if let Some((f, case)) = chosen {
                self.record_violation(f, case);
            }
        }
    }

    /// `n` tapes drawn from the library's generator under the session seed (for callers that need a
    /// fixed list of generated cases up front, e.g. to hand the same list to child processes)
    pub fn sample_tapes(&self, n: usize, max_len: usize, stream: u64) -> Vec<Vec<u32>> {
        use proptest::strategy::{Strategy, ValueTree};
        let mut seed_bytes = [0u8; 32];
        let mut s = mix(self.seed ^ mix(stream.wrapping_mul(0x1000) + 0x5a5a));
        for chunk in seed_bytes.chunks_mut(8) {
            s = mix(s);
            chunk.copy_from_slice(&s.to_le_bytes());
        }
        let mut runner = TestRunner::new_with_rng(Config { failure_persistence: None, ..Config::default() }, TestRng::from_seed(RngAlgorithm::ChaCha, &seed_bytes));
        let strategy = vec(any::<u32>(), 0..max_len);
        (0..n).filter_map(|_| strategy.new_tree(&mut runner).ok().map(|t| t.current())).collect()
    }

    pub fn merge_stats(&self, st: Stats) {
        self.stats.lock().unwrap().merge(st);
    }

    /// enumeration-driven exploration: every case of `cases` is checked (parallel).
    pub fn run_enum(&self, prop: &dyn Property, cases: Vec<Json>) {
        let next = std::sync::atomic::AtomicUsize::new(0);
        let best: Mutex<Option<(usize, Failure)>> = Mutex::new(None);
        let cases = &cases;
        std::thread::scope(|scope| {
            for shard in 0..SHARDS {
                let builder = std::thread::Builder::new()
                    .name(format!("enum{shard}"))
                    .stack_size(STACK);
                let next = &next;
                let best = &best;
                builder
                    .spawn_scoped(scope, move || {
                        let mut st = Stats::default();
                        loop {
                            let i = next.fetch_add(1, Ordering::Relaxed);
                            if i >= cases.len() {
                                break;
                            }
                            if let Some((b, _)) = &*best.lock().unwrap()
                                && *b < i
                            {
                                break;
                            }
                            let outcome = std::panic::catch_unwind(std::panic::AssertUnwindSafe(|| {
                                prop.check_case(&cases[i], &mut st)
                            }));
                            let verdict = match outcome {
                                Ok(v) => v,
                                Err(_) => {
                                    let info = crate::run::take_panic();
                                    *self.harness_error.lock().unwrap() =
                                        Some(format!("harness panic: {info:?} on case {}", cases[i]));
                                    break;
                                }
                            };
                            if let Verdict::Fail(f) = self.filter(verdict, &mut st) {
                                let mut b = best.lock().unwrap();
                                if b.as_ref().is_none_or(|(bi, _)| i < *bi) {
                                    *b = Some((i, f));
                                }
                            }
                        }
                        self.stats.lock().unwrap().merge(st);
                    })
                    .expect("spawn enum shard");
            }
        });
        if let Some((i, f)) = best.into_inner().unwrap() {
            self.record_violation(f, cases[i].clone());
        }
    }

    /// check one concrete case on the calling thread
    pub fn run_one(&self, prop: &dyn Property, case: &Json) -> Verdict {
        let mut st = Stats::default();
        let v = prop.check_case(case, &mut st);
        let v = self.filter(v, &mut st);
        self.stats.lock().unwrap().merge(st);
        if let Verdict::Fail(f) = &v {
            self.record_violation(f.clone(), case.clone());
        }
        v
    }

    pub fn stopped(&self) -> bool {
        self.stop.load(Ordering::SeqCst)
    }

    /// Writes the evidence file, prints the verdict line(s) and returns the exit code.
    pub fn finish(&self, rule: &str, exhaustive: bool, assumptions: &[&str]) -> i32 {
        let wall = self.start.elapsed().as_secs_f64();
        let stats = self.stats.lock().unwrap();
        let violation = self.violation.lock().unwrap();
        let mut samples: Vec<Json> = stats.samples.clone();
        samples.truncate(10);
        if samples.is_empty() {
            samples.push(json!("(no sample recorded)"));
        }
        let mut coverage = json!({
            "evaluations": stats.evaluations,
            "distinct_nontrivial": stats.distinct.len(),
            "rule": rule,
            "samples": samples,
            "exhaustive": exhaustive,
            "labels": stats.labels,
            "discarded": stats.discards,
            "inconclusive": stats.inconclusive,
            "excluded_known": stats.known_hits,
        });
        for (k, v) in self.extra.lock().unwrap().iter() {
            coverage[k] = v.clone();
        }
        let evidence = json!({
            "property_id": self.id,
            "tier": self.tier.name(),
            "seed": self.seed,
            "level": "exploration",
            "coverage": coverage,
            "assumptions": assumptions,
            "wall_s": wall,
            "violations": if violation.is_some() { 1 } else { 0 },
        });
        let dir = self.root.join("evidence");
        let _ = std::fs::create_dir_all(&dir);
        let path = dir.join(format!("{}.json", self.id));
        std::fs::write(&path, serde_json::to_string_pretty(&evidence).unwrap() + "\n").expect("write evidence");

        if let Some(err) = &*self.harness_error.lock().unwrap() {
            println!("INCONCLUSIVE property={} {err}", self.id);
            return 2;
        }
        if let Some((failure, case)) = &*violation {
            let dir = self.root.join("replays");
            let _ = std::fs::create_dir_all(&dir);
            let path = dir.join(format!("{}-{}-{}.json", self.id, self.tier.name(), self.seed));
            let replay = json!({
                "property": self.id,
                "sig": failure.sig,
                "message": failure.msg,
                "case": case,
            });
            std::fs::write(&path, serde_json::to_string_pretty(&replay).unwrap() + "\n").expect("write replay");
            println!("--- violation of {} ---", self.id);
            println!("sig: {}", failure.sig);
            println!("{}", failure.msg);
            println!("case: {}", serde_json::to_string(case).unwrap());
            println!("VIOLATION property={} replay={}", self.id, path.display());
            return 1;
        }
        println!(
            "OK property={} tier={} seed={} evaluations={} distinct_nontrivial={} wall={:.1}s",
            self.id,
            self.tier.name(),
            self.seed,
            stats.evaluations,
            stats.distinct.len(),
            wall
        );
        if stats.evaluations == 0 || stats.distinct.len() < 2 {
            println!("INCONCLUSIVE property={} nothing non-trivial was explored", self.id);
            return 2;
        }
        0
    }
}

/// Replays a file written by `finish` (or a regression file with the same layout).
pub fn replay(session: &Session, prop: &dyn Property, path: &std::path::Path) -> i32 {
    let text = match std::fs::read_to_string(path) {
        Ok(t) => t,
        Err(e) => {
            println!("cannot read {}: {e}", path.display());
            return 2;
        }
    };
    let Ok(doc) = serde_json::from_str::<Json>(&text) else {
        println!("cannot parse {}", path.display());
        return 2;
    };
    let case = doc.get("case").cloned().unwrap_or(doc);
    let mut st = Stats::default();
    let verdict = prop.check_case(&case, &mut st);
    match session.filter(verdict, &mut st) {
        Verdict::Fail(f) => {
            println!("sig: {}\n{}", f.sig, f.msg);
            println!("VIOLATION property={} replay={}", session.id, path.display());
            1
        }
        Verdict::Pass => {
            println!("OK property={} replay passed", session.id);
            0
        }
        other => {
            println!("INCONCLUSIVE property={} replay: {other:?}", session.id);
            2
        }
    }
}

/// Runs every regression file of the property (saved minimal cases of confirmed defects).
pub fn run_regressions(session: &Session, prop: &dyn Property) {
    let dir = session.root.join("regress").join(session.id);
    let Ok(entries) = std::fs::read_dir(&dir) else {
        return;
    };
    let mut files: Vec<_> = entries.flatten().map(|e| e.path()).collect();
    files.sort();
    let mut n = 0u64;
    for path in files {
        if path.extension().and_then(|e| e.to_str()) != Some("json") {
            continue;
        }
        let Ok(text) = std::fs::read_to_string(&path) else {
            continue;
        };
        let Ok(doc) = serde_json::from_str::<Json>(&text) else {
            continue;
        };
        let case = doc.get("case").cloned().unwrap_or(doc);
        n += 1;
        if let Verdict::Fail(_) = session.run_one(prop, &case) {
            break;
        }
    }
    session.stats.lock().unwrap().label_n("regression_files", n);
}
