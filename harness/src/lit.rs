//! A JSON model of first-order SimpleSL values, used by cases that must be replayable:
//! null -> (), bool, integer -> int, {"f": bits} -> float, string, array -> array,
//! {"t": [..]} -> tuple, {"s": {k: v}} -> struct.
use serde_json::{Value as Json, json};
use simplesl::variable::Variable;

pub fn float(f: f64) -> Json {
    json!({"f": crate::canon::float_bits(f)})
}

pub fn tuple(items: Vec<Json>) -> Json {
    json!({"t": items})
}

pub fn escape_string(s: &str) -> String {
    // only escapes that the language's unescaper understands unambiguously
    let mut out = String::from("\"");
    for c in s.chars() {
        match c {
            '"' => out.push_str("\\\""),
            '\\' => out.push_str("\\\\"),
            '\n' => out.push_str("\\n"),
            '\t' => out.push_str("\\t"),
            '\r' => out.push_str("\\r"),
            c if (c as u32) < 0x20 || c as u32 == 0x7f => out.push_str(&format!("\\u{{{:x}}}", c as u32)),
            c => out.push(c),
        }
    }
    out.push('"');
    out
}

fn int_text(v: i64) -> String {
    if v == i64::MIN {
        "(-9223372036854775807 - 1)".into()
    } else if v < 0 {
        format!("(-{})", -(v as i128))
    } else {
        v.to_string()
    }
}

/// program text of a literal expression denoting the value
pub fn to_text(v: &Json) -> String {
    match v {
        Json::Null => "()".into(),
        Json::Bool(b) => b.to_string(),
        Json::Number(n) => int_text(n.as_i64().expect("int literal")),
        Json::String(s) => escape_string(s),
        Json::Array(xs) => format!("[{}]", xs.iter().map(to_text).collect::<Vec<_>>().join(", ")),
        Json::Object(o) => {
            if let Some(bits) = o.get("f") {
                crate::props::c08::lit_float(f64::from_bits(bits.as_u64().unwrap()))
            } else if let Some(Json::Array(xs)) = o.get("t") {
                format!("({})", xs.iter().map(to_text).collect::<Vec<_>>().join(", "))
            } else if let Some(Json::Object(fs)) = o.get("s") {
                format!(
                    "struct{{{}}}",
                    fs.iter().map(|(k, v)| format!("{k} := {}", to_text(v))).collect::<Vec<_>>().join(", ")
                )
            } else {
                panic!("bad literal model {v}")
            }
        }
    }
}

/// text of the exact type of the value; with `widen`, every scalar leaf type gets one more member
/// (a type the value also belongs to, but a different one)
pub fn type_text(v: &Json, widen: bool) -> String {
    let leaf = |t: &str| if widen { format!("{t}|{}", if t == "()" { "int" } else { "()" }) } else { t.to_string() };
    match v {
        Json::Null => leaf("()"),
        Json::Bool(_) => leaf("bool"),
        Json::Number(_) => leaf("int"),
        Json::String(_) => leaf("string"),
        Json::Array(xs) => {
            let mut ms: Vec<String> = xs.iter().map(|x| type_text(x, widen)).collect();
            ms.sort();
            ms.dedup();
            if ms.is_empty() { if widen { "[int]".into() } else { "[]".into() } } else { format!("[{}]", ms.join("|")) }
        }
        Json::Object(o) => {
            if o.contains_key("f") {
                leaf("float")
            } else if let Some(Json::Array(xs)) = o.get("t") {
                format!("({})", xs.iter().map(|x| type_text(x, widen)).collect::<Vec<_>>().join(", "))
            } else if let Some(Json::Object(fs)) = o.get("s") {
                format!("struct{{{}}}", fs.iter().map(|(k, x)| format!("{k}: {}", type_text(x, widen))).collect::<Vec<_>>().join(", "))
            } else {
                panic!("bad literal model {v}")
            }
        }
    }
}

/// the model of a real value; None for functions and cells
pub fn from_var(v: &Variable) -> Option<Json> {
    Some(match v {
        Variable::Void => Json::Null,
        Variable::Bool(b) => json!(b),
        Variable::Int(i) => json!(i),
        Variable::Float(f) => float(*f),
        Variable::String(s) => json!(s.as_ref()),
        Variable::Array(a) => Json::Array(a.iter().map(from_var).collect::<Option<Vec<_>>>()?),
        Variable::Tuple(xs) => tuple(xs.iter().map(from_var).collect::<Option<Vec<_>>>()?),
        Variable::Struct(m) => {
            let mut o = serde_json::Map::new();
            let mut keys: Vec<_> = m.keys().collect();
            keys.sort();
            for k in keys {
                o.insert(k.to_string(), from_var(&m[k])?);
            }
            json!({"s": o})
        }
        Variable::Function(_) | Variable::Mut(_) => return None,
    })
}

pub fn show(v: &Json) -> String {
    to_text(v)
}

/// builds the real value through the public constructors (no parsing involved)
pub fn to_var(v: &Json) -> Variable {
    match v {
        Json::Null => Variable::Void,
        Json::Bool(b) => Variable::Bool(*b),
        Json::Number(n) => Variable::Int(n.as_i64().expect("int")),
        Json::String(s) => Variable::String(s.as_str().into()),
        Json::Array(xs) => Variable::from(xs.iter().map(to_var).collect::<Vec<_>>()),
        Json::Object(o) => {
            if let Some(bits) = o.get("f") {
                Variable::Float(f64::from_bits(bits.as_u64().unwrap()))
            } else if let Some(Json::Array(xs)) = o.get("t") {
                Variable::Tuple(xs.iter().map(to_var).collect())
            } else if let Some(Json::Object(fs)) = o.get("s") {
                let m: std::collections::HashMap<std::sync::Arc<str>, Variable> =
                    fs.iter().map(|(k, v)| (k.as_str().into(), to_var(v))).collect();
                Variable::Struct(m.into())
            } else {
                panic!("bad literal model {v}")
            }
        }
    }
}

pub fn contains_int(v: &Json, needle: i64) -> bool {
    match v {
        Json::Number(n) => n.as_i64() == Some(needle),
        Json::Array(xs) => xs.iter().any(|x| contains_int(x, needle)),
        Json::Object(o) => o.values().any(|x| match x {
            Json::Array(xs) => xs.iter().any(|x| contains_int(x, needle)),
            Json::Object(fs) => fs.values().any(|x| contains_int(x, needle)),
            _ => false,
        }),
        _ => false,
    }
}

pub fn depth(v: &Json) -> usize {
    match v {
        Json::Array(xs) => 1 + xs.iter().map(depth).max().unwrap_or(0),
        Json::Object(o) => match o.get("t") {
            Some(Json::Array(xs)) => 1 + xs.iter().map(depth).max().unwrap_or(0),
            _ => 0,
        },
        _ => 0,
    }
}
