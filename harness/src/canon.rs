//! Canonical first-order view of values: aliasing graphs of cells are compared up to
//! isomorphism (cells numbered in first-visit order), functions are opaque but numbered by
//! identity, floats by bits (all NaNs identified).
use simplesl::variable::Variable;
use std::collections::HashMap;
use std::sync::Arc;

#[derive(Clone, Debug, PartialEq, Eq, Hash)]
pub enum Canon {
    Bool(bool),
    Int(i64),
    Float(u64),
    Str(String),
    Void,
    Arr(Vec<Canon>),
    Tup(Vec<Canon>),
    Struct(Vec<(String, Canon)>),
    /// reference to cell #k of the cell table
    Cell(usize),
    /// function #k (identity only)
    Fun(usize),
}

pub fn float_bits(f: f64) -> u64 {
    if f.is_nan() { 0x7ff8_0000_0000_0000 } else { f.to_bits() }
}

#[derive(Clone, Debug, PartialEq, Eq, Hash)]
pub struct CanonValue {
    pub value: Canon,
    /// content of cell #k
    pub cells: Vec<Canon>,
}

impl CanonValue {
    pub fn show(&self) -> String {
        let mut s = show(&self.value);
        if !self.cells.is_empty() {
            s.push_str(" where ");
            for (i, c) in self.cells.iter().enumerate() {
                if i > 0 {
                    s.push_str(", ");
                }
                s.push_str(&format!("#{i}={}", show(c)));
            }
        }
        s
    }
}

pub fn show(c: &Canon) -> String {
    match c {
        Canon::Bool(b) => b.to_string(),
        Canon::Int(i) => i.to_string(),
        Canon::Float(bits) => format!("{:?}", f64::from_bits(*bits)),
        Canon::Str(s) => format!("{s:?}"),
        Canon::Void => "()".into(),
        Canon::Arr(xs) => format!("[{}]", xs.iter().map(show).collect::<Vec<_>>().join(", ")),
        Canon::Tup(xs) => format!("({})", xs.iter().map(show).collect::<Vec<_>>().join(", ")),
        Canon::Struct(fs) => format!(
            "struct{{{}}}",
            fs.iter().map(|(k, v)| format!("{k}:={}", show(v))).collect::<Vec<_>>().join(", ")
        ),
        Canon::Cell(k) => format!("cell#{k}"),
        Canon::Fun(k) => format!("fn#{k}"),
    }
}

#[derive(Default)]
pub struct Canonizer {
    cells: HashMap<usize, usize>,
    funs: HashMap<usize, usize>,
    table: Vec<Option<Canon>>,
}

impl Canonizer {
    pub fn value(&mut self, v: &Variable) -> Canon {
        match v {
            Variable::Bool(b) => Canon::Bool(*b),
            Variable::Int(i) => Canon::Int(*i),
            Variable::Float(f) => Canon::Float(float_bits(*f)),
            Variable::String(s) => Canon::Str(s.to_string()),
            Variable::Void => Canon::Void,
            Variable::Array(a) => Canon::Arr(a.iter().map(|x| self.value(x)).collect()),
            Variable::Tuple(xs) => Canon::Tup(xs.iter().map(|x| self.value(x)).collect()),
            Variable::Struct(m) => {
                let mut fs: Vec<(String, Canon)> = vec![];
                let mut keys: Vec<&Arc<str>> = m.keys().collect();
                keys.sort();
                for k in keys {
                    fs.push((k.to_string(), self.value(&m[k])));
                }
                Canon::Struct(fs)
            }
            Variable::Function(f) => {
                let key = Arc::as_ptr(f) as usize;
                let n = self.funs.len();
                Canon::Fun(*self.funs.entry(key).or_insert(n))
            }
            Variable::Mut(m) => {
                let key = Arc::as_ptr(m) as usize;
                if let Some(k) = self.cells.get(&key) {
                    return Canon::Cell(*k);
                }
                let k = self.table.len();
                self.cells.insert(key, k);
                self.table.push(None);
                let content = m.variable.read().map(|g| g.clone());
                let c = match content {
                    Ok(v) => self.value(&v),
                    Err(_) => Canon::Str("<poisoned>".into()),
                };
                self.table[k] = Some(c);
                Canon::Cell(k)
            }
        }
    }

    pub fn finish(self, value: Canon) -> CanonValue {
        CanonValue {
            value,
            cells: self.table.into_iter().map(|c| c.unwrap_or(Canon::Void)).collect(),
        }
    }
}

pub fn canon(v: &Variable) -> CanonValue {
    let mut c = Canonizer::default();
    let value = c.value(v);
    c.finish(value)
}

/// several roots canonised with one shared cell table (e.g. all top-level names + result)
pub fn canon_many(vs: &[&Variable]) -> CanonValue {
    let mut c = Canonizer::default();
    let parts = vs.iter().map(|v| c.value(v)).collect();
    c.finish(Canon::Tup(parts))
}
