//! Entry points of the coverage-guided targets (/verif/fuzz): the same decoders and oracles
//! as the proptest-driven checks, fed from libFuzzer's bytes.
use crate::{
    engine::{Property, Stats, Tier, Verdict, load_known},
    props,
    tape::Tape,
};
use serde_json::{Value as Json, json};
use std::{path::PathBuf, sync::OnceLock};

fn root() -> PathBuf {
    std::env::var("VERIF_ROOT").map(PathBuf::from).unwrap_or_else(|_| PathBuf::from("/verif"))
}

fn known_sigs() -> &'static Vec<(String, String)> {
    static K: OnceLock<Vec<(String, String)>> = OnceLock::new();
    K.get_or_init(|| load_known(&root()).into_iter().map(|k| (k.property, k.sig)).collect())
}

fn report(prop: &str, sig: &str, msg: &str, case: &Json) -> ! {
    let dir = root().join("replays");
    let _ = std::fs::create_dir_all(&dir);
    let path = dir.join(format!("{prop}-fuzz.json"));
    let doc = json!({"property": prop, "sig": sig, "message": msg, "case": case});
    let _ = std::fs::write(&path, serde_json::to_string_pretty(&doc).unwrap());
    eprintln!("FUZZ-VIOLATION property={prop} sig={sig} replay={}\n{msg}", path.display());
    std::process::abort();
}

/// one libFuzzer input for the tape-driven check of property `id`
pub fn tape_property(id: &'static str, data: &[u8]) {
    crate::run::install_panic_hook();
    let Some(prop) = props::by_id(id) else {
        return;
    };
    let mut tape = Tape::from_bytes(data);
    let Some(case) = prop.gen_case(&mut tape, Tier::Quick) else {
        return;
    };
    let mut stats = Stats::default();
    if let Verdict::Fail(f) = prop.check_case(&case, &mut stats) {
        if known_sigs().iter().any(|(p, s)| p == id && *s == f.sig) {
            return;
        }
        report(id, &f.sig, &f.msg, &case);
    }
}

/// one libFuzzer input for C03: raw text
pub fn text_parse(data: &[u8]) {
    crate::run::install_panic_hook();
    let Ok(text) = std::str::from_utf8(data) else {
        return;
    };
    // parse time doubles with every level of parentheses (DESIGN.md section 13): keep the campaign moving
    let (mut depth, mut deepest) = (0usize, 0usize);
    for c in text.chars() {
        match c {
            '(' => {
                depth += 1;
                deepest = deepest.max(depth);
            }
            ')' => depth = depth.saturating_sub(1),
            _ => {}
        }
    }
    if deepest > 9 {
        return;
    }
    let case = json!({"src": "libfuzzer", "text": text});
    let mut stats = Stats::default();
    if let Verdict::Fail(f) = props::c03::C03.check_case(&case, &mut stats) {
        if known_sigs().iter().any(|(p, s)| p == "C03" && *s == f.sig) {
            return;
        }
        report("C03", &f.sig, &f.msg, &case);
    }
}

pub fn property_from_env() -> &'static str {
    static P: OnceLock<&'static str> = OnceLock::new();
    P.get_or_init(|| Box::leak(std::env::var("VERIF_FUZZ_PROP").unwrap_or_else(|_| "C06".into()).into_boxed_str()))
}

#[allow(unused)]
fn _assert_object_safe(_: &dyn Property) {}
