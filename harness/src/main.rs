//! vcheck <Cxx> <quick|thorough|replay> [file]
//! exit 0 = property held on everything explored, 1 = violation, 2 = inconclusive.

use vharness::engine::{Session, Tier};
use vharness::{props, run};
use std::path::PathBuf;

fn main() {
    let args: Vec<String> = std::env::args().collect();
    if args.len() < 3 {
        eprintln!("usage: vcheck <Cxx> <quick|thorough|replay> [file]");
        std::process::exit(2);
    }
    let id: &'static str = Box::leak(args[1].clone().into_boxed_str());
    let mode = args[2].as_str();
    let root = std::env::var("VERIF_ROOT").map(PathBuf::from).unwrap_or_else(|_| PathBuf::from("/verif"));
    let seed = std::env::var("VERIF_SEED")
        .ok()
        .and_then(|s| s.trim().parse::<i64>().ok())
        .unwrap_or(20260924);
    run::install_panic_hook();
    // watchdog: a run that makes no end is inconclusive, never a violation
    let limit = std::env::var("VERIF_WATCHDOG_S").ok().and_then(|s| s.parse::<u64>().ok());
    let tier = match mode {
        "thorough" => Tier::Thorough,
        _ => Tier::Quick,
    };
    let limit = limit.unwrap_or(tier.of(1500, 6 * 3600));
    std::thread::spawn(move || {
        std::thread::sleep(std::time::Duration::from_secs(limit));
        println!("INCONCLUSIVE property={id} watchdog after {limit}s");
        std::process::exit(2);
    });
    if id == "C16" && mode == "child" {
        // child side of the first-use workloads of C16
        std::process::exit(props::c16::child(args.get(3).map(String::as_str).unwrap_or("")));
    }
    if id == "C03" && mode == "child" {
        // child side of the cyclic-import catalogue of C03
        std::process::exit(props::c03::child(args.get(3).map(String::as_str).unwrap_or("")));
    }
    if id == "C18" && mode == "child" {
        // child side of the stdout fault states of C18
        std::process::exit(props::c18::child(args.get(3).map(String::as_str).unwrap_or("")));
    }
    if id == "C05" && mode == "child" {
        // child side of the cross-process comparison of C05
        std::process::exit(props::c05::child(args.get(3).map(String::as_str).unwrap_or("")));
    }
    let session = Session::new(id, tier, seed as u64, root);
    let code = match mode {
        "replay" => {
            let Some(path) = args.get(3) else {
                eprintln!("replay needs a file");
                std::process::exit(2);
            };
            props::replay(&session, &PathBuf::from(path))
        }
        "quick" | "thorough" => {
            let code = props::run(&session);
            vharness::genr::case::cleanup_import_dirs();
            code
        }
        _ => {
            eprintln!("unknown mode {mode}");
            2
        }
    };
    std::process::exit(code);
}
