//! Executing programs and function values with the type-soundness monitor installed.
use crate::{
    run::{self, Outcome},
    ty::{self, Ty},
};
use simplesl::{
    Code, Interpreter,
    function::Function,
    variable::{ReturnType, Variable},
    verif::{self, Event},
};
use std::{cell::RefCell, collections::BTreeMap, rc::Rc, sync::Arc};

#[derive(Clone, Debug)]
pub struct TypeViolation {
    pub sig: String,
    pub msg: String,
}

#[derive(Default, Clone)]
pub struct MonitorLog {
    pub violations: Vec<TypeViolation>,
    /// (instruction kind, shape of the static type) -> observations
    pub hits: BTreeMap<(String, &'static str), u64>,
    pub events: u64,
    pub compound_events: u64,
}

fn class_of(why: &str) -> &'static str {
    if why.contains("run-time type") {
        "tag"
    } else if why.contains("no value belongs to !") {
        "never"
    } else if why.contains("cell") {
        "cell"
    } else {
        "content"
    }
}

fn judge(log: &mut MonitorLog, what: &str, kind: &str, text: &str, static_type: &Ty, value: &Variable) {
    log.events += 1;
    if static_type.is_compound() {
        log.compound_events += 1;
    }
    *log.hits.entry((kind.to_string(), static_type.shape())).or_default() += 1;
    if log.violations.len() < 8
        && let Some(why) = ty::labels_ok(value, 0)
    {
        let only_void_for_never = ty::relaxed(|| ty::labels_ok(value, 0).is_none());
        let sig = if only_void_for_never { "C01:void-for-never".to_string() } else { format!("C01:{what}:{kind}:label") };
        log.violations.push(TypeViolation { sig, msg: format!("{what} of `{text}` ({kind}): {why}") });
    }
    let why = ty::tag_not_sub(value, static_type).or_else(|| ty::not_inhabits(value, static_type, 0));
    if let Some(why) = why
        && log.violations.len() < 8
    {
        // would the value be fine if `()` were a value of `!`? then it is (a consequence of) the
        // known filler of an exhausted empty-typed iterator, with its own signature
        let only_void_for_never = ty::relaxed(|| {
            ty::tag_not_sub(value, static_type).is_none() && ty::not_inhabits(value, static_type, 0).is_none()
        });
        let sig = if only_void_for_never { "C01:void-for-never".to_string() } else { format!("C01:{what}:{kind}:{}", class_of(&why)) };
        log.violations.push(TypeViolation {
            sig,
            msg: format!("{what} of `{text}` ({kind}) has static type {} but {why}", static_type.print()),
        });
    }
}

/// Runs `f` with the monitor installed on this thread.
pub fn monitored<T>(f: impl FnOnce() -> T) -> (T, MonitorLog) {
    let log = Rc::new(RefCell::new(MonitorLog::default()));
    let sink = log.clone();
    verif::set_monitor(Some(Box::new(move |event| {
        let mut log = sink.borrow_mut();
        match event {
            Event::Value { kind, text, static_type, value } => {
                judge(&mut log, "value", kind, text, &Ty::from_real(static_type), value);
            }
            Event::TypePanic { kind, text } => {
                if log.violations.len() < 8 {
                    log.violations.push(TypeViolation {
                        sig: format!("C01:type-panic:{kind}"),
                        msg: format!("the static type of `{text}` ({kind}) cannot be computed (return_type() panicked)"),
                    });
                }
            }
            Event::Arg { function, param, param_type, value } => {
                let text = format!("{function} <- {param}");
                judge(&mut log, "argument", "Arg", &text, &Ty::from_real(param_type), value);
            }
            Event::Return { function, declared, value } => {
                judge(&mut log, "return", "Return", function, &Ty::from_real(declared), value);
            }
        }
    })));
    let result = std::panic::catch_unwind(std::panic::AssertUnwindSafe(f));
    verif::set_monitor(None);
    let log = log.borrow().clone();
    match result {
        Ok(v) => (v, log),
        Err(p) => std::panic::resume_unwind(p),
    }
}

pub struct Run {
    pub outcome: Outcome,
    pub log: MonitorLog,
    pub static_type: Option<Ty>,
}

/// an interpreter with the parts of std that touch neither the file system nor stdin/stdout
pub fn safe_interpreter() -> Interpreter<'static> {
    let full = Interpreter::with_stdlib();
    let mut interp = Interpreter::without_stdlib();
    if let Some(Variable::Struct(m)) = full.get_variable("std") {
        let safe: std::collections::HashMap<Arc<str>, Variable> =
            m.iter().filter(|(k, _)| k.as_ref() != "fs" && k.as_ref() != "io").map(|(k, v)| (k.clone(), v.clone())).collect();
        interp.insert("std".into(), Variable::Struct(safe.into()));
    }
    interp
}

/// parse against the safe interpreter and execute, with or without the monitor
pub fn run_program(text: &str, monitor: bool) -> Run {
    run_program_in(safe_interpreter(), text, monitor)
}

/// the same against the whole of std (hand-written programs over a scratch directory only)
pub fn run_program_full(text: &str, monitor: bool) -> Run {
    run_program_in(Interpreter::with_stdlib(), text, monitor)
}

fn run_program_in(interp: Interpreter<'static>, text: &str, monitor: bool) -> Run {
    run::default_budget();
    let code = match run::parse_guarded(&interp, text) {
        Ok(Ok(code)) => code,
        Ok(Err(kind)) => return Run { outcome: Outcome::Rejected(kind), log: MonitorLog::default(), static_type: None },
        Err(o) => return Run { outcome: o, log: MonitorLog::default(), static_type: None },
    };
    exec_code(&code, monitor)
}

pub fn exec_code(code: &Code, monitor: bool) -> Run {
    let static_type = run::guarded(|| code.return_type()).ok().map(|t| Ty::from_real(&t));
    run::default_budget();
    let (outcome, mut log) = if monitor { monitored(|| run::exec_guarded(code)) } else { (run::exec_guarded(code), MonitorLog::default()) };
    if monitor && let Outcome::Value(v) = &outcome {
        match &static_type {
            Some(t) => judge(&mut log, "result", "Code", "<program>", t, v),
            None => log.violations.push(TypeViolation {
                sig: "C01:type-panic:Code".into(),
                msg: "Code::return_type() panicked for an accepted program".into(),
            }),
        }
        if let Some(why) = ty::cells_ok(v, 0) {
            log.violations.push(TypeViolation { sig: "C01:cell-content".into(), msg: format!("after the run: {why}") });
        }
    }
    Run { outcome, log, static_type }
}

/// call a function value through the host API
pub fn call_function(f: &Arc<Function>, args: Vec<Variable>, monitor: bool) -> Run {
    run::default_budget();
    let code = match run::guarded(|| f.clone().create_call(args)) {
        Ok(Ok(code)) => code,
        Ok(Err(e)) => return Run { outcome: Outcome::Rejected(run::error_kind(&e)), log: MonitorLog::default(), static_type: None },
        Err(c) => {
            return Run { outcome: run::caught_to_outcome("create_call", c), log: MonitorLog::default(), static_type: None };
        }
    };
    exec_code(&code, monitor)
}

/// parse + exec_unscoped into a fresh safe interpreter, which is handed back so that the host
/// can look at the top-level names afterwards (also after a run-time error)
pub fn run_program_keep(text: &str) -> (Outcome, Interpreter<'static>) {
    run::default_budget();
    let mut interp = safe_interpreter();
    let code = match run::parse_guarded(&interp, text) {
        Ok(Ok(code)) => code,
        Ok(Err(kind)) => return (Outcome::Rejected(kind), interp),
        Err(o) => return (o, interp),
    };
    let outcome = run::exec_unscoped_guarded(&code, &mut interp);
    (outcome, interp)
}
