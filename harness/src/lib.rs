//! vharness: generators, oracles and drivers of the SimpleSL checks (used by the `vcheck` binary
//! and by the libFuzzer targets in /verif/fuzz)
#![allow(dead_code)]
pub mod canon;
pub mod engine;
pub mod exec;
pub mod genr;
pub mod sem;
pub mod lit;
pub mod props;
pub mod run;
pub mod tape;
pub mod ty;
pub mod fuzz;
