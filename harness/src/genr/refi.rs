//! Reference interpreter: an independent big-step evaluator of the generated subset, written
//! from README.md, docs/*.md and the property statements (not from src/).
use super::ast::{Arm, Expr, Stmt};
use crate::{
    canon::{Canon, CanonValue, float_bits},
    ty::{Ty, sub},
};
use std::{cell::RefCell, collections::BTreeMap, rc::Rc};

#[derive(Clone)]
pub enum RVal {
    Int(i64),
    Float(f64),
    Bool(bool),
    Str(Rc<str>),
    Void,
    Arr(Rc<Vec<RVal>>),
    Tup(Rc<Vec<RVal>>),
    Struct(Rc<BTreeMap<String, RVal>>),
    Cell(Rc<CellData>),
    Fun(Rc<Closure>),
    /// a value the documentation leaves unspecified (filler of an exhausted iterator)
    Unspec,
}

pub struct CellData {
    pub declared: Ty,
    pub content: RefCell<RVal>,
}

pub enum Body {
    User { params: Vec<String>, body: Rc<Vec<Stmt>>, env: Env, self_name: Option<String> },
    ArrayIter { items: Rc<Vec<RVal>>, pos: RefCell<usize> },
    MapIter { src: RVal, f: RVal },
    FilterIter { src: RVal, p: RVal },
    TypeFilterIter { src: RVal, ty: Ty },
    /// tick function: logs and returns its second argument
    Tick,
}

pub struct Closure {
    pub declared: Ty,
    pub body: Body,
}

/// lexical environment: immutable snapshots (cells are shared by reference)
#[derive(Clone, Default)]
pub struct Env(Rc<BTreeMap<String, RVal>>);

impl Env {
    fn get(&self, name: &str) -> Option<&RVal> {
        self.0.get(name)
    }
    fn with(&self, name: &str, v: RVal) -> Env {
        let mut m = (*self.0).clone();
        m.insert(name.to_string(), v);
        Env(Rc::new(m))
    }
}

#[derive(Debug, Clone, PartialEq)]
pub enum Stop {
    Break,
    Continue,
    Return(CanonLess),
    Error(&'static str),
    /// the program touched a value the documentation does not specify
    Unspecified,
    /// reference budget exhausted (generator bug): the case is discarded
    Budget,
    /// the reference met something it does not model
    Unsupported(String),
}

/// returned values travel inside Stop::Return; wrapped so that Stop can derive Debug/PartialEq
#[derive(Clone)]
pub struct CanonLess(pub RVal);
impl std::fmt::Debug for CanonLess {
    fn fmt(&self, f: &mut std::fmt::Formatter<'_>) -> std::fmt::Result {
        write!(f, "<value>")
    }
}
impl PartialEq for CanonLess {
    fn eq(&self, _: &Self) -> bool {
        true
    }
}

type R<T> = Result<T, Stop>;

#[derive(Default, Clone, Debug)]
pub struct Counters {
    pub steps: u64,
    pub calls: u64,
    pub loop_iterations: u64,
    pub shadowings: u64,
    pub captures_then_redeclared: u64,
    pub closures_created: u64,
    pub cells_created: u64,
    pub writes: u64,
    pub aliased_reads: u64,
    pub failed_compound: u64,
    pub nonlocal_exits: u64,
    pub arms_not_first: u64,
    pub short_circuits: u64,
    pub iterator_pulls: u64,
    pub iterators_with_locals_consumed: u64,
    pub ticks: u64,
    pub type_dispatches: u64,
}

pub struct Interp {
    pub log: Vec<i64>,
    pub counters: Counters,
    budget: u64,
    depth: u32,
    /// names captured by some closure, for the capture-then-redeclare counter
    captured_names: Vec<String>,
    cell_writers: BTreeMap<usize, u64>,
}

fn wrap(x: i128) -> i64 {
    x as i64
}

pub fn rtype(v: &RVal) -> Ty {
    match v {
        RVal::Int(_) => Ty::Int,
        RVal::Float(_) => Ty::Float,
        RVal::Bool(_) => Ty::Bool,
        RVal::Str(_) => Ty::Str,
        RVal::Void | RVal::Unspec => Ty::Void,
        RVal::Arr(xs) => Ty::arr(Ty::union(xs.iter().map(rtype))),
        RVal::Tup(xs) => Ty::Tup(xs.iter().map(rtype).collect()),
        RVal::Struct(fs) => Ty::Struct(fs.iter().map(|(k, v)| (k.clone(), rtype(v))).collect()),
        RVal::Cell(c) => Ty::cell(c.declared.clone()),
        RVal::Fun(f) => f.declared.clone(),
    }
}

pub fn rv_eq(a: &RVal, b: &RVal) -> R<bool> {
    Ok(match (a, b) {
        (RVal::Unspec, _) | (_, RVal::Unspec) => return Err(Stop::Unspecified),
        (RVal::Int(x), RVal::Int(y)) => x == y,
        (RVal::Float(x), RVal::Float(y)) => x == y,
        (RVal::Bool(x), RVal::Bool(y)) => x == y,
        (RVal::Str(x), RVal::Str(y)) => x == y,
        (RVal::Void, RVal::Void) => true,
        (RVal::Arr(x), RVal::Arr(y)) | (RVal::Tup(x), RVal::Tup(y)) => {
            if x.len() != y.len() {
                return Ok(false);
            }
            for (p, q) in x.iter().zip(y.iter()) {
                if !rv_eq(p, q)? {
                    return Ok(false);
                }
            }
            true
        }
        (RVal::Struct(x), RVal::Struct(y)) => {
            if x.len() != y.len() {
                return Ok(false);
            }
            for (k, p) in x.iter() {
                match y.get(k) {
                    Some(q) if rv_eq(p, q)? => {}
                    _ => return Ok(false),
                }
            }
            true
        }
        (RVal::Cell(x), RVal::Cell(y)) => Rc::ptr_eq(x, y),
        (RVal::Fun(x), RVal::Fun(y)) => Rc::ptr_eq(x, y),
        _ => false,
    })
}

impl Interp {
    pub fn new(budget: u64) -> Self {
        Self { log: vec![], counters: Counters::default(), budget, depth: 0, captured_names: vec![], cell_writers: BTreeMap::new() }
    }

    fn step(&mut self) -> R<()> {
        self.counters.steps += 1;
        if self.counters.steps > self.budget { Err(Stop::Budget) } else { Ok(()) }
    }

    // ---------- arithmetic, per docs/operators.md ----------

    fn bin(&mut self, op: &str, a: RVal, b: RVal) -> R<RVal> {
        if matches!(a, RVal::Unspec) || matches!(b, RVal::Unspec) {
            return Err(Stop::Unspecified);
        }
        Ok(match (op, &a, &b) {
            ("==", ..) => RVal::Bool(rv_eq(&a, &b)?),
            ("!=", ..) => RVal::Bool(!rv_eq(&a, &b)?),
            (_, RVal::Int(x), RVal::Int(y)) => {
                let (x, y) = (*x, *y);
                let (p, q) = (x as i128, y as i128);
                match op {
                    "+" => RVal::Int(wrap(p + q)),
                    "-" => RVal::Int(wrap(p - q)),
                    "*" => RVal::Int(wrap(p * q)),
                    "/" => {
                        if y == 0 {
                            return Err(Stop::Error("ZeroDivision"));
                        }
                        RVal::Int(wrap(p / q))
                    }
                    "%" => {
                        if y == 0 {
                            return Err(Stop::Error("ZeroModulo"));
                        }
                        RVal::Int(wrap(p % q))
                    }
                    "**" => {
                        if y < 0 {
                            return Err(Stop::Error("NegativeExponent"));
                        }
                        let (mut r, mut b, mut e) = (1u64, x as u64, y as u64);
                        while e > 0 {
                            if e & 1 == 1 {
                                r = r.wrapping_mul(b);
                            }
                            b = b.wrapping_mul(b);
                            e >>= 1;
                        }
                        RVal::Int(r as i64)
                    }
                    "<<" => {
                        if !(0..=63).contains(&y) {
                            return Err(Stop::Error("OverflowShift"));
                        }
                        RVal::Int(((x as u64) << y) as i64)
                    }
                    ">>" => {
                        if !(0..=63).contains(&y) {
                            return Err(Stop::Error("OverflowShift"));
                        }
                        RVal::Int(wrap(p.div_euclid(1i128 << y)))
                    }
                    "&" => RVal::Int(x & y),
                    "|" => RVal::Int(x | y),
                    "^" => RVal::Int(x ^ y),
                    "<" => RVal::Bool(x < y),
                    "<=" => RVal::Bool(x <= y),
                    ">" => RVal::Bool(x > y),
                    ">=" => RVal::Bool(x >= y),
                    _ => return Err(Stop::Unsupported(format!("int {op}"))),
                }
            }
            (_, RVal::Float(x), RVal::Float(y)) => {
                let (x, y) = (*x, *y);
                match op {
                    "+" => RVal::Float(x + y),
                    "-" => RVal::Float(x - y),
                    "*" => RVal::Float(x * y),
                    "/" => RVal::Float(x / y),
                    "**" => RVal::Float(x.powf(y)),
                    "<" => RVal::Bool(x < y),
                    "<=" => RVal::Bool(x <= y),
                    ">" => RVal::Bool(x > y),
                    ">=" => RVal::Bool(x >= y),
                    _ => return Err(Stop::Unsupported(format!("float {op}"))),
                }
            }
            (_, RVal::Bool(x), RVal::Bool(y)) => match op {
                "&" => RVal::Bool(*x & *y),
                "|" => RVal::Bool(*x | *y),
                "^" => RVal::Bool(*x ^ *y),
                _ => return Err(Stop::Unsupported(format!("bool {op}"))),
            },
            ("+", RVal::Str(x), RVal::Str(y)) => {
                if x.len() + y.len() > 1 << 20 {
                    return Err(Stop::Budget);
                }
                RVal::Str(format!("{x}{y}").into())
            }
            ("+", RVal::Arr(x), RVal::Arr(y)) => {
                if x.len() + y.len() > 1 << 18 {
                    return Err(Stop::Budget);
                }
                let mut v = (**x).clone();
                v.extend(y.iter().cloned());
                RVal::Arr(Rc::new(v))
            }
            _ => return Err(Stop::Unsupported(format!("{op} on {} and {}", rtype(&a).print(), rtype(&b).print()))),
        })
    }

    // ---------- calls and iterators ----------

    pub fn call(&mut self, f: &RVal, args: Vec<RVal>) -> R<RVal> {
        // runaway recursion is a generator accident, not a subject: give up early (and keep the
        // native stack shallow)
        if self.depth > 200 {
            return Err(Stop::Budget);
        }
        self.depth += 1;
        let r = self.call_inner(f, args);
        self.depth -= 1;
        r
    }

    fn call_inner(&mut self, f: &RVal, args: Vec<RVal>) -> R<RVal> {
        self.step()?;
        self.counters.calls += 1;
        let RVal::Fun(clo) = f else {
            return Err(Stop::Unsupported("call of a non-function".into()));
        };
        match &clo.body {
            Body::User { params, body, env, self_name } => {
                let mut env = env.clone();
                if let Some(n) = self_name {
                    env = env.with(n, f.clone());
                }
                for (p, a) in params.iter().zip(args) {
                    env = env.with(p, a);
                }
                let body = body.clone();
                match self.block_in(&body, env) {
                    Ok(_) => Ok(RVal::Void),
                    Err(Stop::Return(v)) => Ok(v.0),
                    Err(Stop::Break) | Err(Stop::Continue) => Err(Stop::Unsupported("break/continue escaped a function".into())),
                    Err(e) => Err(e),
                }
            }
            Body::ArrayIter { items, pos } => {
                self.counters.iterator_pulls += 1;
                let i = *pos.borrow();
                if i < items.len() {
                    *pos.borrow_mut() = i + 1;
                    Ok(RVal::Tup(Rc::new(vec![RVal::Bool(true), items[i].clone()])))
                } else {
                    Ok(RVal::Tup(Rc::new(vec![RVal::Bool(false), RVal::Unspec])))
                }
            }
            Body::MapIter { src, f: mapper } => {
                let (con, v) = self.pull(src)?;
                if !con {
                    return Ok(RVal::Tup(Rc::new(vec![RVal::Bool(false), RVal::Unspec])));
                }
                let r = self.call(mapper, vec![v])?;
                Ok(RVal::Tup(Rc::new(vec![RVal::Bool(true), r])))
            }
            Body::FilterIter { src, p } => loop {
                self.step()?;
                let (con, v) = self.pull(src)?;
                if !con {
                    return Ok(RVal::Tup(Rc::new(vec![RVal::Bool(false), RVal::Unspec])));
                }
                if let RVal::Bool(true) = self.call(p, vec![v.clone()])? {
                    return Ok(RVal::Tup(Rc::new(vec![RVal::Bool(true), v])));
                }
            },
            Body::TypeFilterIter { src, ty } => loop {
                self.step()?;
                let (con, v) = self.pull(src)?;
                if !con {
                    return Ok(RVal::Tup(Rc::new(vec![RVal::Bool(false), RVal::Unspec])));
                }
                if matches!(v, RVal::Unspec) {
                    return Err(Stop::Unspecified);
                }
                self.counters.type_dispatches += 1;
                if sub(&rtype(&v), ty) {
                    return Ok(RVal::Tup(Rc::new(vec![RVal::Bool(true), v])));
                }
            },
            Body::Tick => {
                let mut it = args.into_iter();
                let (k, v) = (it.next(), it.next());
                if let Some(RVal::Int(k)) = k {
                    self.log.push(k);
                    self.counters.ticks += 1;
                }
                v.ok_or_else(|| Stop::Unsupported("tick arity".into()))
            }
        }
    }

    /// one step of the iterator protocol: (has element, element)
    fn pull(&mut self, it: &RVal) -> R<(bool, RVal)> {
        match self.call(it, vec![])? {
            RVal::Tup(t) if t.len() == 2 => match &t[0] {
                RVal::Bool(b) => Ok((*b, t[1].clone())),
                _ => Err(Stop::Unsupported("iterator result".into())),
            },
            _ => Err(Stop::Unsupported("iterator result".into())),
        }
    }

    fn note_consumed(&mut self, it: &RVal) {
        if let RVal::Fun(c) = it
            && let Body::User { body, .. } = &c.body
            && body.iter().any(|s| matches!(s, Stmt::Let(..) | Stmt::Destruct(..)))
        {
            self.counters.iterators_with_locals_consumed += 1;
        }
    }

    // ---------- expressions ----------

    pub fn expr(&mut self, e: &Expr, env: &Env) -> R<RVal> {
        self.step()?;
        Ok(match e {
            Expr::Int(i) => RVal::Int(*i),
            Expr::Float(f) => RVal::Float(*f),
            Expr::Bool(b) => RVal::Bool(*b),
            Expr::Str(s) => RVal::Str(s.as_str().into()),
            Expr::Void => RVal::Void,
            Expr::Var(n) => env.get(n).cloned().ok_or_else(|| Stop::Unsupported(format!("unbound {n}")))?,
            Expr::Neg(x) => match self.expr(x, env)? {
                RVal::Int(i) => RVal::Int(i.wrapping_neg()),
                RVal::Float(f) => RVal::Float(-f),
                RVal::Unspec => return Err(Stop::Unspecified),
                _ => return Err(Stop::Unsupported("neg".into())),
            },
            Expr::Not(x) => match self.expr(x, env)? {
                RVal::Int(i) => RVal::Int(!i),
                RVal::Bool(b) => RVal::Bool(!b),
                RVal::Unspec => return Err(Stop::Unspecified),
                _ => return Err(Stop::Unsupported("not".into())),
            },
            Expr::Deref(x) => match self.expr(x, env)? {
                RVal::Cell(c) => {
                    let id = Rc::as_ptr(&c) as usize;
                    if self.cell_writers.get(&id).copied().unwrap_or(0) > 0 {
                        self.counters.aliased_reads += 1;
                    }
                    c.content.borrow().clone()
                }
                _ => return Err(Stop::Unsupported("deref".into())),
            },
            Expr::Bin("&&", a, b) => match self.expr(a, env)? {
                RVal::Bool(false) => {
                    self.counters.short_circuits += 1;
                    RVal::Bool(false)
                }
                RVal::Bool(true) => self.expr(b, env)?,
                RVal::Unspec => return Err(Stop::Unspecified),
                _ => return Err(Stop::Unsupported("&&".into())),
            },
            Expr::Bin("||", a, b) => match self.expr(a, env)? {
                RVal::Bool(true) => {
                    self.counters.short_circuits += 1;
                    RVal::Bool(true)
                }
                RVal::Bool(false) => self.expr(b, env)?,
                RVal::Unspec => return Err(Stop::Unspecified),
                _ => return Err(Stop::Unsupported("||".into())),
            },
            Expr::Bin(op, a, b) => {
                let x = self.expr(a, env)?;
                let y = self.expr(b, env)?;
                self.bin(op, x, y)?
            }
            Expr::Array(xs) => {
                let mut v = vec![];
                for x in xs {
                    v.push(self.expr(x, env)?);
                }
                RVal::Arr(Rc::new(v))
            }
            Expr::Repeat(v, n) => {
                let v = self.expr(v, env)?;
                match self.expr(n, env)? {
                    RVal::Int(n) if n < 0 => return Err(Stop::Error("NegativeLength")),
                    RVal::Int(n) => {
                        if n > 10_000 {
                            return Err(Stop::Budget);
                        }
                        RVal::Arr(Rc::new(vec![v; n as usize]))
                    }
                    RVal::Unspec => return Err(Stop::Unspecified),
                    _ => return Err(Stop::Unsupported("repeat".into())),
                }
            }
            Expr::Tuple(xs) => {
                let mut v = vec![];
                for x in xs {
                    v.push(self.expr(x, env)?);
                }
                RVal::Tup(Rc::new(v))
            }
            Expr::Struct(fs) => {
                let mut m = BTreeMap::new();
                for (k, x) in fs {
                    let v = self.expr(x, env)?;
                    m.insert(k.clone(), v);
                }
                RVal::Struct(Rc::new(m))
            }
            Expr::Index(a, i) => {
                let a = self.expr(a, env)?;
                let i = match self.expr(i, env)? {
                    RVal::Int(i) => i as i128,
                    RVal::Unspec => return Err(Stop::Unspecified),
                    _ => return Err(Stop::Unsupported("index".into())),
                };
                let items: Vec<RVal> = match &a {
                    RVal::Arr(xs) => (**xs).clone(),
                    RVal::Str(s) => s.chars().map(|c| RVal::Str(c.to_string().into())).collect(),
                    RVal::Unspec => return Err(Stop::Unspecified),
                    _ => return Err(Stop::Unsupported("index base".into())),
                };
                let n = items.len() as i128;
                if i < -n || i >= n {
                    return Err(Stop::Error("IndexOutOfBounds"));
                }
                items[(if i < 0 { n + i } else { i }) as usize].clone()
            }
            Expr::Slice(a, s, e2, st) => {
                let a = self.expr(a, env)?;
                let mut bounds = [None, None, None];
                for (k, b) in [s, e2, st].into_iter().enumerate() {
                    if let Some(b) = b {
                        bounds[k] = match self.expr(b, env)? {
                            RVal::Int(i) => Some(i),
                            RVal::Unspec => return Err(Stop::Unspecified),
                            _ => return Err(Stop::Unsupported("slice bound".into())),
                        };
                    }
                }
                match &a {
                    RVal::Arr(xs) => {
                        let idx = py_slice(xs.len(), bounds[0], bounds[1], bounds[2]);
                        RVal::Arr(Rc::new(idx.into_iter().map(|i| xs[i].clone()).collect()))
                    }
                    RVal::Str(s) => {
                        let cs: Vec<char> = s.chars().collect();
                        let idx = py_slice(cs.len(), bounds[0], bounds[1], bounds[2]);
                        RVal::Str(idx.into_iter().map(|i| cs[i]).collect::<String>().into())
                    }
                    RVal::Unspec => return Err(Stop::Unspecified),
                    _ => return Err(Stop::Unsupported("slice base".into())),
                }
            }
            Expr::TupleAt(a, k) => match self.expr(a, env)? {
                RVal::Tup(t) => t.get(*k).cloned().ok_or_else(|| Stop::Unsupported("tuple index".into()))?,
                RVal::Unspec => return Err(Stop::Unspecified),
                _ => return Err(Stop::Unsupported("tuple access".into())),
            },
            Expr::Field(a, f) => match self.expr(a, env)? {
                RVal::Struct(m) => m.get(f).cloned().ok_or_else(|| Stop::Unsupported("field".into()))?,
                RVal::Unspec => return Err(Stop::Unspecified),
                _ => return Err(Stop::Unsupported("field access".into())),
            },
            Expr::Call(f, args) => {
                let fv = self.expr(f, env)?;
                let mut vs = vec![];
                for a in args {
                    vs.push(self.expr(a, env)?);
                }
                if matches!(fv, RVal::Unspec) {
                    return Err(Stop::Unspecified);
                }
                self.call(&fv, vs)?
            }
            Expr::Lambda(params, ret, body) => self.closure(params, ret, body, env, None),
            Expr::MutNew(t, x) | Expr::MutAuto(t, x) => {
                let v = self.expr(x, env)?;
                self.counters.cells_created += 1;
                RVal::Cell(Rc::new(CellData { declared: t.clone(), content: RefCell::new(v) }))
            }
            Expr::Assign(op, target, value) => {
                let t = self.expr(target, env)?;
                let v = self.expr(value, env)?;
                let RVal::Cell(c) = t else {
                    return Err(Stop::Unsupported("assignment target".into()));
                };
                let id = Rc::as_ptr(&c) as usize;
                let new = if *op == "=" {
                    v
                } else {
                    let cur = c.content.borrow().clone();
                    match self.bin(&op[..op.len() - 1], cur, v) {
                        Ok(n) => n,
                        Err(Stop::Error(k)) => {
                            self.counters.failed_compound += 1;
                            return Err(Stop::Error(k));
                        }
                        Err(e) => return Err(e),
                    }
                };
                *c.content.borrow_mut() = new.clone();
                self.counters.writes += 1;
                *self.cell_writers.entry(id).or_default() += 1;
                new
            }
            Expr::Iter(a) => match self.expr(a, env)? {
                RVal::Arr(items) => {
                    let elem = match rtype(&RVal::Arr(items.clone())) {
                        Ty::Arr(e) => *e,
                        _ => Ty::Any,
                    };
                    RVal::Fun(Rc::new(Closure { declared: Ty::iter_of(elem), body: Body::ArrayIter { items, pos: RefCell::new(0) } }))
                }
                RVal::Unspec => return Err(Stop::Unspecified),
                _ => return Err(Stop::Unsupported("~".into())),
            },
            Expr::Map(it, f) => {
                let src = self.expr(it, env)?;
                let f = self.expr(f, env)?;
                let ret = match rtype(&f) {
                    Ty::Fun(_, r) => *r,
                    _ => Ty::Any,
                };
                RVal::Fun(Rc::new(Closure { declared: Ty::iter_of(ret), body: Body::MapIter { src, f } }))
            }
            Expr::Filter(it, p) => {
                let src = self.expr(it, env)?;
                let p = self.expr(p, env)?;
                let declared = rtype(&src);
                RVal::Fun(Rc::new(Closure { declared, body: Body::FilterIter { src, p } }))
            }
            Expr::TypeFilter(it, t) => {
                let src = self.expr(it, env)?;
                RVal::Fun(Rc::new(Closure { declared: Ty::iter_of(t.clone()), body: Body::TypeFilterIter { src, ty: t.clone() } }))
            }
            Expr::Partition(it, p) => {
                let src = self.expr(it, env)?;
                let p = self.expr(p, env)?;
                self.note_consumed(&src);
                let (mut yes, mut no) = (vec![], vec![]);
                loop {
                    self.step()?;
                    let (con, v) = self.pull(&src)?;
                    if !con {
                        break;
                    }
                    if let RVal::Bool(true) = self.call(&p, vec![v.clone()])? {
                        yes.push(v);
                    } else {
                        no.push(v);
                    }
                }
                RVal::Tup(Rc::new(vec![RVal::Arr(Rc::new(yes)), RVal::Arr(Rc::new(no))]))
            }
            Expr::Reduce(it, init, f) => {
                let src = self.expr(it, env)?;
                let mut acc = self.expr(init, env)?;
                let f = self.expr(f, env)?;
                self.note_consumed(&src);
                loop {
                    self.step()?;
                    let (con, v) = self.pull(&src)?;
                    if !con {
                        break;
                    }
                    acc = self.call(&f, vec![acc, v])?;
                }
                acc
            }
            Expr::Post(op, it) => {
                let src = self.expr(it, env)?;
                self.note_consumed(&src);
                self.post(op, &src)?
            }
            Expr::Sum(op, elem, it) => {
                let src = self.expr(it, env)?;
                self.note_consumed(&src);
                match (self.post(op, &src)?, *op, elem) {
                    // no elements: the neutral element of the element type
                    (RVal::Int(_), "$+", Ty::Float) => RVal::Float(0.0),
                    (RVal::Int(_), "$*", Ty::Float) => RVal::Float(1.0),
                    (RVal::Int(_), "$+", Ty::Str) => RVal::Str("".into()),
                    (v, ..) => v,
                }
            }
            Expr::Len(x) => match self.expr(x, env)? {
                RVal::Arr(xs) => RVal::Int(xs.len() as i64),
                RVal::Str(s) => RVal::Int(s.chars().count() as i64),
                RVal::Unspec => return Err(Stop::Unspecified),
                _ => return Err(Stop::Unsupported("len".into())),
            },
            Expr::Tick(_, k, x) => {
                let v = self.expr(x, env)?;
                self.log.push(*k);
                self.counters.ticks += 1;
                v
            }
            Expr::Module(body) => {
                let inner = self.block_env(body, env.clone())?;
                // exactly the names the module's own top level declares
                let mut m = BTreeMap::new();
                for s in body {
                    for n in declared_names(s) {
                        if let Some(v) = inner.get(&n) {
                            m.insert(n, v.clone());
                        }
                    }
                }
                RVal::Struct(Rc::new(m))
            }
        })
    }

    fn post(&mut self, op: &str, src: &RVal) -> R<RVal> {
        let mut items = vec![];
        // $&& and $|| stop at the first deciding element; the others drain the iterator
        loop {
            self.step()?;
            let (con, v) = self.pull(src)?;
            if !con {
                break;
            }
            if matches!(v, RVal::Unspec) {
                return Err(Stop::Unspecified);
            }
            match (op, &v) {
                ("$&&", RVal::Bool(false)) => return Ok(RVal::Bool(false)),
                ("$||", RVal::Bool(true)) => return Ok(RVal::Bool(true)),
                _ => {}
            }
            items.push(v);
        }
        Ok(match op {
            "$]" => RVal::Arr(Rc::new(items)),
            "$&&" => RVal::Bool(true),
            "$||" => RVal::Bool(false),
            "$&" => RVal::Int(items.iter().fold(-1i64, |a, v| if let RVal::Int(i) = v { a & i } else { a })),
            "$|" => RVal::Int(items.iter().fold(0i64, |a, v| if let RVal::Int(i) = v { a | i } else { a })),
            "$+" => match items.first() {
                None => RVal::Int(0),
                Some(RVal::Int(_)) => RVal::Int(items.iter().fold(0i64, |a, v| if let RVal::Int(i) = v { a.wrapping_add(*i) } else { a })),
                Some(RVal::Float(_)) => RVal::Float(items.iter().fold(0.0, |a, v| if let RVal::Float(f) = v { a + f } else { a })),
                Some(RVal::Str(_)) => RVal::Str(items.iter().map(|v| if let RVal::Str(s) = v { s.to_string() } else { String::new() }).collect::<String>().into()),
                _ => return Err(Stop::Unsupported("$+".into())),
            },
            "$*" => match items.first() {
                None => RVal::Int(1),
                Some(RVal::Int(_)) => RVal::Int(items.iter().fold(1i64, |a, v| if let RVal::Int(i) = v { a.wrapping_mul(*i) } else { a })),
                Some(RVal::Float(_)) => RVal::Float(items.iter().fold(1.0, |a, v| if let RVal::Float(f) = v { a * f } else { a })),
                _ => return Err(Stop::Unsupported("$*".into())),
            },
            _ => return Err(Stop::Unsupported(op.to_string())),
        })
    }

    fn closure(&mut self, params: &[(String, Ty)], ret: &Ty, body: &[Stmt], env: &Env, name: Option<&str>) -> RVal {
        self.counters.closures_created += 1;
        // remember which visible names the body mentions (for the capture-then-redeclare counter)
        for s in body {
            super::ast::walk_stmt(s, &mut |e| {
                if let Expr::Var(n) = e
                    && env.get(n).is_some()
                    && !params.iter().any(|(p, _)| p == n)
                    && !self.captured_names.contains(n)
                {
                    self.captured_names.push(n.clone());
                }
            });
        }
        RVal::Fun(Rc::new(Closure {
            declared: Ty::fun(params.iter().map(|(_, t)| t.clone()).collect(), ret.clone()),
            body: Body::User {
                params: params.iter().map(|(n, _)| n.clone()).collect(),
                body: Rc::new(body.to_vec()),
                env: env.clone(),
                self_name: name.map(str::to_string),
            },
        }))
    }

    // ---------- statements ----------

    /// executes statements in `env`, returning the environment after them (for declarations)
    pub fn block_env(&mut self, body: &[Stmt], mut env: Env) -> R<Env> {
        for s in body {
            let (_, e) = self.stmt(s, env)?;
            env = e;
        }
        Ok(env)
    }

    /// value of a block: its last statement (or ())
    fn block_in(&mut self, body: &[Stmt], mut env: Env) -> R<RVal> {
        let mut last = RVal::Void;
        for s in body {
            let (v, e) = self.stmt(s, env)?;
            env = e;
            last = v;
        }
        Ok(last)
    }

    fn bind(&mut self, env: &Env, name: &str, v: RVal) -> Env {
        if env.get(name).is_some() {
            self.counters.shadowings += 1;
            if self.captured_names.iter().any(|n| n == name) {
                self.counters.captures_then_redeclared += 1;
            }
        }
        env.with(name, v)
    }

    /// statement in a nested position (branch, loop body, arm): declarations do not escape
    fn nested(&mut self, s: &Stmt, env: &Env) -> R<RVal> {
        Ok(self.stmt(s, env.clone())?.0)
    }

    pub fn stmt(&mut self, s: &Stmt, env: Env) -> R<(RVal, Env)> {
        self.step()?;
        Ok(match s {
            Stmt::Let(n, v) => {
                let (val, _) = self.stmt(v, env.clone())?;
                let env = self.bind(&env, n, val.clone());
                (val, env)
            }
            Stmt::Destruct(ns, v) => {
                let (val, _) = self.stmt(v, env.clone())?;
                let RVal::Tup(items) = &val else {
                    return Err(if matches!(val, RVal::Unspec) { Stop::Unspecified } else { Stop::Unsupported("destructuring".into()) });
                };
                let mut env = env;
                for (n, x) in ns.iter().zip(items.iter()) {
                    env = self.bind(&env, n, x.clone());
                }
                (val, env)
            }
            Stmt::FnDecl(n, ps, r, b) => {
                let f = self.closure(ps, r, b, &env, Some(n));
                let env = self.bind(&env, n, f.clone());
                (f, env)
            }
            Stmt::Expr(e) => (self.expr(e, &env)?, env),
            Stmt::Block(b) => (self.block_in(b, env.clone())?, env),
            Stmt::If(c, t, e) => {
                let v = match self.expr(c, &env)? {
                    RVal::Bool(true) => self.nested(t, &env)?,
                    RVal::Bool(false) => match e {
                        Some(e) => self.nested(e, &env)?,
                        None => RVal::Void,
                    },
                    RVal::Unspec => return Err(Stop::Unspecified),
                    _ => return Err(Stop::Unsupported("if condition".into())),
                };
                (v, env)
            }
            Stmt::IfSet(n, t, x, a, b) => {
                let v = self.expr(x, &env)?;
                if matches!(v, RVal::Unspec) {
                    return Err(Stop::Unspecified);
                }
                self.counters.type_dispatches += 1;
                let r = if sub(&rtype(&v), t) {
                    let inner = self.bind(&env, n, v);
                    self.nested(a, &inner)?
                } else {
                    match b {
                        Some(b) => self.nested(b, &env)?,
                        None => RVal::Void,
                    }
                };
                (r, env)
            }
            Stmt::Match(x, arms) => {
                let v = self.expr(x, &env)?;
                if matches!(v, RVal::Unspec) {
                    return Err(Stop::Unspecified);
                }
                let mut result = None;
                'arms: for (k, arm) in arms.iter().enumerate() {
                    match arm {
                        Arm::Values(cands, body) => {
                            for c in cands {
                                let cv = self.expr(c, &env)?;
                                if rv_eq(&cv, &v)? {
                                    if k > 0 {
                                        self.counters.arms_not_first += 1;
                                    }
                                    result = Some(self.nested(body, &env)?);
                                    break 'arms;
                                }
                            }
                        }
                        Arm::Type(n, t, body) => {
                            self.counters.type_dispatches += 1;
                            if sub(&rtype(&v), t) {
                                if k > 0 {
                                    self.counters.arms_not_first += 1;
                                }
                                let inner = self.bind(&env, n, v.clone());
                                result = Some(self.nested(body, &inner)?);
                                break 'arms;
                            }
                        }
                        Arm::Other(body) => {
                            if k > 0 {
                                self.counters.arms_not_first += 1;
                            }
                            result = Some(self.nested(body, &env)?);
                            break 'arms;
                        }
                    }
                }
                (result.ok_or_else(|| Stop::Unsupported("no arm matched".into()))?, env)
            }
            Stmt::Loop(b) => {
                loop {
                    self.step()?;
                    self.counters.loop_iterations += 1;
                    match self.nested(b, &env) {
                        Ok(_) | Err(Stop::Continue) => {}
                        Err(Stop::Break) => break,
                        Err(e) => return Err(e),
                    }
                }
                (RVal::Void, env)
            }
            Stmt::While(c, b) => {
                loop {
                    self.step()?;
                    match self.expr(c, &env)? {
                        RVal::Bool(true) => {}
                        RVal::Bool(false) => break,
                        RVal::Unspec => return Err(Stop::Unspecified),
                        _ => return Err(Stop::Unsupported("while condition".into())),
                    }
                    self.counters.loop_iterations += 1;
                    match self.nested(b, &env) {
                        Ok(_) | Err(Stop::Continue) => {}
                        Err(Stop::Break) => break,
                        Err(e) => return Err(e),
                    }
                }
                (RVal::Void, env)
            }
            Stmt::WhileSet(n, t, x, b) => {
                loop {
                    self.step()?;
                    let v = self.expr(x, &env)?;
                    if matches!(v, RVal::Unspec) {
                        return Err(Stop::Unspecified);
                    }
                    self.counters.type_dispatches += 1;
                    if !sub(&rtype(&v), t) {
                        break;
                    }
                    self.counters.loop_iterations += 1;
                    let inner = self.bind(&env, n, v);
                    match self.nested(b, &inner) {
                        Ok(_) | Err(Stop::Continue) => {}
                        Err(Stop::Break) => break,
                        Err(e) => return Err(e),
                    }
                }
                (RVal::Void, env)
            }
            Stmt::For(n, it, b) => {
                let src = self.expr(it, &env)?;
                self.note_consumed(&src);
                loop {
                    self.step()?;
                    let (con, v) = self.pull(&src)?;
                    if !con {
                        break;
                    }
                    self.counters.loop_iterations += 1;
                    let inner = self.bind(&env, n, v);
                    match self.nested(b, &inner) {
                        Ok(_) | Err(Stop::Continue) => {}
                        Err(Stop::Break) => break,
                        Err(e) => return Err(e),
                    }
                }
                (RVal::Void, env)
            }
            Stmt::Import(_, body) => {
                // an import yields exactly the top-level names of the file, evaluated in a scope of its own
                let inner = self.block_env(body, env.clone())?;
                let mut m = BTreeMap::new();
                for s in body {
                    for n in declared_names(s) {
                        if let Some(v) = inner.get(&n) {
                            m.insert(n, v.clone());
                        }
                    }
                }
                (RVal::Struct(Rc::new(m)), env)
            }
            Stmt::Break => {
                self.counters.nonlocal_exits += 1;
                return Err(Stop::Break);
            }
            Stmt::Continue => {
                self.counters.nonlocal_exits += 1;
                return Err(Stop::Continue);
            }
            Stmt::Return(v) => {
                let val = match v {
                    Some(v) => self.stmt(v, env)?.0,
                    None => RVal::Void,
                };
                self.counters.nonlocal_exits += 1;
                return Err(Stop::Return(CanonLess(val)));
            }
        })
    }
}

/// names a statement declares in its own scope
pub fn declared_names(s: &Stmt) -> Vec<String> {
    match s {
        Stmt::Let(n, _) | Stmt::FnDecl(n, ..) => vec![n.clone()],
        Stmt::Destruct(ns, _) => ns.clone(),
        _ => vec![],
    }
}

pub fn py_slice(n: usize, start: Option<i64>, stop: Option<i64>, step: Option<i64>) -> Vec<usize> {
    let n = n as i128;
    let step = step.map(|s| s as i128).unwrap_or(1);
    if step == 0 {
        return vec![];
    }
    let (lower, upper) = if step > 0 { (0, n) } else { (-1, n - 1) };
    let clamp = |v: Option<i64>, default: i128| match v {
        None => default,
        Some(v) => {
            let v = v as i128;
            if v < 0 { (v + n).max(lower) } else { v.min(upper) }
        }
    };
    let start = clamp(start, if step < 0 { upper } else { lower });
    let stop = clamp(stop, if step < 0 { lower } else { upper });
    let mut out = vec![];
    let mut i = start;
    while (step > 0 && i < stop) || (step < 0 && i > stop) {
        out.push(i as usize);
        i += step;
    }
    out
}

// ---------- canonical form shared with the real implementation's values ----------

#[derive(Default)]
pub struct RCanonizer {
    cells: Vec<usize>,
    funs: Vec<usize>,
    table: Vec<Option<Canon>>,
    pub unspecified: bool,
}

impl RCanonizer {
    pub fn value(&mut self, v: &RVal) -> Canon {
        match v {
            RVal::Int(i) => Canon::Int(*i),
            RVal::Float(f) => Canon::Float(float_bits(*f)),
            RVal::Bool(b) => Canon::Bool(*b),
            RVal::Str(s) => Canon::Str(s.to_string()),
            RVal::Void => Canon::Void,
            RVal::Unspec => {
                self.unspecified = true;
                Canon::Void
            }
            RVal::Arr(xs) => Canon::Arr(xs.iter().map(|x| self.value(x)).collect()),
            RVal::Tup(xs) => Canon::Tup(xs.iter().map(|x| self.value(x)).collect()),
            RVal::Struct(fs) => Canon::Struct(fs.iter().map(|(k, x)| (k.clone(), self.value(x))).collect()),
            RVal::Fun(f) => {
                let key = Rc::as_ptr(f) as *const u8 as usize;
                let k = match self.funs.iter().position(|x| *x == key) {
                    Some(k) => k,
                    None => {
                        self.funs.push(key);
                        self.funs.len() - 1
                    }
                };
                Canon::Fun(k)
            }
            RVal::Cell(c) => {
                let key = Rc::as_ptr(c) as usize;
                if let Some(k) = self.cells.iter().position(|x| *x == key) {
                    return Canon::Cell(k);
                }
                let k = self.table.len();
                self.cells.push(key);
                self.table.push(None);
                let content = c.content.borrow().clone();
                let cv = self.value(&content);
                self.table[k] = Some(cv);
                Canon::Cell(k)
            }
        }
    }

    pub fn finish(self, value: Canon) -> CanonValue {
        CanonValue { value, cells: self.table.into_iter().map(|c| c.unwrap_or(Canon::Void)).collect() }
    }
}

/// canonical form of a reference value; None if it contains an unspecified part
pub fn rcanon(v: &RVal) -> Option<CanonValue> {
    let mut c = RCanonizer::default();
    let value = c.value(v);
    if c.unspecified { None } else { Some(c.finish(value)) }
}

pub fn tick_function() -> RVal {
    RVal::Fun(Rc::new(Closure { declared: Ty::fun(vec![Ty::Int, Ty::Any], Ty::Any), body: Body::Tick }))
}

pub fn initial_env(extra: &[(String, RVal)]) -> Env {
    let mut m = BTreeMap::new();
    for (k, v) in extra {
        m.insert(k.clone(), v.clone());
    }
    Env(Rc::new(m))
}
