//! Random sentences derived from the project's own pest grammar (read at run time with
//! pest_meta, so a changed grammar is followed).
use crate::tape::Tape;
use pest_meta::ast::{Expr, Rule, RuleType};
use std::collections::HashMap;

pub struct Grammar {
    rules: HashMap<String, Rule>,
    /// minimal derivation depth of every rule
    min_depth: HashMap<String, usize>,
}

const BUILTINS: [&str; 12] = [
    "ANY", "ASCII_DIGIT", "ASCII_ALPHA", "ASCII_ALPHANUMERIC", "ASCII_BIN_DIGIT", "ASCII_OCT_DIGIT", "ASCII_HEX_DIGIT",
    "NEWLINE", "EOI", "SOI", "ASCII_ALPHA_LOWER", "ASCII_ALPHA_UPPER",
];

impl Grammar {
    pub fn load(path: &str) -> Result<Self, String> {
        let text = std::fs::read_to_string(path).map_err(|e| format!("{path}: {e}"))?;
        let pairs = pest_meta::parser::parse(pest_meta::parser::Rule::grammar_rules, &text)
            .map_err(|e| format!("grammar does not parse: {e}"))?;
        let rules = pest_meta::parser::consume_rules(pairs).map_err(|e| format!("grammar: {e:?}"))?;
        let rules: HashMap<String, Rule> = rules.into_iter().map(|r| (r.name.clone(), r)).collect();
        let mut g = Grammar { rules, min_depth: HashMap::new() };
        g.compute_min_depth();
        Ok(g)
    }

    pub fn has_rule(&self, name: &str) -> bool {
        self.rules.contains_key(name)
    }

    pub fn rule_names(&self) -> Vec<String> {
        let mut v: Vec<String> = self.rules.keys().cloned().collect();
        v.sort();
        v
    }

    fn compute_min_depth(&mut self) {
        const INF: usize = usize::MAX / 4;
        let names: Vec<String> = self.rules.keys().cloned().collect();
        let mut depth: HashMap<String, usize> = names.iter().map(|n| (n.clone(), INF)).collect();
        loop {
            let mut changed = false;
            for n in &names {
                let d = Self::expr_depth(&self.rules[n].expr, &depth).saturating_add(1).min(INF);
                if d < depth[n] {
                    depth.insert(n.clone(), d);
                    changed = true;
                }
            }
            if !changed {
                break;
            }
        }
        self.min_depth = depth;
    }

    fn expr_depth(e: &Expr, depth: &HashMap<String, usize>) -> usize {
        const INF: usize = usize::MAX / 4;
        match e {
            Expr::Str(_) | Expr::Insens(_) | Expr::Range(..) | Expr::PeekSlice(..) | Expr::Skip(_) => 0,
            Expr::Ident(name) => {
                if BUILTINS.contains(&name.as_str()) {
                    0
                } else {
                    depth.get(name).copied().unwrap_or(INF)
                }
            }
            Expr::PosPred(_) | Expr::NegPred(_) => 0,
            Expr::Seq(a, b) => Self::expr_depth(a, depth).max(Self::expr_depth(b, depth)),
            Expr::Choice(a, b) => Self::expr_depth(a, depth).min(Self::expr_depth(b, depth)),
            Expr::Opt(_) | Expr::Rep(_) | Expr::RepMax(..) => 0,
            Expr::RepOnce(x) | Expr::Push(x) => Self::expr_depth(x, depth),
            Expr::RepExact(x, n) | Expr::RepMin(x, n) | Expr::RepMinMax(x, n, _) => {
                if *n == 0 { 0 } else { Self::expr_depth(x, depth) }
            }
        }
    }

    /// derive a sentence of `rule`; `budget` bounds the expansion depth
    pub fn derive(&self, rule: &str, tape: &mut Tape, budget: usize, used: &mut Vec<String>) -> String {
        let mut out = String::new();
        self.derive_rule(rule, tape, budget, false, &mut out, used);
        out
    }

    fn derive_rule(&self, name: &str, tape: &mut Tape, budget: usize, atomic: bool, out: &mut String, used: &mut Vec<String>) {
        match name {
            "ANY" => {
                out.push(*tape.pick(&['a', 'z', 'Q', '0', '7', ' ', '_', 'é', '€', '😀', 'n', 'u', 'x', '{', '}', '(', '\'']));
                return;
            }
            "ASCII_DIGIT" => return out.push(*tape.pick(&['0', '1', '7', '9'])),
            "ASCII_BIN_DIGIT" => return out.push(*tape.pick(&['0', '1'])),
            "ASCII_OCT_DIGIT" => return out.push(*tape.pick(&['0', '7', '3'])),
            "ASCII_HEX_DIGIT" => return out.push(*tape.pick(&['0', '9', 'a', 'F'])),
            "ASCII_ALPHA" | "ASCII_ALPHA_LOWER" => return out.push(*tape.pick(&['a', 'b', 'x', 'f', 'i', 'm'])),
            "ASCII_ALPHA_UPPER" => return out.push('A'),
            "ASCII_ALPHANUMERIC" => return out.push(*tape.pick(&['a', 'x', '1', 'Z'])),
            "NEWLINE" => return out.push('\n'),
            "EOI" | "SOI" => return,
            _ => {}
        }
        let Some(rule) = self.rules.get(name) else {
            return;
        };
        if !used.iter().any(|u| u == name) {
            used.push(name.to_string());
        }
        let atomic = match rule.ty {
            RuleType::Atomic | RuleType::CompoundAtomic => true,
            RuleType::NonAtomic => false,
            _ => atomic,
        };
        self.derive_expr(&rule.expr, tape, budget.saturating_sub(1), atomic, out, used);
    }

    fn fits(&self, e: &Expr, budget: usize) -> bool {
        Self::expr_depth(e, &self.min_depth) <= budget
    }

    fn sep(&self, atomic: bool, tape: &mut Tape, out: &mut String) {
        if !atomic && !out.is_empty() && !out.ends_with(' ') && !out.ends_with('\n') {
            // implicit whitespace is optional; mostly emit one blank, sometimes none
            if !tape.chance(1, 6) {
                out.push(' ');
            }
        }
    }

    fn derive_expr(&self, e: &Expr, tape: &mut Tape, budget: usize, atomic: bool, out: &mut String, used: &mut Vec<String>) {
        match e {
            Expr::Str(s) | Expr::Insens(s) => out.push_str(s),
            Expr::Range(a, b) => {
                let (a, b) = (a.chars().next().unwrap_or('a'), b.chars().next().unwrap_or('a'));
                let span = (b as u32).saturating_sub(a as u32);
                out.push(char::from_u32(a as u32 + tape.below(span as usize + 1) as u32).unwrap_or(a));
            }
            Expr::Ident(name) => self.derive_rule(name, tape, budget, atomic, out, used),
            Expr::PeekSlice(..) | Expr::Skip(_) => {}
            Expr::PosPred(_) | Expr::NegPred(_) => {}
            Expr::Seq(a, b) => {
                self.derive_expr(a, tape, budget, atomic, out, used);
                if !matches!(**b, Expr::PosPred(_) | Expr::NegPred(_)) && !matches!(**a, Expr::PosPred(_) | Expr::NegPred(_)) {
                    self.sep(atomic, tape, out);
                }
                self.derive_expr(b, tape, budget, atomic, out, used);
            }
            Expr::Choice(..) => {
                // flatten the choice chain and pick among the alternatives that fit the budget
                let mut alts = vec![];
                let mut cur = e;
                while let Expr::Choice(a, b) = cur {
                    alts.push(&**a);
                    cur = b;
                }
                alts.push(cur);
                let fitting: Vec<&Expr> = alts.iter().copied().filter(|a| self.fits(a, budget)).collect();
                let chosen = if fitting.is_empty() {
                    // nothing fits: take the cheapest
                    alts.iter().copied().min_by_key(|a| Self::expr_depth(a, &self.min_depth)).unwrap()
                } else {
                    fitting[tape.below(fitting.len())]
                };
                self.derive_expr(chosen, tape, budget, atomic, out, used);
            }
            Expr::Opt(x) => {
                if self.fits(x, budget) && tape.chance(1, 2) {
                    self.derive_expr(x, tape, budget, atomic, out, used);
                }
            }
            Expr::Rep(x) | Expr::RepMax(x, _) => {
                if self.fits(x, budget) {
                    for _ in 0..tape.weighted(&[3, 4, 2, 1]) {
                        self.sep(atomic, tape, out);
                        self.derive_expr(x, tape, budget, atomic, out, used);
                    }
                }
            }
            Expr::RepOnce(x) => {
                for _ in 0..1 + tape.weighted(&[4, 2, 1]) {
                    self.sep(atomic, tape, out);
                    self.derive_expr(x, tape, budget, atomic, out, used);
                }
            }
            Expr::RepExact(x, n) | Expr::RepMin(x, n) | Expr::RepMinMax(x, n, _) => {
                for _ in 0..*n {
                    self.sep(atomic, tape, out);
                    self.derive_expr(x, tape, budget, atomic, out, used);
                }
            }
            Expr::Push(x) => self.derive_expr(x, tape, budget, atomic, out, used),
        }
    }
}
