//! From a tape to a concrete test case: program text (plain and constant-hidden), the
//! reference interpreter's expected outcome, and the reference's counters.
use super::{
    ast::{Expr, Hide, Printer, Stmt},
    prog::{Gen, Profile, Program},
    refi::{self, CellData, Counters, Interp, RVal, Stop},
};
use crate::{canon::CanonValue, tape::Tape, ty::Ty};
use std::{cell::RefCell, rc::Rc};

#[derive(Clone, Debug, PartialEq)]
pub enum Expected {
    Value(CanonValue),
    Error(String),
}

impl Expected {
    pub fn show(&self) -> String {
        match self {
            Expected::Value(v) => format!("value {}", v.show()),
            Expected::Error(k) => format!("run-time error {k}"),
        }
    }
}

pub struct Built {
    pub program: Program,
    pub expected: Expected,
    pub counters: Counters,
    pub log_len: usize,
    pub error_state: Option<(Vec<String>, CanonValue)>,
}

#[derive(Debug)]
pub enum Skip {
    Unspecified,
    Budget,
    Unsupported(String),
}

pub fn prelude(p: &Program) -> String {
    let mut s = String::from("log := mut [int] [0; 0]; ");
    for (n, t) in p.tick_types.iter().enumerate() {
        s.push_str(&format!("tk{n} := (k: int, v: {}) -> {} {{ log += [k]; return v; }}; ", t.print(), t.print()));
    }
    s
}

/// the prelude as separate top-level statements with the name each declares
pub fn prelude_statements(p: &Program) -> Vec<(String, String)> {
    let mut out = vec![("log := mut [int] [0; 0];".to_string(), "log".to_string())];
    for (n, t) in p.tick_types.iter().enumerate() {
        out.push((format!("tk{n} := (k: int, v: {}) -> {} {{ log += [k]; return v; }};", t.print(), t.print()), format!("tk{n}")));
    }
    out
}

pub fn result_expr(p: &Program) -> Expr {
    let mut items = vec![Expr::Int(0), Expr::Deref(Box::new(Expr::Var("log".into())))];
    for (n, _) in &p.observed {
        items.push(Expr::Var(n.clone()));
    }
    Expr::Tuple(items)
}

pub fn print(p: &Program, hide: Hide) -> String {
    let printer = Printer::new(hide);
    let body = printer.stmts(&p.body);
    // the result tuple never contains literals that matter, print it plainly
    let result = Printer::new(Hide::None).expr(&result_expr(p));
    format!("{}{body} {result}", prelude(p))
}

pub struct RefRun {
    pub expected: Expected,
    pub counters: Counters,
    pub log_len: usize,
    /// on a run-time error: the top-level names bound before the failing statement and the
    /// canonical value of `(0, *log, names...)` at that moment
    pub error_state: Option<(Vec<String>, CanonValue)>,
}

pub fn reference(p: &Program) -> Result<RefRun, Skip> {
    let log = RVal::Cell(Rc::new(CellData { declared: Ty::arr(Ty::Int), content: RefCell::new(RVal::Arr(Rc::new(vec![]))) }));
    let mut env = refi::initial_env(&[("log".to_string(), log.clone())]);
    let mut interp = Interp::new(200_000);
    let mut bound: Vec<String> = vec![];
    let mut failure: Option<Stop> = None;
    for s in &p.body {
        match interp.stmt(s, env.clone()) {
            Ok((_, e)) => {
                env = e;
                for n in refi::declared_names(s) {
                    bound.retain(|b| *b != n);
                    bound.push(n);
                }
            }
            Err(stop) => {
                failure = Some(stop);
                break;
            }
        }
    }
    let counters = interp.counters.clone();
    let log_len = interp.log.len();
    let skip = |stop: Stop| match stop {
        Stop::Unspecified => Skip::Unspecified,
        Stop::Budget => Skip::Budget,
        Stop::Unsupported(w) => Skip::Unsupported(w),
        _ => Skip::Unsupported("control flow escaped the program".into()),
    };
    match failure {
        None => {
            let v = interp.expr(&result_expr(p), &env).map_err(skip)?;
            let v = replace_log(v, &interp.log.clone());
            match refi::rcanon(&v) {
                Some(c) => Ok(RefRun { expected: Expected::Value(c), counters, log_len, error_state: None }),
                None => Err(Skip::Unspecified),
            }
        }
        Some(Stop::Error(k)) => {
            // what a host can still observe: the names bound so far (cells show the effects of
            // the failing statement up to the failure)
            let mut items = vec![Expr::Int(0), Expr::Deref(Box::new(Expr::Var("log".into())))];
            items.extend(bound.iter().map(|n| Expr::Var(n.clone())));
            let state = interp
                .expr(&Expr::Tuple(items), &env)
                .ok()
                .map(|v| replace_log(v, &interp.log.clone()))
                .and_then(|v| refi::rcanon(&v))
                .map(|c| (bound.clone(), c));
            Ok(RefRun { expected: Expected::Error(k.to_string()), counters, log_len, error_state: state })
        }
        Some(stop) => Err(skip(stop)),
    }
}

/// ticks are evaluated natively by the reference (they do not touch its `log` cell):
/// the second component of the result tuple is the reference's own log
fn replace_log(v: RVal, log: &[i64]) -> RVal {
    match v {
        RVal::Tup(items) if items.len() >= 2 => {
            let mut items = (*items).clone();
            items[1] = RVal::Arr(Rc::new(log.iter().map(|k| RVal::Int(*k)).collect()));
            RVal::Tup(Rc::new(items))
        }
        other => other,
    }
}

pub fn generate(tape: &mut Tape, profile: Profile) -> Program {
    Gen::new(tape, profile).program()
}

pub fn build(tape: &mut Tape, profile: Profile) -> Result<Built, Skip> {
    let program = generate(tape, profile);
    let r = reference(&program)?;
    Ok(Built { program, expected: r.expected, counters: r.counters, log_len: r.log_len, error_state: r.error_state })
}

// ---------- constant analysis for the one permitted difference of folding ----------

#[derive(Clone, Copy, Debug, PartialEq)]
enum Constness {
    Const(i64),
    /// certainly not a compile-time constant (reads a cell, calls a function, ...)
    NonConst,
    /// cannot tell (a name whose binding the analysis does not follow, a non-int constant ...)
    Maybe,
}

/// Kinds of run-time error that the folding pass may legitimately report at parse time: some
/// operation of that kind has a deciding operand that is a failing constant, or one the
/// analysis cannot classify. (Unsure answers are permissive on purpose: the check built on
/// this must never raise a false alarm.)
pub fn constant_failures(body: &[Stmt]) -> Vec<&'static str> {
    // names bound exactly once, by `name := expression`
    let mut decls: std::collections::BTreeMap<String, (usize, Option<Expr>)> = Default::default();
    fn scan(s: &Stmt, decls: &mut std::collections::BTreeMap<String, (usize, Option<Expr>)>) {
        fn bump_in(decls: &mut std::collections::BTreeMap<String, (usize, Option<Expr>)>, n: &str, e: Option<Expr>) {
            let entry = decls.entry(n.to_string()).or_insert((0, None));
            entry.0 += 1;
            entry.1 = e;
        }
        macro_rules! bump {
            ($n:expr, $e:expr) => {
                bump_in(decls, $n, $e)
            };
        }
        match s {
            Stmt::Let(n, v) => {
                match &**v {
                    Stmt::Expr(e) => bump!(n, Some(e.clone())),
                    _ => bump!(n, None),
                }
                scan(v, decls);
            }
            Stmt::Destruct(ns, v) => {
                for n in ns { bump!(n, None); }
                scan(v, decls);
            }
            Stmt::FnDecl(n, ps, _, b) => {
                bump!(n, None);
                for (p, _) in ps { bump!(p, None); }
                b.iter().for_each(|s| scan(s, decls));
            }
            Stmt::Block(b) => b.iter().for_each(|s| scan(s, decls)),
            Stmt::If(_, t, e) => {
                scan(t, decls);
                if let Some(e) = e {
                    scan(e, decls);
                }
            }
            Stmt::IfSet(n, _, _, a, b) => {
                bump!(n, None);
                scan(a, decls);
                if let Some(b) = b {
                    scan(b, decls);
                }
            }
            Stmt::Match(_, arms) => {
                for arm in arms {
                    match arm {
                        super::ast::Arm::Type(n, _, b) => {
                            bump!(n, None);
                            scan(b, decls);
                        }
                        super::ast::Arm::Values(_, b) | super::ast::Arm::Other(b) => scan(b, decls),
                    }
                }
            }
            Stmt::Loop(b) | Stmt::While(_, b) => scan(b, decls),
            Stmt::WhileSet(n, _, _, b) | Stmt::For(n, _, b) => {
                bump!(n, None);
                scan(b, decls);
            }
            Stmt::Return(Some(v)) => scan(v, decls),
            Stmt::Import(_, b) => b.iter().for_each(|s| scan(s, decls)),
            _ => {}
        }
    }
    for s in body {
        scan(s, &mut decls);
        // lambdas inside expressions declare parameters too
        super::ast::walk_stmt(s, &mut |e| {
            if let Expr::Lambda(ps, _, b) = e {
                for (p, _) in ps {
                    let entry = decls.entry(p.clone()).or_insert((0, None));
                    entry.0 += 2;
                }
                b.iter().for_each(|s| scan(s, &mut decls));
            }
        });
    }
    fn constness(e: &Expr, decls: &std::collections::BTreeMap<String, (usize, Option<Expr>)>, depth: usize) -> Constness {
        use Constness::*;
        if depth > 20 {
            return Maybe;
        }
        match e {
            Expr::Int(i) => Const(*i),
            Expr::Neg(x) => match constness(x, decls, depth + 1) {
                Const(v) => Const(v.wrapping_neg()),
                o => o,
            },
            Expr::Not(x) => match constness(x, decls, depth + 1) {
                Const(v) => Const(!v),
                o => o,
            },
            Expr::Bin(op, a, b) => match (constness(a, decls, depth + 1), constness(b, decls, depth + 1)) {
                (Const(a), Const(b)) => match *op {
                    "+" => Const(a.wrapping_add(b)),
                    "-" => Const(a.wrapping_sub(b)),
                    "*" => Const(a.wrapping_mul(b)),
                    "&" => Const(a & b),
                    "|" => Const(a | b),
                    "^" => Const(a ^ b),
                    _ => Maybe,
                },
                (NonConst, _) | (_, NonConst) => NonConst,
                _ => Maybe,
            },
            Expr::Var(n) => match decls.get(n) {
                Some((1, Some(init))) => constness(init, decls, depth + 1),
                _ => Maybe,
            },
            // never folded: reads of cells, calls (ticks are calls), assignments
            Expr::Deref(_) | Expr::Call(..) | Expr::Tick(..) | Expr::Assign(..) | Expr::Len(_) | Expr::Post(..) | Expr::Sum(..) | Expr::Reduce(..) => NonConst,
            _ => Maybe,
        }
    }
    let mut kinds: Vec<&'static str> = vec![];
    let mut note = |k: &'static str| {
        if !kinds.contains(&k) {
            kinds.push(k);
        }
    };
    let judge = |c: Constness, fails: &dyn Fn(i64) -> bool, kind: &'static str, note: &mut dyn FnMut(&'static str)| match c {
        Constness::Const(v) if fails(v) => note(kind),
        Constness::Maybe => note(kind),
        _ => {}
    };
    for s in body {
        super::ast::walk_stmt(s, &mut |e| match e {
            Expr::Bin(op, _, rhs) | Expr::Assign(op, _, rhs) => {
                let c = constness(rhs, &decls, 0);
                match op.trim_end_matches('=') {
                    "/" if *op != "=" => judge(c, &|v| v == 0, "ZeroDivision", &mut note),
                    "%" => judge(c, &|v| v == 0, "ZeroModulo", &mut note),
                    "<<" | ">>" => judge(c, &|v| !(0..=63).contains(&v), "OverflowShift", &mut note),
                    "**" => judge(c, &|v| v < 0, "NegativeExponent", &mut note),
                    _ => {}
                }
            }
            Expr::Repeat(_, n) => judge(constness(n, &decls, 0), &|v| v < 0, "NegativeLength", &mut note),
            Expr::Index(a, i) => {
                let len = match &**a {
                    Expr::Array(xs) => Some(xs.len() as i64),
                    Expr::Str(s) => Some(s.chars().count() as i64),
                    _ => None,
                };
                match (len, constness(i, &decls, 0)) {
                    (Some(n), Constness::Const(i)) => {
                        if i < -n || i >= n {
                            note("IndexOutOfBounds");
                        }
                    }
                    (_, Constness::NonConst) => {}
                    // unknown base or unknown index: cannot exclude a constant failure
                    _ => note("IndexOutOfBounds"),
                }
            }
            _ => {}
        });
    }
    kinds
}

/// the files a program imports: (name, text)
pub fn import_files(p: &Program) -> Vec<(String, String)> {
    let mut found = vec![];
    super::ast::collect_imports(&p.body, &mut found);
    found
        .into_iter()
        .map(|(name, body)| (name, Printer::new(Hide::None).stmts(&body)))
        .collect()
}

/// writes the files a case imports into a scratch directory of the calling thread and returns
/// the program text with the directory filled in
pub fn materialise(text: &str, case: &serde_json::Value) -> String {
    materialise_in(text, case, "")
}

/// as `materialise`, into a directory of its own (`tag` distinguishes it from the thread's usual one)
pub fn materialise_in(text: &str, case: &serde_json::Value, tag: &str) -> String {
    let Some(files) = case["files"].as_object() else {
        return text.to_string();
    };
    if files.is_empty() {
        return text.to_string();
    }
    let dir = std::env::temp_dir().join(format!("vcheck-imports-{}-{:?}{tag}", std::process::id(), std::thread::current().id()).replace(['(', ')'], ""));
    // no file of an earlier case of this thread may be picked up by accident
    let _ = std::fs::remove_dir_all(&dir);
    let _ = std::fs::create_dir_all(&dir);
    for (name, body) in files {
        // files may import further files of the same case
        let body = body.as_str().unwrap_or("").replace("@DIR@", &dir.to_string_lossy());
        let _ = std::fs::write(dir.join(name), body);
    }
    text.replace("@DIR@", &dir.to_string_lossy())
}

pub fn cleanup_import_dirs() {
    if let Ok(rd) = std::fs::read_dir(std::env::temp_dir()) {
        let prefix = format!("vcheck-imports-{}-", std::process::id());
        for e in rd.flatten() {
            if e.file_name().to_string_lossy().starts_with(&prefix) {
                let _ = std::fs::remove_dir_all(e.path());
            }
        }
    }
}

