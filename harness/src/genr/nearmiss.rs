//! Near-miss programs: valid programs with one targeted change that the checker is expected to
//! reject. Whatever it still accepts is executed: C02 demands that it does not panic, C01 that
//! the values still inhabit their static types, C03 that checking itself does not panic.
use crate::tape::Tape;

/// break / continue / return placed after, beside and inside every loop form, in every kind of body
pub fn control_placement_programs() -> Vec<String> {
    let loops = [
        "loop { break; }",
        "loop { k += 1; if *k > 2 { break; }; }",
        "while true { break; }",
        "while false { k += 1; }",
        "while *k < 2 { k += 1; }",
        "while b { break; }",
        "for e in [1, 2]~ { k += e; }",
        "while v: int = w() { k += v; }",
        "t := true; while t { break; }",
        "t := false; while t { k += 1; }",
        "while 1 == 1 { break; }",
        "while 1 == 2 { k += 1; }",
    ];
    let strays = ["break", "continue", "return 1", "return"];
    let prelude = "k := mut 0; b := *k == 0; j := mut 0; w := () -> int|string { j += 1; if *j > 2 { return \"end\"; }; return *j; }; ";
    let mut out = vec![];
    for l in loops {
        for s in strays {
            // after the loop, same scope (top level)
            out.push(format!("{prelude}{l}; {s}; *k"));
            // after the loop inside a block
            out.push(format!("{prelude}{{ {l}; {s}; }}; *k"));
            // after the loop inside a function body
            out.push(format!("{prelude}f := () -> int {{ {l}; {s}; return 2; }}; f()"));
            // inside a function literal nested in the loop body
            out.push(format!("{prelude}loop {{ g := () -> int {{ {s}; return 3; }}; g(); break; }}; *k"));
            // in an if branch / match arm after the loop
            out.push(format!("{prelude}{l}; if b {{ {s}; }}; *k"));
            out.push(format!("{prelude}{l}; match *k {{ 0 => {{ {s}; }}, => {{ }}, }}; *k"));
            // in the else branch of an if-set after the loop
            out.push(format!("{prelude}{l}; if v: string = w() {{ }} else {{ {s}; }}; *k"));
            // the loop as the last statement of a function, stray statement at top level after the call
            out.push(format!("{prelude}f := () {{ {l}; }}; f(); {s}; *k"));
            // inside a module / a block used as a value
            out.push(format!("{prelude}{l}; m := mod {{ p := 1; {s}; }}; *k"));
            out.push(format!("{prelude}{l}; x := {{ {s}; 5 }}; *k"));
        }
    }
    out
}

/// token-level mutation of a program text (delete / duplicate / swap / replace / insert)
pub fn mutate_text(text: &str, tape: &mut Tape) -> String {
    const INSERTS: [&str; 40] = [
        "break;", "continue;", "return 1;", "return;", "true", "false", "0", "1", "\"s\"", "1.5", "()", "[]", "int", "string", "float",
        "any", "mut", "*", "-", "!", "+", "==", "&&", "=", "+=", ":=", "~", "$+", "$]", "@", "?", "(", ")", "{", "}", "[", "]", ",", ";", "x",
    ];
    let mut toks: Vec<String> = lex(text);
    if toks.is_empty() {
        return text.to_string();
    }
    for _ in 0..1 + tape.below(2) {
        if toks.is_empty() {
            break;
        }
        let k = tape.below(toks.len());
        match tape.below(6) {
            0 => {
                toks.remove(k);
            }
            1 => {
                let t = toks[k].clone();
                toks.insert(k, t);
            }
            2 => {
                let j = tape.below(toks.len());
                toks.swap(k, j);
            }
            3 => toks[k] = tape.pick(&INSERTS).to_string(),
            4 => {
                // change the kind of a literal / type name in place
                let t = toks[k].clone();
                toks[k] = match t.as_str() {
                    "int" => "string".into(),
                    "string" => "int".into(),
                    "float" => "int".into(),
                    "bool" => "int".into(),
                    "true" | "false" => "0".into(),
                    s if s.chars().all(|c| c.is_ascii_digit()) => "\"s\"".into(),
                    s if s.starts_with('"') => "1".into(),
                    _ => tape.pick(&INSERTS).to_string(),
                };
            }
            _ => toks.insert(k, tape.pick(&INSERTS).to_string()),
        }
    }
    toks.join(" ")
}

/// coarse lexical tokens
pub fn lex(text: &str) -> Vec<String> {
    let mut out = vec![];
    let chars: Vec<char> = text.chars().collect();
    let mut i = 0;
    while i < chars.len() {
        let c = chars[i];
        if c.is_whitespace() {
            i += 1;
        } else if c.is_alphanumeric() || c == '_' {
            let s = i;
            while i < chars.len() && (chars[i].is_alphanumeric() || chars[i] == '_' || (chars[i] == '.' && i + 1 < chars.len() && chars[i + 1].is_alphanumeric())) {
                i += 1;
            }
            out.push(chars[s..i].iter().collect());
        } else if c == '"' {
            let s = i;
            i += 1;
            while i < chars.len() && chars[i] != '"' {
                if chars[i] == '\\' {
                    i += 1;
                }
                i += 1;
            }
            i = (i + 1).min(chars.len());
            out.push(chars[s..i].iter().collect());
        } else {
            let rest: String = chars[i..(i + 3).min(chars.len())].iter().collect();
            let mut took = 1;
            for op in ["**=", "<<=", ">>=", "$&&", "$||", ":=", "=>", "->", "==", "!=", "<=", ">=", "&&", "||", "**", "<<", ">>", "+=", "-=", "*=", "/=", "%=", "&=", "|=", "^=", "$+", "$*", "$&", "$|", "$]"] {
                if rest.starts_with(op) {
                    took = op.chars().count();
                    break;
                }
            }
            out.push(chars[i..i + took].iter().collect());
            i += took;
        }
    }
    out
}

/// a cell of a narrow type offered where a wider cell type is declared, a value of the extra
/// type stored through the alias, and the owner used afterwards at its own type
pub fn cell_widening_programs() -> Vec<String> {
    // (narrow type, initial value, extra type, value of the extra type, use of *c at the narrow type)
    let kinds = [
        ("int", "5", "float", "2.5", "*c + 1"),
        ("int", "5", "string", "\"s\"", "*c * 2"),
        ("string", "\"a\"", "int", "7", "*c + \"b\""),
        ("float", "1.5", "int", "3", "*c * 2.0"),
        ("bool", "true", "int", "1", "!*c && true"),
        ("[int]", "[1]", "[string]", "[\"s\"]", "(*c)[0] + 1"),
        ("(int, int)", "(1, 2)", "(string, int)", "(\"s\", 2)", "(*c).0 + 1"),
        ("int", "5", "()", "()", "*c - 1"),
    ];
    let mut out = vec![];
    for (t1, v1, t2, v2, usage) in kinds {
        let wide = format!("mut ({t1}|{t2})");
        let wide_bare = format!("mut {t1}|{t2}");
        // through a parameter
        out.push(format!("c := mut {t1} {v1}; widen := (m: {wide}) {{ m = {v2}; }}; widen(c); {usage}"));
        // through a parameter typed mut any
        out.push(format!("c := mut {t1} {v1}; widen := (m: mut any) {{ m = {v2}; }}; widen(c); {usage}"));
        // through if-set / match on the cell
        out.push(format!("c := mut {t1} {v1}; if m: {wide} = c {{ m = {v2}; }}; {usage}"));
        out.push(format!("c := mut {t1} {v1}; match c {{ m: {wide} => {{ m = {v2}; }}, => {{ }}, }}; {usage}"));
        // through an array / tuple / struct of cells
        out.push(format!("c := mut {t1} {v1}; widen := (ms: [{wide}]) {{ ms[0] = {v2}; }}; widen([c]); {usage}"));
        out.push(format!("c := mut {t1} {v1}; widen := (ms: ({wide}, int)) {{ ms.0 = {v2}; }}; widen((c, 1)); {usage}"));
        out.push(format!("c := mut {t1} {v1}; widen := (ms: struct{{m: {wide}}}) {{ ms.m = {v2}; }}; widen(struct{{m := c}}); {usage}"));
        // through a function result and a closure
        out.push(format!("c := mut {t1} {v1}; get := () -> {wide} {{ return c; }}; get() = {v2}; {usage}"));
        out.push(format!("c := mut {t1} {v1}; d := mut {wide_bare} c; {usage}"));
        // a wider cell offered where the narrow one is declared (reads instead of writes)
        out.push(format!("c := mut {t1}|{t2} {v2}; narrow := (m: mut {t1}) -> {t1} {{ return *m; }}; r := narrow(c); r"));
        // compound assignment through the widened alias
        out.push(format!("c := mut {t1} {v1}; widen := (m: {wide}) {{ m = {v2}; }}; g := (f: ({wide}) -> ()) {{ f(c); }}; g(widen); {usage}"));
        // iterator of cells
        out.push(format!("c := mut {t1} {v1}; for m in [c]~ {{ if w: {wide} = m {{ w = {v2}; }}; }}; {usage}"));
    }
    // cells created without a declared type from a value whose static type is a union: the cell is a
    // `mut (A|B)` whatever the initial value turns out to be (also when it is folded or captured)
    for (t1, v1, t2, v2, _) in kinds {
        for last in ["c", "(c, *c)", "if k: mut {t1} = c { 1 } else { 0 }"] {
            let last = last.replace("{t1}", t1);
            out.push(format!("x := if true {{ {v1} }} else {{ {v2} }}; c := mut x; c = {v2}; {last}"));
            out.push(format!("x := [{v1}, {v2}][0]; c := mut x; c = {v2}; {last}"));
            out.push(format!("pick := (b: bool) -> {t1}|{t2} {{ if b {{ return {v1}; }} return {v2}; }}; x := pick(true); mk := () -> mut ({t1}|{t2}) {{ return mut x; }}; c := mk(); c = {v2}; {last}"));
            out.push(format!("f := (x: {t1}|{t2}) -> mut ({t1}|{t2}) {{ return mut x; }}; c := f({v1}); c = {v2}; {last}"));
            out.push(format!("f := (x: {t1}|{t2}) -> any {{ c := mut x; c = {v2}; return {last}; }}; f({v1})"));
            out.push(format!("x := if true {{ {v1} }} else {{ {v2} }}; cs := [mut x, mut x]; cs[0] = {v2}; cs"));
        }
    }
    // compound assignments whose result is wider than the cell's declared type
    let compound = [
        ("[int]", "[1]", "[2.5]", "(*c)[1] + 1"),
        ("[int]", "[1]", "[\"s\"]", "(*c)[1] + 1"),
        ("[int]", "[1]", "[()]", "(*c)[1] + 1"),
        ("[int]", "[1]", "[[2]]", "(*c)[1] + 1"),
        ("[string]", "[\"a\"]", "[1]", "(*c)[1] + \"b\""),
        ("[[int]]", "[[1]]", "[[\"s\"]]", "(*c)[1][0] + 1"),
        ("[float]", "[1.5]", "[1]", "(*c)[1] * 2.0"),
        ("int", "5", "2.5", "*c + 1"),
        ("int", "5", "\"s\"", "*c + 1"),
        ("int", "5", "[1]", "*c + 1"),
        ("float", "1.5", "2", "*c * 2.0"),
        ("float", "1.5", "[2.5]", "*c * 2.0"),
        ("string", "\"a\"", "[\"b\"]", "*c + \"b\""),
        ("bool", "true", "1", "!*c"),
    ];
    for (t, v, w, usage) in compound {
        for op in ["+=", "-=", "*=", "/=", "%=", "**=", "&=", "|=", "^=", "<<=", ">>=", "="] {
            out.push(format!("c := mut {t} {v}; c {op} {w}; {usage}"));
            out.push(format!("c := mut {t} {v}; upd := (m: mut {t}, w: any) {{ if x: any = w {{ m {op} {w}; }}; }}; upd(c, 0); {usage}"));
        }
        out.push(format!("c := mut {t} {v}; d := c; d += {w}; {usage}"));
        out.push(format!("c := mut {t} {v}; for w in [{w}]~ {{ c += w; }}; {usage}"));
    }
    // each program once more with the cell itself as the result, so that its content is judged
    // against its declared type even when the use above fails or is folded away
    let with_cell: Vec<String> =
        out.iter().filter(|p| p.starts_with("c := mut")).filter_map(|p| p.rsplit_once("; ").map(|(head, _)| format!("{head}; c"))).collect();
    out.extend(with_cell);
    out.sort();
    out.dedup();
    out
}

/// a name bound to a value that is not a constant, then rebound from its own old value to a value
/// of another type, and used at the new type: in every kind of body, once and twice
pub fn redeclaration_programs() -> Vec<String> {
    // (first declaration of v, projections that make sense for it)
    let decls: [(&str, &[&str]); 9] = [
        ("v := [h()]", &["v := v[0]", "v := v[-1] + 1", "v := v~", "v := v + [\"s\"]", "v := std.len(v)", "v := v[0:1]", "(v, w) := (v[0], v)"]),
        ("v := (h(), \"s\")", &["v := v.0", "v := v.1", "(v, w) := v", "(w, v) := v", "v := (v.1, v.0)", "v := [v]"]),
        ("v := ((h(), 1), 2)", &["v := v.0", "v := v.0.0", "(v, w) := v"]),
        ("v := struct{a := h(), b := \"s\"}", &["v := v.a", "v := v.b", "v := struct{a := v}", "v := [v.a, v.a]"]),
        ("v := mut h()", &["v := *v", "v := *v + 1", "v := [v]", "v := v += 1"]),
        ("v := (a: int) -> int { return a + h(); }", &["v := v(1)", "v := [v(1), v(2)]", "v := (v(1), v)", "v := (b: string) -> string { return b + v(1); }"]),
        ("v := [h(), h()]~", &["v := v $]", "v := v $+", "v := v()", "v := v().1", "v := v ? (a: int) -> bool { return true; }"]),
        ("v := \"s\" + h()", &["v := std.len(v)", "v := [v]", "v := v[0]", "v := v~"]),
        ("v := if h() > 0 { h() } else { \"s\" }", &["v := match v { i: int => [i], s: string => s, }", "v := [v]", "v := if i: int = v { i + 1 } else { 0 }"]),
    ];
    let uses = ["v", "(v, v)", "[v]"];
    let mut out = vec![];
    for (decl, projections) in decls {
        for p in projections {
            for u in uses {
                let body = format!("{decl}; {p}; {u}");
                out.push(format!("h := () -> int {{ return 3; }}; {body}"));
                out.push(format!("h := () -> int {{ return 3; }}; {decl}; {p}; {p}; {u}"));
                out.push(format!("h := () -> int {{ return 3; }}; r := {{ {body} }}; r"));
                out.push(format!("h := () -> int {{ return 3; }}; g := () -> any {{ {decl}; {p}; return {u}; }}; g()"));
                out.push(format!("h := () -> int {{ return 3; }}; m := mod {{ {decl}; {p}; r := {u}; }}; m.r"));
                out.push(format!("h := () -> int {{ return 3; }}; {decl}; if h() > 0 {{ {p}; {u} }}; v"));
                out.push(format!("h := () -> int {{ return 3; }}; {decl}; for k in [1, 2]~ {{ {p}; }}; v"));
                out.push(format!("h := () -> int {{ return 3; }}; {decl}; g := () -> any {{ {p}; return {u}; }}; {p}; (g(), v)"));
            }
        }
    }
    out.sort();
    out.dedup();
    out
}

/// an iterator that yields nothing and says nothing about its element type (`[]~`, `[]` offered
/// as `[T]`) used where an iterator / array of T is declared: every operator must answer with a
/// value of the declared type
pub fn never_iterator_programs() -> Vec<String> {
    let mut out = vec![];
    // ($& $| $&& $|| are left out: their helpers call the iterator as a function and see the `()` filler
    // of the recorded finding C01:void-for-never where they declare a bool / an int)
    for (t, zero) in [("float", "0.5"), ("string", "\"s\""), ("int", "5")] {
        let ops: &[&str] = match t {
            "float" => &["it $+", "it $*", "it $]", "it ? float $]"],
            "string" => &["it $+", "it $]", "it ? string $]"],
            _ => &["it $+", "it $*", "it $]", "it $+ + it $*"],
        };
        for op in ops {
            for source in ["[]~", "[][:]~", "[]~ ? any"] {
                out.push(format!("f := (it: () -> (bool, {t})) -> any {{ r := {op}; return r; }}; f({source})"));
            }
            out.push(format!("f := (a: [{t}]) -> any {{ it := a~; r := {op}; return r; }}; f([])"));
            out.push(format!("f := (a: [{t}]) -> any {{ it := a[0:0]~; r := {op}; return r; }}; f([{zero}])"));
        }
        {
            out.push(format!("f := (it: () -> (bool, {t})) -> any {{ r := (it ? (v: {t}) -> bool {{ return true; }}) $+; return r; }}; f([]~)"));
            out.push(format!("f := (it: () -> (bool, {t})) -> any {{ r := (it @ (v: {t}) -> {t} {{ return v; }}) $+; return r; }}; f([]~)"));
            out.push(format!("f := (it: () -> (bool, {t})) -> any {{ r := it $ {zero} (acc: {t}, v: {t}) -> {t} {{ return acc + v; }}; return r; }}; f([]~)"));
            out.push(format!("f := (it: () -> (bool, {t})) -> {t} {{ return it $+; }}; f([]~)"));
        }
    }
    out
}

/// a construct binds a name that is also the name of a variable of another type around it; the
/// name is used after the construct (where it means the outer variable again) at the type the
/// binder had: the checker must reject the use, or the accepted program must run soundly
pub fn binder_scope_programs() -> Vec<String> {
    // constructs that bind `v` to an int locally
    let binders = [
        "n := match v { v: int => v + 1, => 0, }",
        "match v { v: int => { v + 1 }, => { 0 }, }",
        "match 5 { v: int => { v }, }",
        "if v: int = v { v + 1 }",
        "if v: int = 5 { v + 1 } else { 0 }",
        "n := if v: int = v { v } else { 0 }",
        "k := mut 0; while v: int = src(k) { k += 1; }",
        "for v in [1, 2]~ { v + 1 }",
        "{ v := 5; v + 1 }",
        "n := { v := 5; v }",
        "if true { v := 5; }",
        "loop { v := 5; break; }",
        "g := (v: int) -> int { return v + 1; }; g(1)",
        "m := mod { v := 5; }",
        "(() { v := 5; })()",
        "(v, w) := (5, 6)",
        "[1]~ @ (v: int) -> int { return v; } $]",
        "{ (v, w) := (5, 6); }",
        // the part of the construct that does not bind v uses the outer v
        "n := if v: float = 5 { 0 } else { v }",
        "if v: float = 5 { } else { w := v; }",
        "n := match 5 { v: float => 0, => v, }",
        "n := match 5 { v: float => 0, w: int => v, }",
        "n := if v: int = 5 { v } else { v }; w := if q: float = 5 { 1 } else { v }",
    ];
    // uses of v at type int afterwards
    // (and, last, a use at the type of the outer v: the construct must not have changed what v means)
    let uses = ["v + 1", "[v][0] * 2", "-v", "v", "v + \"!\""];
    let mut out = vec![];
    let src = "src := (k: mut int) -> int|string { if *k < 2 { return *k; } return \"end\"; }; ";
    for b in binders {
        for u in uses {
            // the outer v is a parameter (a string at run time, a union statically)
            out.push(format!("{src}f := (v: int|string) -> int {{ {b}; return {u}; }}; f(\"text\")"));
            out.push(format!("{src}f := (v: string) -> any {{ {b}; r := {u}; return r; }}; f(\"text\")"));
            // the outer v is a top-level variable that is not a constant, and a constant
            out.push(format!("{src}h := () -> string {{ return \"text\"; }}; v := h(); {b}; {u}"));
            // the outer v is a run-time value captured by the function the construct sits in
            out.push(format!("{src}h := () -> string {{ return \"text\"; }}; v := h(); f := () -> any {{ {b}; r := {u}; return r; }}; f()"));
            out.push(format!("{src}v := mut 7; f := () -> any {{ {b}; r := {u}; return r; }}; (f(), f())"));
            out.push(format!("{src}v := \"text\"; {b}; {u}"));
            // no outer v at all
            out.push(format!("{src}{b}; {u}"));
            out.push(format!("{src}f := () -> any {{ {b}; r := {u}; return r; }}; f()"));
        }
    }
    out.sort();
    out.dedup();
    out
}

/// every spelling of an integer literal in every position that takes an integer literal
pub fn literal_spelling_programs() -> Vec<String> {
    let spellings = [
        "0", "1", "2", "0x1", "0X1", "0b10", "0o7", "0_1", "1_", "1__0", "0x", "0b2", "0o8", "00", "01", "0x_1", "0xg", "1e3", "1.5", "1.", ".5",
        "-1", "+1", "99999999999999999999", "9223372036854775807", "9223372036854775808", "0x7fffffffffffffff", "0xffffffffffffffff",
        "0b1111111111111111111111111111111111111111111111111111111111111111", "1i", "1u8", "١", "1 2",
    ];
    let positions = [
        "(5, 6.5, \"x\").{}", "t := (5, 6.5); t.{}", "((1, 2), 3).0.{}", "(5, 6.5).{}.0", "[1, 2, 3][{}]", "[1, 2, 3][{}:]", "[1, 2, 3][:{}]", "[1, 2, 3][::{}]",
        "\"abc\"[{}]", "[0; {}]", "[{}; 2]", "1 << {}", "{} >> 1", "2 ** {}", "7 % {}", "match 1 { {} => 1, => 2, }", "mut int {}", "mut {}",
        "struct{a := {}}.a", "f := (n: int) -> int { return n; }; f({})", "x := {}; x", "c := mut 0; c += {}", "if {} == 0 { 1 } else { 2 }",
        "[1, 2]~ $ {} (a: int, b: int) -> int { return a + b; }", "-{}", "!{}", "({}, {}).1", "[{}, {}][1]", "return {}", "{}",
    ];
    let mut out = vec![];
    for p in positions {
        for sp in spellings {
            out.push(p.replace("{}", sp));
        }
    }
    out
}

/// one name declared twice in one construct (struct literal, struct type, parameter list,
/// destructuring, module) with values of different types: whichever declaration wins, the static type
/// and the value must be those of the same one
pub fn duplicate_name_programs() -> Vec<String> {
    // (first value, second value, a use that needs the type of the first, a use that needs the type of the second)
    let pairs = [
        ("1", "\"text\"", "@ + 1", "@ + \"!\""),
        ("\"text\"", "1", "@ + \"!\"", "@ + 1"),
        ("2.5", "[1]", "@ * 2.0", "@[0] + 1"),
        ("mut 1", "mut \"s\"", "@ += 1", "@ += \"x\""),
        ("mut 1", "mut \"s\"", "@ = 2", "@ = \"t\""),
        ("mut 1", "mut 2.5", "@ = 2", "@ = 3.5"),
        ("()", "(1, 2)", "@ == ()", "@.0 + @.1"),
        ("1", "2", "@ + 1", "@ - 1"),
        ("[1.5]", "() -> int { return 7; }", "@[0] + 0.5", "@() + 1"),
    ];
    let mut out = vec![];
    for (v, w, use_v, use_w) in pairs {
        // whichever declaration the checker goes by, the use it then admits must work on the value
        for (use_of, shown) in [(use_v, "first"), (use_w, "second")] {
            let _ = shown;
            for (decl, name) in [
                (format!("s := struct{{a := {v}, b := 2.5, a := {w}}};"), "s.a"),
                (format!("t := *(mut int 3); s := struct{{a := {v}, n := t, a := {w}}};"), "s.a"),
                (format!("(a, b, a) := ({v}, 2.5, {w});"), "a"),
                (format!("m := mod {{ a := {v}; b := 2.5; a := {w}; }};"), "m.a"),
            ] {
                // (the holder is part of the result: a cell it holds is looked at after the run)
                let holder = name.split('.').next().unwrap_or(name);
                out.push(format!("{decl} r := {}; (r, {holder})", use_of.replace('@', name)));
                out.push(format!("f := () -> any {{ {decl} r := {}; return (r, {holder}); }}; f()", use_of.replace('@', name)));
            }
            out.push(format!("f := (a: any, a: any) -> any {{ return 0; }}; g := (a: int, a: string) -> any {{ r := {}; return r; }}; g(1, \"s\")", use_of.replace('@', "a")));
        }
        for text in [
            format!("s := struct{{a := {v}, b := 2.5, a := {w}}}; s.a"),
            format!("s := struct{{a := {v}, b := 2.5, a := {w}}}; x := s.a; (x, s)"),
            format!("s := struct{{a := {v}, a := {w}, b := 0}}; [s.a, s.a]"),
            format!("s := struct{{a := {v}, a := {v}, a := {w}}}; (s.a, s.a)"),
            format!("k := mut 0; s := struct{{a := {{ k += 1; {v} }}, a := {{ k += 10; {w} }}}}; (s.a, *k)"),
            format!("f := () -> any {{ return struct{{a := {v}, b := 2.5, a := {w}}}; }}; r := f(); r"),
            format!("f := (p: any) -> any {{ s := struct{{a := {v}, n := p, a := {w}}}; return s.a; }}; f(0)"),
            format!("f := (a: any, a: any) -> any {{ return a; }}; f({v}, {w})"),
            format!("(a, a) := ({v}, {w}); a"),
            format!("(a, b, a) := ({v}, 2.5, {w}); (a, b)"),
            format!("t := ({v}, {w}); (a, a) := t; [a]"),
            format!("m := mod {{ a := {v}; b := 2.5; a := {w}; }}; m.a"),
            format!("m := mod {{ a := {v}; a := {w}; }}; (m.a, m)"),
            format!("f := (p: any) -> any {{ m := mod {{ a := {v}; n := p; a := {w}; }}; return (m.a, m); }}; f(0)"),
        ] {
            out.push(text);
        }
    }
    for text in [
        "f := (a: int, a: string) -> any { return a; }; f(1, \"s\")",
        "f := (a: int, a: string) -> string { return a; }; f(1, \"s\")",
        "f := (a: int, a: string) -> int { return a; }; f(1, \"s\")",
        "f := (s: struct{a: int, a: string}) -> any { return s.a; }; f(struct{a := \"s\"})",
        "f := (s: struct{a: int, a: string}) -> any { return s.a; }; f(struct{a := 1})",
        "f := (s: struct{a: int, a: string}) -> string { return s.a; }; f(struct{a := 1, a := \"s\"})",
        "x: struct{a: int, a: string} = struct{a := 1}",
        "if s: struct{a: int, a: string} = struct{a := \"s\"} { s.a } else { 0 }",
        "if s: struct{a: int, a: string} = struct{a := 1} { s.a } else { 0 }",
    ] {
        out.push(text.to_string());
    }
    out
}

/// string literals of every spelling (well-formed and malformed escapes) in every position that takes
/// a string, `import` included (the paths start with `scratch_`: nothing outside the scratch directory
/// is named): each is accepted or rejected with an error value
pub fn string_spelling_programs() -> Vec<String> {
    let tails = [
        "", "a", "\\n", "\\t\\r", "\\\\", "\\\"", "\\'", "\\0", "\\q", "\\e", "\\ ", "\\u{41}", "\\u{0}", "\\u{110000}", "\\u{d800}", "\\u{}", "\\u{1234567}", "\\u{zz}",
        "\\u", "\\u{", "\\u41", "\\x41", "\\x4", "\\x", "\\xzz", "\\xff", "\\101", "\\N{DASH}", "é\\q", "\\\\q", "\\q\\n", "{}", "\\{", "\\(1)",
    ];
    let positions = [
        "import @", "lib := import @", "lib := import @; lib.p", "f := () { lib := import @ }", "{ import @ }", "x := (import @)", "m := mod { lib := import @ }",
        "@", "x := @; x", "@ + \"a\"", "std.len(@)", "[@]", "(@, 1).0", "match \"a\" { @ => 1, => 2, }", "@[0]", "@[1:]", "struct{a := @}.a", "mut string @",
        "f := (s: string) -> string { return s; }; f(@)", "if @ == \"a\" { 1 } else { 2 }", "return @", "[@; 2]", "std.convert.parse_int(@)",
    ];
    let mut out = vec![];
    for p in positions {
        for t in tails {
            out.push(p.replace('@', &format!("\"scratch_{t}\"")));
        }
    }
    out
}

/// functions declared to return a value whose body can be left without executing a `return`:
/// every `return` sits inside a construct that may not run. The checker must reject them, or the
/// call must still yield a value of the declared type.
/// a declaration in a position that is only executed conditionally (a branch, a loop body - written
/// with and without braces), and a use of the name after the construct: either the use is refused
/// or it means what is in scope there, it never reaches a variable that was not made
pub fn conditional_declaration_programs() -> Vec<String> {
    let decls = ["y := g()", "(y, z) := (g(), 1)", "y := mut g()", "y := () -> int { return g(); }", "y := [g()]", "y := g() + 1"];
    let uses = ["y + 1", "[y][0]", "f2 := () -> any { return y; }; f2()", "y", "y = 5; *y", "y()", "y[0]"];
    let prelude = "g := () -> int { return 7; }; w := () -> int|string { return \"end\"; }; ";
    let mut out = vec![];
    for c in ["*(mut true)", "*(mut false)"] {
        for d in decls {
            let places = [
                format!("if {c} 0 else {d}"),
                format!("if {c} {{ 0 }} else {d}"),
                format!("if {c} {d} else 0"),
                format!("if {c} {d}"),
                format!("if v: int = w() {{ 0 }} else {d}"),
                format!("if v: string = w() {{ 0 }} else {d}"),
                format!("while !{c} {d}"),
                format!("while v: int = w() {d}"),
                format!("for x in [1; 0]~ {d}"),
                format!("for x in [1]~ {d}"),
                format!("if {c} {{ {d}; }}"),
                format!("if {c} {{ 0 }} else {{ {d}; }}"),
                format!("match {c} {{ true => 0, => {d}, }}"),
            ];
            for place in &places {
                for u in uses {
                    out.push(format!("{prelude}{place}; {u}"));
                    out.push(format!("{prelude}y := \"text\"; {place}; {u}"));
                    out.push(format!("{prelude}f := () -> any {{ {place}; return {u}; }}; f()"));
                }
            }
        }
    }
    out
}

pub fn missing_return_programs() -> Vec<String> {
    let constructs = [
        "while c { return 1; }",
        "loop { if c { return 1; }; break; }",
        "for x in [1]~ { if c { return 1; } }",
        "k := mut 0; while x: int = src(k) { if c { return 1; }; k += 1; }",
        "if c { return 1; }",
        "if c { return 1; } else { }",
        "if x: int = w { return x; }",
        "match w { x: int => { return x; }, => { }, }",
        "match c { true => { return 1; }, => { }, }",
        "{ if c { return 1; } }",
        "m := mod { if c { return 1; }; }",
        "g := () -> int { return 1; }",
        "[1]~ @ (x: int) -> int { return x; } $]",
        "while c { return 1; }; loop { break; }",
        "loop { break; }",
        "while false { }",
        "for x in [1]~ { }",
    ];
    let uses = ["f(false, \"s\") + 1", "[f(false, \"s\")][0] * 2", "f(false, \"s\")", "f(true, 5)"];
    let src = "src := (k: mut int) -> int|string { if *k < 1 { return *k; } return \"end\"; }; ";
    let mut out = vec![];
    for c in constructs {
        for u in uses {
            out.push(format!("{src}f := (c: bool, w: int|string) -> int {{ {c}; }}; {u}"));
            out.push(format!("{src}f := (c: bool, w: int|string) -> int {{ {c} }}; {u}"));
            out.push(format!("{src}f := (c: bool, w: int|string) -> int {{ y := 2; {c}; y }}; {u}"));
        }
        out.push(format!("{src}f := (c: bool, w: int|string) -> string {{ {c}; }}; f(false, \"s\") + \"!\""));
        out.push(format!("{src}f := (c: bool, w: int|string) -> [int] {{ {c}; }}; f(false, \"s\") + [1]"));
    }
    // a bare `return` where a value is promised
    for (t, using) in [("int", "@ + 1"), ("string", "@ + \"!\""), ("[int]", "@[0] + std.len(@)"), ("(int, int)", "@.0 + @.1"), ("float", "@ * 2.0"), ("mut int", "@ += 1"), ("()->int", "@() + 1")] {
        out.push(format!("f := (c: bool) -> {t} {{ if c {{ return; }}; return f(true); }}; f(false)"));
        out.push(format!("f := (c: bool) -> {t} {{ return; }}; f(false)"));
        // the result used as what was promised
        out.push(format!("f := (c: bool) -> {t} {{ if c {{ return; }}; return f(true); }}; r := f(false); {}", using.replace('@', "r")));
        out.push(format!("f := (c: bool) -> {t} {{ return; }}; {}", using.replace('@', "f(false)")));
        out.push(format!("f := (xs: [{t}]) -> {t} {{ for x in xs~ {{ return x; }}; return; }}; r := f([]); {}", using.replace('@', "r")));
        out.push(format!("f := (c: bool) -> {t} {{ loop {{ if c {{ return; }}; break; }}; return; }}; r := f(true); {}", using.replace('@', "r")));
        // a function promising `!` whose body can end, called where the caller's own return is owed
        for body in ["", "y := 1;", "if c { return stop(c); }", "while c { }", "loop { break; }", "for x in [1]~ { }", "if c { return stop(false); } else { }"] {
            out.push(format!("stop := (c: bool) -> ! {{ {body} }}; f := (c: bool) -> {t} {{ stop(c); }}; r := f(false); {}", using.replace('@', "r")));
            out.push(format!("stop := ((c: bool) -> ! {{ {body} }}); f := (c: bool) -> {t} {{ x := stop(c); return x; }}; r := f(false); {}", using.replace('@', "r")));
            out.push(format!("f := (c: bool) -> {t} {{ stop := (c: bool) -> ! {{ {body} }}; return stop(c); }}; r := f(false); {}", using.replace('@', "r")));
        }
    }
    for body in ["", "y := 1;", "if c { return stop(c); }", "loop { break; }"] {
        out.push(format!("stop := (c: bool) -> ! {{ {body} }}; x := stop(false); x"));
        out.push(format!("stop := (c: bool) -> ! {{ {body} }}; x := [stop(false)]; x"));
        out.push(format!("stop := (c: bool) -> ! {{ {body} }}; x := if false {{ 1 }} else {{ stop(false) }}; x + 1"));
    }
    out
}

/// statements (the last one is the observed expression) that consume a variable `x` whose static
/// type is `int|float` and whose value is the int 1: what they yield must depend on the value only,
/// not on whether `x` was a constant when the text was parsed
pub fn union_typed_consumers() -> Vec<Vec<&'static str>> {
    vec![
        vec!["m := mut x", "k := match m { c: mut int => \"narrow\", c: mut (int|float) => \"wide\", }", "m = 2.5", "(k, *m)"],
        vec!["m := mut x", "if c: mut int = m { 1 } else { 0 }"],
        vec!["a := [x]", "if v: [int] = a { \"ints\" } else { \"other\" }"],
        vec!["a := [x, 2]", "match a { v: [int] => 1, v: [int|float] => 2, => 3, }"],
        vec!["a := [x, x]", "it := a~", "it()", "it()", "it()"],
        vec!["last := { it := [x]~; it(); it() }", "last"],
        vec!["t := (x, 1)", "match t { v: (int, int) => 1, v: (int|float, int) => 2, => 3, }"],
        vec!["s := struct{a := x}", "if v: struct{a: int} = s { 1 } else { 2 }"],
        vec!["it := [x]~", "if v: () -> (bool, int) = it { 1 } else { 2 }"],
        vec!["c := mut [x]", "if v: mut [int] = c { 1 } else { 2 }"],
        vec!["a := [x] + [2]", "if v: [int] = a { 1 } else { 2 }"],
        vec!["a := [x; 2]", "if v: [int] = a { 1 } else { 2 }"],
        vec!["a := [x, 2][0:1]", "if v: [int] = a { 1 } else { 2 }"],
        vec!["a := [x]~ $]", "if v: [int] = a { 1 } else { 2 }"],
        vec!["a := [x]~ @ (v: int|float) -> int|float { return v; } $]", "match a { v: [int] => 1, v: [int|float] => 2, => 3, }"],
        vec!["a := ([x, 2.5]~ \\ (v: int|float) -> bool { return v == 1; }).0", "match a { v: [int] => 1, v: [int|float] => 2, => 3, }"],
        vec!["f := (v: int|float) -> any { return [v]; }", "a := f(x)", "if v: [int] = a { 1 } else { 2 }"],
        vec!["g := () -> any { return mut x; }", "m := g()", "if c: mut int = m { 1 } else { 0 }"],
        vec!["(x == 1, [x] == [1], x != 1.0, match x { 1 => \"one\", => \"other\", })"],
        vec!["match x { i: int => (\"int\", i + 1), f: float => (\"float\", 0), }"],
    ]
}
