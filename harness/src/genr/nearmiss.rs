//! Near-miss programs: valid programs with one targeted change that the checker is expected to
//! reject. Whatever it still accepts is executed: C02 demands that it does not panic, C01 that
//! the values still inhabit their static types, C03 that checking itself does not panic.
use crate::tape::Tape;

/// break / continue / return placed after, beside and inside every loop form, in every kind of body
pub fn control_placement_programs() -> Vec<String> {
    let loops = [
        "loop { break; }",
        "loop { k += 1; if *k > 2 { break; }; }",
        "while true { break; }",
        "while false { k += 1; }",
        "while *k < 2 { k += 1; }",
        "while b { break; }",
        "for e in [1, 2]~ { k += e; }",
        "while v: int = w() { k += v; }",
        "t := true; while t { break; }",
        "t := false; while t { k += 1; }",
        "while 1 == 1 { break; }",
        "while 1 == 2 { k += 1; }",
    ];
    let strays = ["break", "continue", "return 1", "return"];
    let prelude = "k := mut 0; b := *k == 0; j := mut 0; w := () -> int|string { j += 1; if *j > 2 { return \"end\"; }; return *j; }; ";
    let mut out = vec![];
    for l in loops {
        for s in strays {
            // after the loop, same scope (top level)
            out.push(format!("{prelude}{l}; {s}; *k"));
            // after the loop inside a block
            out.push(format!("{prelude}{{ {l}; {s}; }}; *k"));
            // after the loop inside a function body
            out.push(format!("{prelude}f := () -> int {{ {l}; {s}; return 2; }}; f()"));
            // inside a function literal nested in the loop body
            out.push(format!("{prelude}loop {{ g := () -> int {{ {s}; return 3; }}; g(); break; }}; *k"));
            // in an if branch / match arm after the loop
            out.push(format!("{prelude}{l}; if b {{ {s}; }}; *k"));
            out.push(format!("{prelude}{l}; match *k {{ 0 => {{ {s}; }}, => {{ }}, }}; *k"));
            // in the else branch of an if-set after the loop
            out.push(format!("{prelude}{l}; if v: string = w() {{ }} else {{ {s}; }}; *k"));
            // the loop as the last statement of a function, stray statement at top level after the call
            out.push(format!("{prelude}f := () {{ {l}; }}; f(); {s}; *k"));
            // inside a module / a block used as a value
            out.push(format!("{prelude}{l}; m := mod {{ p := 1; {s}; }}; *k"));
            out.push(format!("{prelude}{l}; x := {{ {s}; 5 }}; *k"));
        }
    }
    out
}

/// token-level mutation of a program text (delete / duplicate / swap / replace / insert)
pub fn mutate_text(text: &str, tape: &mut Tape) -> String {
    const INSERTS: [&str; 40] = [
        "break;", "continue;", "return 1;", "return;", "true", "false", "0", "1", "\"s\"", "1.5", "()", "[]", "int", "string", "float",
        "any", "mut", "*", "-", "!", "+", "==", "&&", "=", "+=", ":=", "~", "$+", "$]", "@", "?", "(", ")", "{", "}", "[", "]", ",", ";", "x",
    ];
    let mut toks: Vec<String> = lex(text);
    if toks.is_empty() {
        return text.to_string();
    }
    for _ in 0..1 + tape.below(2) {
        if toks.is_empty() {
            break;
        }
        let k = tape.below(toks.len());
        match tape.below(6) {
            0 => {
                toks.remove(k);
            }
            1 => {
                let t = toks[k].clone();
                toks.insert(k, t);
            }
            2 => {
                let j = tape.below(toks.len());
                toks.swap(k, j);
            }
            3 => toks[k] = tape.pick(&INSERTS).to_string(),
            4 => {
                // change the kind of a literal / type name in place
                let t = toks[k].clone();
                toks[k] = match t.as_str() {
                    "int" => "string".into(),
                    "string" => "int".into(),
                    "float" => "int".into(),
                    "bool" => "int".into(),
                    "true" | "false" => "0".into(),
                    s if s.chars().all(|c| c.is_ascii_digit()) => "\"s\"".into(),
                    s if s.starts_with('"') => "1".into(),
                    _ => tape.pick(&INSERTS).to_string(),
                };
            }
            _ => toks.insert(k, tape.pick(&INSERTS).to_string()),
        }
    }
    toks.join(" ")
}

/// coarse lexical tokens
pub fn lex(text: &str) -> Vec<String> {
    let mut out = vec![];
    let chars: Vec<char> = text.chars().collect();
    let mut i = 0;
    while i < chars.len() {
        let c = chars[i];
        if c.is_whitespace() {
            i += 1;
        } else if c.is_alphanumeric() || c == '_' {
            let s = i;
            while i < chars.len() && (chars[i].is_alphanumeric() || chars[i] == '_' || (chars[i] == '.' && i + 1 < chars.len() && chars[i + 1].is_alphanumeric())) {
                i += 1;
            }
            out.push(chars[s..i].iter().collect());
        } else if c == '"' {
            let s = i;
            i += 1;
            while i < chars.len() && chars[i] != '"' {
                if chars[i] == '\\' {
                    i += 1;
                }
                i += 1;
            }
            i = (i + 1).min(chars.len());
            out.push(chars[s..i].iter().collect());
        } else {
            let rest: String = chars[i..(i + 3).min(chars.len())].iter().collect();
            let mut took = 1;
            for op in ["**=", "<<=", ">>=", "$&&", "$||", ":=", "=>", "->", "==", "!=", "<=", ">=", "&&", "||", "**", "<<", ">>", "+=", "-=", "*=", "/=", "%=", "&=", "|=", "^=", "$+", "$*", "$&", "$|", "$]"] {
                if rest.starts_with(op) {
                    took = op.chars().count();
                    break;
                }
            }
            out.push(chars[i..i + took].iter().collect());
            i += took;
        }
    }
    out
}
