//! Type universe closed under every constructor up to a bounded depth.
use crate::{tape::Tape, ty::Ty};
use std::collections::BTreeMap;

pub const FIELDS: [&str; 3] = ["a", "b", "c"];

#[derive(Clone, Copy)]
pub struct TyCfg {
    pub depth: usize,
    pub allow_never: bool,
    pub allow_any: bool,
    pub allow_fun: bool,
    pub allow_mut: bool,
}

impl TyCfg {
    pub fn full(depth: usize) -> Self {
        Self { depth, allow_never: true, allow_any: true, allow_fun: true, allow_mut: true }
    }
}

pub fn gen_scalar(tape: &mut Tape, cfg: &TyCfg) -> Ty {
    let mut opts = vec![Ty::Int, Ty::Float, Ty::Str, Ty::Bool, Ty::Void];
    if cfg.allow_any {
        opts.push(Ty::Any);
    }
    if cfg.allow_never {
        opts.push(Ty::Never);
    }
    tape.pick(&opts).clone()
}

pub fn gen_ty(tape: &mut Tape, cfg: &TyCfg) -> Ty {
    gen_ty_at(tape, cfg, cfg.depth)
}

pub fn gen_ty_at(tape: &mut Tape, cfg: &TyCfg, depth: usize) -> Ty {
    if depth == 0 {
        return gen_scalar(tape, cfg);
    }
    // 0 = scalar (simplest)
    let w_fun = if cfg.allow_fun { 3 } else { 0 };
    let w_mut = if cfg.allow_mut { 2 } else { 0 };
    match tape.weighted(&[5, 3, 3, 3, w_fun, w_mut, 4]) {
        0 => gen_scalar(tape, cfg),
        1 => Ty::arr(gen_ty_at(tape, cfg, depth - 1)),
        2 => {
            let n = 2 + tape.below(2);
            Ty::Tup((0..n).map(|_| gen_ty_at(tape, cfg, depth - 1)).collect())
        }
        3 => {
            let mut fields = BTreeMap::new();
            for f in FIELDS {
                if tape.bool() {
                    fields.insert(f.to_string(), gen_ty_at(tape, cfg, depth - 1));
                }
            }
            Ty::Struct(fields)
        }
        4 => {
            let n = tape.below(3);
            let params = (0..n).map(|_| gen_ty_at(tape, cfg, depth - 1)).collect();
            Ty::fun(params, gen_ty_at(tape, cfg, depth - 1))
        }
        5 => Ty::cell(gen_ty_at(tape, cfg, depth - 1)),
        _ => {
            let n = 2 + tape.below(2);
            Ty::union((0..n).map(|_| gen_ty_at(tape, cfg, depth - 1)))
        }
    }
}

/// one widening step: the result is a supertype of `t` under the documented rules
pub fn widen(tape: &mut Tape, t: &Ty, cfg: &TyCfg) -> Ty {
    let fresh = |tape: &mut Tape| gen_ty_at(tape, cfg, 1);
    match t {
        Ty::Arr(e) if tape.chance(2, 3) => Ty::arr(widen(tape, e, cfg)),
        Ty::Tup(ts) if tape.chance(2, 3) => {
            let k = tape.below(ts.len());
            let mut ts = ts.clone();
            ts[k] = widen(tape, &ts[k], cfg);
            Ty::Tup(ts)
        }
        Ty::Struct(fs) if !fs.is_empty() && tape.chance(2, 3) => {
            let mut fs = fs.clone();
            let keys: Vec<String> = fs.keys().cloned().collect();
            let k = tape.pick(&keys).clone();
            if tape.bool() {
                fs.remove(&k); // fewer required fields = wider
            } else {
                let w = widen(tape, &fs[&k], cfg);
                fs.insert(k, w);
            }
            Ty::Struct(fs)
        }
        Ty::Fun(ps, r) if tape.chance(2, 3) => {
            if !ps.is_empty() && tape.bool() {
                let k = tape.below(ps.len());
                let mut ps = ps.clone();
                ps[k] = narrow(tape, &ps[k]);
                Ty::Fun(ps, r.clone())
            } else {
                Ty::Fun(ps.clone(), Box::new(widen(tape, r, cfg)))
            }
        }
        Ty::Union(ms) if tape.chance(1, 2) => {
            let k = tape.below(ms.len());
            let mut ms = ms.clone();
            ms[k] = widen(tape, &ms[k], cfg);
            Ty::union(ms)
        }
        _ => match tape.weighted(&[4, 1]) {
            0 => t.clone().or(fresh(tape)),
            _ if cfg.allow_any => Ty::Any,
            _ => t.clone().or(fresh(tape)),
        },
    }
}

/// one narrowing step: the result is a subtype of `t`
pub fn narrow(tape: &mut Tape, t: &Ty) -> Ty {
    match t {
        Ty::Union(ms) => {
            let k = tape.below(ms.len());
            let mut ms = ms.clone();
            ms.remove(k);
            Ty::union(ms)
        }
        Ty::Arr(e) => Ty::arr(narrow(tape, e)),
        Ty::Tup(ts) => {
            let k = tape.below(ts.len());
            let mut ts = ts.clone();
            ts[k] = narrow(tape, &ts[k]);
            Ty::Tup(ts)
        }
        Ty::Any => tape.pick(&[Ty::Int, Ty::Str, Ty::arr(Ty::Int), Ty::Void]).clone(),
        _ => {
            if tape.chance(1, 4) { Ty::Never } else { t.clone() }
        }
    }
}

/// a mutation that usually yields a type that is NOT a supertype (near miss)
pub fn perturb(tape: &mut Tape, t: &Ty, cfg: &TyCfg) -> Ty {
    match t {
        Ty::Arr(e) if tape.chance(2, 3) => Ty::arr(perturb(tape, e, cfg)),
        Ty::Tup(ts) => {
            if tape.chance(1, 4) {
                let mut ts = ts.clone();
                ts.push(Ty::Int);
                Ty::Tup(ts)
            } else {
                let k = tape.below(ts.len());
                let mut ts = ts.clone();
                ts[k] = perturb(tape, &ts[k], cfg);
                Ty::Tup(ts)
            }
        }
        Ty::Struct(fs) => {
            let mut fs = fs.clone();
            let missing: Vec<&str> = FIELDS.iter().copied().filter(|f| !fs.contains_key(*f)).collect();
            if !missing.is_empty() && tape.bool() {
                // the target requires a field the source does not have
                fs.insert(tape.pick(&missing).to_string(), Ty::Int);
            } else if !fs.is_empty() {
                let keys: Vec<String> = fs.keys().cloned().collect();
                let k = tape.pick(&keys).clone();
                let p = perturb(tape, &fs[&k], cfg);
                fs.insert(k, p);
            }
            Ty::Struct(fs)
        }
        Ty::Fun(ps, r) => {
            if !ps.is_empty() && tape.bool() {
                // widening a parameter of the target breaks contravariance
                let k = tape.below(ps.len());
                let mut ps = ps.clone();
                ps[k] = widen(tape, &ps[k], cfg);
                Ty::Fun(ps, r.clone())
            } else if tape.bool() {
                Ty::Fun(ps.clone(), Box::new(narrow(tape, r)))
            } else {
                let mut ps = ps.clone();
                ps.push(Ty::Int);
                Ty::Fun(ps, r.clone())
            }
        }
        Ty::Mut(e) => {
            if tape.bool() { Ty::cell(widen(tape, e, cfg)) } else { Ty::cell(narrow(tape, e)) }
        }
        Ty::Union(ms) => {
            let k = tape.below(ms.len());
            let mut ms = ms.clone();
            ms.remove(k);
            Ty::union(ms)
        }
        _ => tape.pick(&[Ty::Int, Ty::Float, Ty::Str, Ty::Bool, Ty::Void]).clone(),
    }
}
