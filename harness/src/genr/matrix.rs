//! The operator x operand-type matrix: every operator / statement template applied to
//! parameters of every type of a catalogue (scalars, `!`, `any`, unions of every kind of
//! compound type). Used by C03 (checking never panics), C02 and C01 (what the checker accepts
//! is run on values of every member type).

pub struct Operand {
    pub ty: &'static str,
    /// expressions (self-contained program texts) whose values belong to the type
    pub values: &'static [&'static str],
}

/// `[]~` (static type ()->(bool, !)) is listed only for the parameter type ()->(bool, !): its
/// exhausted filler is the known finding C01:void-for-never; typed empty iterators are built
/// from an empty array through a typed parameter instead (6 catalogue entries changed, and the parameter type ()->(bool, !) gets no value: functions over it are checked but not called).
pub const EXCLUDED_KNOWN: usize = 7;

pub const CATALOGUE: &[Operand] = &[
    Operand { ty: "!", values: &[] },
    Operand { ty: "any", values: &["1", "\"s\"", "[1]", "()", "(1, 2)", "mut 1", "() -> int { return 1; }"] },
    Operand { ty: "int", values: &["0", "1", "-1", "-3", "64", "9223372036854775807", "(-9223372036854775807 - 1)"] },
    Operand { ty: "float", values: &["0.0", "1.5", "-2.0"] },
    Operand { ty: "string", values: &["\"\"", "\"ab\"", "\"żółć\""] },
    Operand { ty: "bool", values: &["true", "false"] },
    Operand { ty: "()", values: &["()"] },
    Operand { ty: "int|float", values: &["2", "2.5"] },
    Operand { ty: "int|string", values: &["2", "\"s\""] },
    Operand { ty: "int|()", values: &["2", "()"] },
    Operand { ty: "bool|int", values: &["true", "3"] },
    Operand { ty: "[int]", values: &["[]", "[1]", "[1, 2, 3]"] },
    Operand { ty: "[]", values: &["[]"] },
    Operand { ty: "[any]", values: &["[]", "[1, \"a\"]"] },
    Operand { ty: "[int|string]", values: &["[]", "[1, \"a\"]", "[\"a\"]"] },
    Operand { ty: "[int]|[string]", values: &["[1, 2]", "[\"a\"]", "[]"] },
    Operand { ty: "[int]|string", values: &["[1, 2]", "\"ab\""] },
    Operand { ty: "[[int]]", values: &["[[1], []]", "[]"] },
    Operand { ty: "[float]", values: &["[1.5, 2.0]", "[]"] },
    Operand { ty: "[string]", values: &["[\"a\", \"b\"]", "[]"] },
    Operand { ty: "[bool]", values: &["[true, false]", "[]"] },
    Operand { ty: "(int, int)", values: &["(1, 2)"] },
    Operand { ty: "(int, string)", values: &["(1, \"a\")"] },
    Operand { ty: "(int, int)|(int, int, int)", values: &["(1, 2)", "(1, 2, 3)"] },
    Operand { ty: "(int, int)|(string, string)", values: &["(1, 2)", "(\"a\", \"b\")"] },
    Operand { ty: "(int, int)|(int, int, int)|(int, int, int, int)", values: &["(1, 2)", "(1, 2, 3)", "(1, 2, 3, 4)"] },
    Operand { ty: "(bool, int)", values: &["(true, 1)", "(false, 0)"] },
    Operand { ty: "struct{a: int}", values: &["struct{a := 1}", "struct{a := 1, b := 2}"] },
    Operand { ty: "struct{a: int}|struct{a: string}", values: &["struct{a := 1}", "struct{a := \"s\"}"] },
    Operand { ty: "struct{a: int, b: int}|struct{a: int}", values: &["struct{a := 1, b := 2}", "struct{a := 1}"] },
    Operand { ty: "struct{}", values: &["struct{}", "struct{a := 1}"] },
    Operand { ty: "mut int", values: &["mut 1", "mut 0"] },
    Operand { ty: "mut float", values: &["mut 1.5"] },
    Operand { ty: "mut bool", values: &["mut true"] },
    Operand { ty: "mut string", values: &["mut \"s\""] },
    Operand { ty: "mut (int|string)", values: &["mut int|string 1", "mut int|string \"s\""] },
    Operand { ty: "mut int|mut float", values: &["mut 1", "mut 1.5"] },
    Operand { ty: "mut [int]", values: &["mut [1, 2]"] },
    Operand { ty: "mut any", values: &["mut any 1", "mut any \"s\""] },
    Operand { ty: "mut int|int", values: &["mut 1", "1"] },
    Operand { ty: "[mut int]", values: &["[mut 1, mut 2]", "[]"] },
    Operand { ty: "()->int", values: &["() -> int { return 1; }"] },
    Operand { ty: "(int)->int", values: &["(n: int) -> int { return n + 1; }"] },
    Operand { ty: "(int)->bool", values: &["(n: int) -> bool { return n > 1; }"] },
    Operand { ty: "(int)->int|(float)->float", values: &["(n: int) -> int { return n; }", "(n: float) -> float { return n; }"] },
    Operand { ty: "(int)->int|(int)->string", values: &["(n: int) -> int { return n; }", "(n: int) -> string { return \"s\"; }"] },
    Operand { ty: "(int)->int|(int, int)->int", values: &["(n: int) -> int { return n; }", "(n: int, k: int) -> int { return n; }"] },
    Operand { ty: "(any)->any", values: &["(n: any) -> any { return n; }"] },
    Operand { ty: "(int, int)->int", values: &["(p: int, q: int) -> int { return p + q; }"] },
    Operand { ty: "(any, any)->any", values: &["(p: any, q: any) -> any { return p; }"] },
    Operand { ty: "()->(bool, int)", values: &["[1, 2]~", "((a: [int]) -> () -> (bool, int) { return a~; })([])", "() -> (bool, int) { return (false, 7); }"] },
    Operand { ty: "()->(bool, int|string)", values: &["[1, \"a\"]~", "((a: [int|string]) -> () -> (bool, int|string) { return a~; })([])"] },
    Operand { ty: "()->(bool, int)|()->(bool, float)", values: &["[1, 2]~", "[1.5]~"] },
    Operand { ty: "()->(bool, !)", values: &[] },
    Operand { ty: "()->(bool, any)", values: &["[1, \"a\"]~", "((a: [any]) -> () -> (bool, any) { return a~; })([])"] },
    Operand { ty: "()->(bool, bool)", values: &["[true, false]~", "((a: [bool]) -> () -> (bool, bool) { return a~; })([])"] },
    Operand { ty: "()->(bool, string)", values: &["[\"a\", \"b\"]~", "((a: [string]) -> () -> (bool, string) { return a~; })([])"] },
    Operand { ty: "()->(bool, float)", values: &["[1.5, 2.5]~", "((a: [float]) -> () -> (bool, float) { return a~; })([])"] },
    Operand { ty: "()->(bool, int)|[int]", values: &["[1]~", "[1]"] },
    Operand { ty: "()->(bool, [int])", values: &["[[1], [2, 3]]~"] },
    Operand { ty: "()->(bool, mut int)", values: &["[mut 1, mut 2]~"] },
    Operand { ty: "()->(int, int)", values: &["() -> (int, int) { return (1, 2); }"] },
    // functions over cells: a call through a union of them must satisfy every member's (invariant) cell type
    Operand {
        ty: "(mut (int|float))->()|(mut (int|string))->()",
        values: &["(m: mut (int|float)) { m = 2.5; }", "(m: mut (int|string)) { m = \"s\"; }"],
    },
    Operand { ty: "(mut int)->()|(mut (int|float))->()", values: &["(m: mut int) { m = 2; }", "(m: mut (int|float)) { m = 2.5; }"] },
    Operand { ty: "mut (int|float)", values: &["mut int|float 1", "mut int|float 2.5"] },
    Operand { ty: "(mut any)->()", values: &["(m: mut any) { m = \"s\"; }"] },
    Operand { ty: "([mut (int|float)])->()", values: &["(ms: [mut (int|float)]) { ms[0] = 2.5; }"] },
    // functions that never return (no value can be listed: a call of one would not come back)
    Operand { ty: "()->!", values: &[] },
    Operand { ty: "(int)->!", values: &[] },
    Operand { ty: "()->!|()->(bool, int)", values: &["[1]~"] },
    // (no `[()->!]`: the filler of an exhausted iterator over it has no value to be - the family of the
    // recorded finding C01:void-for-never)
    // unions of functions with an `any` parameter next to a specific one (the parameter type of a call
    // through the union is the meet of the members' parameter types)
    Operand { ty: "(any)->int|(int)->int", values: &["(n: any) -> int { return 1; }", "(n: int) -> int { return n + 1; }"] },
    Operand { ty: "(int, any)->int|(any, string)->int", values: &["(n: int, s: any) -> int { return n + 1; }", "(n: any, s: string) -> int { return std.len(s); }"] },
    Operand { ty: "(any)->any|(string)->string", values: &["(n: any) -> any { return n; }", "(s: string) -> string { return s + \"!\"; }"] },
    Operand { ty: "(int, string)|(int, string, float)", values: &["(1, \"a\")", "(1, \"a\", 2.5)"] },
    // arrays of cells of other and of several cell types (concatenation joins the element types)
    Operand { ty: "[mut float]", values: &["[mut 1.5]", "[]"] },
    Operand { ty: "[mut int|mut float]", values: &["[mut 1, mut 2.5]", "[mut 2.5, mut 1]", "[mut 1]", "[mut 2.5]"] },
];

/// templates over one operand `X`
pub const UNARY: &[&str] = &[
    "r := -X", "r := !X", "r := *X", "r := X~", "r := X$+", "r := X$*", "r := X$&&", "r := X$||", "r := X$&", "r := X$|",
    "r := X$]", "r := X[0]", "r := X[-1]", "r := X[0:1]", "r := X[::-1]", "r := X[:]", "r := X.0", "r := X.1", "r := X.2",
    "r := X.a", "r := X.b", "r := X()", "r := X(1)", "r := X(1, 2)", "r := X(\"s\")", "r := X ? int", "r := X ? string",
    "r := X ? !", "r := X ? any", "r := std.len(X)", "r := [X]", "r := [X, 1]", "r := [X; 2]", "r := [1; X]", "r := (X, 1)",
    "r := struct{a := X}", "r := mut X", "r := mut any X", "r := mut int X", "return X", "if X { 1 }", "if X { 1 } else { \"s\" }",
    "while X { break; }", "for e in X { e }", "r := match X { v: int => 1, => 2, }", "r := match X { 1 => 1, => 2, }",
    "r := match X { v: int => v, v: string => v, v: any => v, }", "r := match X { v: [int] => v, v: any => 0, }",
    "if v: int = X { v }", "r := if v: [any] = X { v } else { 0 }", "while v: int = X { break; }", "(p, q) := X",
    "(p, q, s) := X", "r := X == X", "r := X != 1", "r := [X] == [X]", "r := X = 1", "r := X += 1", "r := X = \"s\"",
    "r := X = X", "r := X $ 0 (acc: int, c: int) -> int { return acc + c; }",
    "r := X $ 0 (acc: any, c: any) -> any { return acc; }", "r := X @ (v: int) -> int { return v; }",
    "r := X $ 0.5 (acc: int|float, c: int) -> int { return c; }", "r := X $ \"s\" (acc: any, c: any) -> int { return 1; }",
    "r := X $ () (acc: any, c: any) -> [any] { return [c]; }", "m := match X { x: any => 0, }; r := x",
    "m := if x: string = \"s\" { 0 } else { 1 }; r := x", "for x in [1]~ { x }; r := x", "{ x := \"inner\"; x }; r := x",
    "r := X @ (v: any) -> any { return v; }", "r := X ? (v: int) -> bool { return true; }",
    "r := X \\ (v: any) -> bool { return true; }", "r := X~ @ (v: any) -> any { return v; } $]", "r := X~$]",
    "r := (X~)().1", "r := (*X)[0]", "r := *X + 1", "r := X[0] = 1", "r := X[0] += 1", "r := X[0][0]", "r := X()()", "r := X().1",
    "r := X.0.0", "r := X.a.a", "r := -X[0]", "r := X()[0]", "r := [X][0]", "r := (X, X).0", "r := {X}", "r := { x := X; x }",
    "g := () -> any { return X; }; r := g()", "g := (k: any) -> any { return k; }; r := g(X)", "loop { X; break; }",
    "r := X && true", "r := true || X", "r := X[0:1][0]", "r := X.0 + 1", "r := X.a + 1", "r := X() + 1", "r := X(1) + 1",
    "r := X[0] + 1", "r := *X[0]", "r := X$+ + 1", "r := X$] + [1]", "r := (X~)() ", "r := mod { p := X }",
    "r := match X { }", "match X { }", "r := match X { }; r", "m := mod { p := X; return p; q := 1; }; r := m",
    "loop { m := mod { break; q := X; }; }", "loop { m := mod { q := X; continue; z := q; }; break; }",
    "m := mod { if true { return X; } else { return X; }; q := 1; }", "r := { return X; q := 1; q }",
    "r := mod { }", "r := mod { mod { p := X } }", "r := { { X } }", "r := if true { return X; } else { 1 }",
    "r := [match X { => 1, }]", "r := (mod { p := X }).p", "for e in [X]~ { return e; }", "r := (X, X) == (X, X)",
    // type filters over compound types (the filter is built from the printed type)
    "r := X ? mut (int|string) $]", "r := X ? mut int $]", "r := X ? [int] $]", "r := X ? [int|string] $]", "r := X ? (int, string) $]",
    "r := X ? int|string $]", "r := X ? struct{a: int} $]", "r := X ? (int|string, [int]) $]", "r := X ? [[int]|string] $]",
    "r := [X]~ ? mut (int|string) $]", "r := [X]~ ? [int] $]", "r := [X]~ ? (int, int) $]", "r := [X]~ ? struct{a: int}|int $]",
    // a run-time type test followed by a use at the tested type
    "r := if v: [int] = X { v[-1] * 2 } else { 0 }", "r := if v: [string] = X { std.len(v[-1]) } else { 0 }",
    "r := if v: (int, int) = X { v.0 * v.1 } else { 0 }", "r := if v: struct{a: int} = X { v.a * 2 } else { 0 }",
    "r := if v: mut int = X { v += 1 } else { 0 }", "r := match X { v: [int] => v[0] - 1, v: [string] => std.len(v[0]), => 0, }",
    // a mapped / filtered iterator called by hand past its end: the filler belongs to the declared element type
    "it := X~ @ (v: any) -> string { return \"s\"; }; it(); it(); it(); it(); r := it().1 + \"!\"",
    "it := X @ (v: any) -> [int] { return [1]; }; it(); it(); it(); r := it().1 + [2]",
    "it := X~ @ (v: any) -> float { return 1.5; }; it(); it(); it(); it(); r := it().1 * 2.0",
    "it := X~ @ (v: any) -> (int, string) { return (1, \"s\"); }; it(); it(); it(); it(); r := it().1.1 + \"!\"",
    "it := X ? (v: any) -> bool { return true; }; it(); it(); it(); r := it()",
    "it := X~ ? int; it(); it(); it(); it(); r := it().1 + 1",
    // reducers over the iterator of an array (an empty array may be labelled `[!]`: the declared type decides)
    "r := X~ $+", "r := X~ $*", "r := X[0:0]~ $+", "r := X~ ? (v: any) -> bool { return true; } $+",
    // destructuring with the names used afterwards (where a type is required and where it is not)
    "(p, q) := X; r := p", "(p, q) := X; r := (q, p)", "(p, q, s) := X; r := [p, q, s]", "(p, q) := X; r := p + 1", "(p, q) := X; r := q + \"!\"",
    "(p, q) := X; c := mut int 0; c = p; r := c", "(p, q) := X; g := () -> int { return p; }; r := g()",
    // folds whose initial value is not of the type the function returns, used as that type
    "r := (X $ () (acc: any, c: any) -> int { return 1; }) + 1", "r := (X~ $ \"s\" (acc: any, c: any) -> int { return 1; }) * 2",
    "r := [X $ 0.5 (acc: any, c: any) -> int { return 1; }][0] - 1", "c := mut int 0; c = X~ $ () (acc: any, v: any) -> int { return 2; }; r := c",
    // calls through the operand with arguments of several types
    "r := X(\"s\") + 1", "r := X(1, \"s\")", "r := X(\"s\", \"t\")", "r := X([1.5])", "c := mut int 0; c = X(\"s\"); r := c",
];

/// infix operators applied to two operands `X op Y`
pub const INFIX: &[&str] = &[
    "+", "-", "*", "/", "%", "**", "<<", ">>", "&", "|", "^", "==", "!=", "<", "<=", ">", ">=", "&&", "||", "=", "+=", "-=",
    "*=", "/=", "%=", "**=", "<<=", ">>=", "&=", "|=", "^=", "@", "?", "\\",
];

/// other templates over two operands
pub const BINARY: &[&str] = &[
    "r := X[Y]", "r := X[Y:]", "r := X[:Y]", "r := X[::Y]", "r := X(Y)", "r := X(Y, Y)", "r := [X, Y]", "r := [X; Y]",
    "r := (X, Y)", "r := X $ Y (acc: any, c: any) -> any { return acc; }", "r := X $ 0 Y", "r := X $ Y Y",
    "r := if Y { X } else { 0 }", "r := match X { Y => 1, => 2, }", "r := [X] + [Y]", "r := (X, Y) == (Y, X)",
    "r := struct{a := X, b := Y}", "r := X @ Y $]", "r := X ? Y $]", "r := (X \\ Y).0", "r := X~ @ Y $]", "r := X~ ? Y $]",
    "for e in X { Y }", "r := X[0] = Y", "r := X.a = Y", "r := *X + Y", "r := X = *Y", "r := X += *Y",
    "m := match Y { x: any => 0, }; r := x", "m := if x: any = Y { 0 } else { 1 }; r := x", "for x in [Y]~ { x }; r := x",
    "g := (x: any) -> any { return x; }; m := g(Y); r := x", "r := X $ Y (acc: any, c: any) -> int { return 1; }",
    // a value built from two operands, tested against a type at run time and used at that type
    "r := if v: [int] = X + Y { v[-1] * 2 } else { 0 }", "r := match X + Y { v: [string] => std.len(v[-1]), v: [int] => v[0] - 1, => 0, }",
    "r := if v: [int] = [X, Y] { v[-1] * 2 } else { 0 }", "r := if v: (int, int) = (X, Y) { v.0 * v.1 } else { 0 }",
    "r := (X + Y)~ ? int $*", "r := ([X] + [Y])~ ? [int] @ (a: [int]) -> int { return a[-1] * 2; } $]",
];

pub fn operand(index: usize) -> &'static Operand {
    &CATALOGUE[index % CATALOGUE.len()]
}

/// is the template a statement sequence that already binds `r` / returns, or a bare expression
fn body_of(template: &str) -> String {
    if template.contains("r :=") {
        format!("{template}; return r;")
    } else {
        format!("{template}; return 0;")
    }
}

/// the function under test for a unary template
pub fn unary_program(tx: &str, template: &str) -> String {
    let body = body_of(&template.replace('X', "x"));
    format!("f := (x: {tx}) -> any {{ {body} }}")
}

pub fn binary_program(tx: &str, ty: &str, template: &str) -> String {
    let body = body_of(&template.replace('X', "x").replace('Y', "y"));
    format!("f := (x: {tx}, y: {ty}) -> any {{ {body} }}")
}

pub fn infix_program(tx: &str, ty: &str, op: &str) -> String {
    format!("f := (x: {tx}, y: {ty}) -> any {{ r := x {op} y; return r; }}")
}
